//! Scenario runner: real client + simulated environment + ndjson trace logger.
use super::client::{Client, Clock, Config, Proto};
use super::ctx::Sent;
use super::project;
use super::world::SimChain;
use ckb_network::{bytes::Bytes as P2pBytes, PeerIndex, SupportProtocols};
use ckb_types::{packed, prelude::*};
use serde_json::{json, Value};
use std::io::Write;
use std::sync::{Arc, Mutex};

/// Write-level observation (trace file `<out>.w`, validated by Trace_Writes): while an event runs, the storage
/// hook records, right before every write, its label, whether the matched-blocks lock is held, and the
/// persistent state read back from the store (= the state the previous write left).
pub struct WCtx {
    storage: crate::storage::Storage,
    peers: Arc<crate::protocols::Peers>,
    chain: *const SimChain,
    log: Vec<(String, bool, Value)>,
}
unsafe impl Send for WCtx {}
pub static WCTX: Mutex<Option<WCtx>> = Mutex::new(None);
pub static WOUT: Mutex<Option<Box<dyn Write + Send>>> = Mutex::new(None);

/// Opens the write-level trace file and installs the observing hook (once per process).
pub fn wlog_enable(path: &str) {
    let f = std::io::BufWriter::new(std::fs::File::create(path).expect("open write-level trace"));
    *WOUT.lock().unwrap() = Some(Box::new(f));
    crate::verif_hooks::set(Some(Arc::new(|kind: &'static str, label: &str| {
        if kind != "write" {
            return;
        }
        let mut g = WCTX.lock().unwrap_or_else(|e| e.into_inner());
        if let Some(ctx) = g.as_mut() {
            let (locked, st) = project::write_point_state(&ctx.storage, &ctx.peers, unsafe { &*ctx.chain });
            ctx.log.push((label.to_string(), locked, st));
        }
    })));
}

pub fn wlog_finish() {
    if let Some(mut w) = WOUT.lock().unwrap().take() {
        w.flush().ok();
        crate::verif_hooks::set(None);
    }
}

fn wlog_on() -> bool {
    WOUT.lock().unwrap().is_some()
}

fn wemit(rec: &Value) {
    if let Some(w) = WOUT.lock().unwrap().as_mut() {
        writeln!(w, "{}", rec).expect("write w-trace");
    }
}

pub struct Sim {
    pub chain: SimChain,
    pub client: Option<Client>,
    pub clock: Clock,
    pub names: Vec<PeerIndex>,
    /// requests the client sent and nobody answered yet
    pub inbox: Vec<Sent>,
    pub out: Box<dyn Write>,
    pub lines: u64,
    pub scenario: String,
    /// which component projections are logged
    pub parts: Vec<&'static str>,
    pub panics: Vec<String>,
    /// peers the client asked to disconnect / ban in the last step
    pub last_drops: Vec<PeerIndex>,
    pub last_bans: Vec<PeerIndex>,
    pub crashed: bool,
    pub dead: bool,
    /// the state logged last (the state the next event starts from)
    pub last_state: Value,
}

/// events per scenario after which a history is cut off as never ending
pub const RUNAWAY_LINES: u64 = 40_000;

impl Sim {
    pub fn client(&self) -> &Client {
        self.client.as_ref().unwrap()
    }
    pub fn client_mut(&mut self) -> &mut Client {
        self.client.as_mut().unwrap()
    }

    pub fn state(&self) -> Value {
        let mut st = serde_json::Map::new();
        let c = self.client();
        for part in &self.parts {
            let v = match *part {
                "peersync" => project::peersync_state(c, &self.chain, &self.names, self.clock.now),
                "filter" => project::filter_state(c, &self.chain, &self.names),
                "hostile" => project::hostile_state(c, &self.chain, &self.names, self.clock.now),
                _ => json!({}),
            };
            if let Value::Object(m) = v {
                for (k, x) in m {
                    st.insert(k, x);
                }
            }
        }
        Value::Object(st)
    }

    fn collect_out(&mut self) -> Value {
        let c = self.client();
        let sent = c.net.take_sent();
        let banned = c.net.take_banned();
        let ban_idx: Vec<PeerIndex> = banned.iter().map(|(p, _)| *p).collect();
        let bans: Vec<String> = ban_idx.iter().map(|p| project::pname(*p)).collect();
        let drop_idx: Vec<PeerIndex> = c.net.take_disconnects();
        let drops: Vec<String> = drop_idx.iter().map(|p| project::pname(*p)).collect();
        let sj = project::sent_json(&self.chain, &sent);
        self.inbox.extend(sent);
        self.last_drops = drop_idx;
        self.last_bans = ban_idx;
        let why: Vec<String> = banned.iter().map(|(_, r)| r.chars().take(200).collect()).collect();
        json!({"ban": bans, "drop": drops, "sent": sj, "why": why})
    }

    pub fn emit(&mut self, mut rec: Value) {
        rec["sc"] = json!(self.scenario);
        if wlog_on() {
            if rec["st"].is_object() {
                self.last_state = rec["st"].clone();
            }
            if rec["ev"] == "Reset" {
                wemit(&rec);
            }
        }
        writeln!(self.out, "{}", rec).expect("write trace");
        self.lines += 1;
    }

    /// Logs the Reset line: world, configuration and the initial state.
    pub fn reset(&mut self, extra: Value) {
        let cfg = {
            let c = self.client();
            json!({
                "peers": self.names.iter().map(|p| project::pname(*p)).collect::<Vec<_>>(),
                "lastN": c.cfg.last_n,
                "maxOut": c.cfg.max_outbound,
                "interval": c.cfg.interval,
            })
        };
        let _ = self.collect_out();
        let rec = json!({
            "ev": "Reset",
            "world": if self.parts.contains(&"filter") { self.chain.world_json_full() } else { self.chain.world_json() },
            "cfg": cfg,
            "x": extra,
            "st": self.state(),
            "out": {"ban": [], "drop": [], "sent": []},
        });
        self.emit(rec);
    }

    /// Runs one event against the real client and logs event, outputs and projected state.
    pub fn step<F: FnOnce(&mut Client) -> Result<(), String>>(
        &mut self,
        ev: &str,
        args: Value,
        f: F,
    ) -> bool {
        if self.lines > RUNAWAY_LINES {
            return false;
        }
        let wl = wlog_on();
        if wl {
            let c = self.client.as_ref().unwrap();
            *WCTX.lock().unwrap() = Some(WCtx { storage: c.storage.clone(), peers: Arc::clone(&c.peers), chain: &self.chain, log: Vec::new() });
        }
        let res = f(self.client.as_mut().unwrap());
        // (dropping the context releases its handle of the store before any restart)
        let wlog = if wl { WCTX.lock().unwrap().take().map(|c| c.log).unwrap_or_default() } else { Vec::new() };
        let out = self.collect_out();
        match res {
            Ok(()) => {
                let st = self.state();
                if !wlog.is_empty() {
                    // state after write k = state seen before write k + 1; after the last one: the event's post-state
                    let labels: Vec<&str> = wlog.iter().map(|(l, _, _)| l.as_str()).collect();
                    wemit(&json!({"ev": "WBegin", "op": ev, "a": args, "labels": labels, "st": self.last_state, "post": st,
                        "out": out, "sc": self.scenario}));
                    let n = wlog.len();
                    for k in 0..n {
                        let after = if k + 1 < n { wlog[k + 1].2.clone() } else { st.clone() };
                        wemit(&json!({"ev": "W", "op": ev, "a": args, "k": k + 1, "n": n, "label": wlog[k].0, "locked": wlog[k].1,
                            "labels": labels, "st": after, "post": if k + 1 == n { json!(true) } else { json!(false) }, "sc": self.scenario}));
                    }
                }
                let rec = json!({"ev": ev, "a": args, "st": st, "out": out});
                self.emit(rec);
                true
            }
            Err(msg) if msg.starts_with("verif-crash") => {
                // process death at a storage write: every in-memory object is dropped, the store reopened
                crate::verif_hooks::set(None);
                self.inbox.clear();
                let c = self.client.take().unwrap();
                let reopened = crate::verif::client::guard_val(move || c.restart());
                match reopened {
                    Ok(c2) => {
                        self.client = Some(c2);
                        let _ = self.collect_out();
                        let rec = json!({"ev": "Crash", "a": {"during": ev, "label": msg}, "st": self.state(),
                            "out": {"ban": [], "drop": [], "sent": []}});
                        self.emit(rec);
                        self.crashed = true;
                    }
                    Err(m2) => {
                        // the store cannot be opened any more: an abort state
                        self.panics.push(m2.clone());
                        self.dead = true;
                        let rec = json!({"ev": "DeadStore", "a": {"during": ev, "label": msg, "msg": m2}, "sc": self.scenario});
                        writeln!(self.out, "{}", rec).expect("write trace");
                        self.lines += 1;
                    }
                }
                false
            }
            Err(msg) => {
                self.panics.push(msg.clone());
                let loc = crate::verif::client::LAST_PANIC_LOC.lock().map(|g| g.clone()).unwrap_or_default();
                let rec = json!({"ev": "Panic", "a": {"during": ev, "args": args, "msg": msg, "loc": loc}, "st": self.state(), "out": out});
                self.emit(rec);
                false
            }
        }
    }

    /// `d` steps of 30 s.
    pub fn advance(&mut self, d: u64) {
        self.advance_secs(d * crate::verif::world::STEP_SECS);
    }

    pub fn advance_secs(&mut self, secs: u64) {
        self.clock.advance(secs);
        self.step("Advance", json!({"d": secs}), |_| Ok(()));
    }

    /// Removes and returns the oldest outstanding request of the given kind sent to `peer`.
    pub fn take_request<T, F: Fn(&Sent) -> Option<T>>(&mut self, peer: PeerIndex, f: F) -> Option<T> {
        // a scenario that never ends (the client keeps asking, the peers keep answering): one `Runaway` event, which no
        // trace specification accepts, and no request is handed out any more, so that every "answer while asked" loop ends
        if self.lines >= RUNAWAY_LINES {
            if self.lines == RUNAWAY_LINES {
                let rec = json!({"ev": "Runaway", "a": {"lines": self.lines}, "st": self.state(), "out": {"ban": [], "drop": [], "sent": []}});
                self.emit(rec);
            }
            return None;
        }
        let pos = self
            .inbox
            .iter()
            .position(|s| s.peer == peer && f(s).is_some())?;
        let s = self.inbox.remove(pos);
        f(&s)
    }

    pub fn drop_requests_to(&mut self, peer: PeerIndex) {
        self.inbox.retain(|s| s.peer != peer);
    }
}

pub fn as_get_last_state_proof(s: &Sent) -> Option<packed::GetLastStateProof> {
    if s.proto != SupportProtocols::LightClient.protocol_id() {
        return None;
    }
    let msg = packed::LightClientMessageReader::from_compatible_slice(&s.data).ok()?;
    match msg.to_enum() {
        packed::LightClientMessageUnionReader::GetLastStateProof(r) => Some(r.to_entity()),
        _ => None,
    }
}

pub fn as_get_last_state(s: &Sent) -> Option<()> {
    if s.proto != SupportProtocols::LightClient.protocol_id() {
        return None;
    }
    let msg = packed::LightClientMessageReader::from_compatible_slice(&s.data).ok()?;
    match msg.to_enum() {
        packed::LightClientMessageUnionReader::GetLastState(_) => Some(()),
        _ => None,
    }
}

pub fn as_get_blocks_proof(s: &Sent) -> Option<packed::GetBlocksProof> {
    if s.proto != SupportProtocols::LightClient.protocol_id() {
        return None;
    }
    let msg = packed::LightClientMessageReader::from_compatible_slice(&s.data).ok()?;
    match msg.to_enum() {
        packed::LightClientMessageUnionReader::GetBlocksProof(r) => Some(r.to_entity()),
        _ => None,
    }
}

pub fn as_get_txs_proof(s: &Sent) -> Option<packed::GetTransactionsProof> {
    if s.proto != SupportProtocols::LightClient.protocol_id() {
        return None;
    }
    let msg = packed::LightClientMessageReader::from_compatible_slice(&s.data).ok()?;
    match msg.to_enum() {
        packed::LightClientMessageUnionReader::GetTransactionsProof(r) => Some(r.to_entity()),
        _ => None,
    }
}

pub fn as_get_blocks(s: &Sent) -> Option<packed::GetBlocks> {
    if s.proto != SupportProtocols::Sync.protocol_id() {
        return None;
    }
    let msg = packed::SyncMessageReader::from_compatible_slice(&s.data).ok()?;
    match msg.to_enum() {
        packed::SyncMessageUnionReader::GetBlocks(r) => Some(r.to_entity()),
        _ => None,
    }
}

pub fn filter_request(s: &Sent) -> Option<(&'static str, u64)> {
    if s.proto != SupportProtocols::Filter.protocol_id() {
        return None;
    }
    let msg = packed::BlockFilterMessageReader::from_slice(&s.data).ok()?;
    match msg.to_enum() {
        packed::BlockFilterMessageUnionReader::GetBlockFilters(r) => {
            Some(("filters", r.start_number().unpack()))
        }
        packed::BlockFilterMessageUnionReader::GetBlockFilterHashes(r) => {
            Some(("hashes", r.start_number().unpack()))
        }
        packed::BlockFilterMessageUnionReader::GetBlockFilterCheckPoints(r) => {
            Some(("cps", r.start_number().unpack()))
        }
        _ => None,
    }
}

pub fn lc_bytes(msg: &packed::LightClientMessage) -> P2pBytes {
    msg.as_bytes()
}

pub fn new_sim(
    chain: SimChain,
    cfg: Config,
    npeers: usize,
    out: Box<dyn Write>,
    scenario: &str,
    parts: Vec<&'static str>,
) -> Sim {
    let dir = super::client::fresh_dir("db");
    let client = Client::open(dir, chain.consensus.clone(), cfg);
    Sim {
        chain,
        client: Some(client),
        clock: Clock::new(),
        names: (1..=npeers).map(|i| PeerIndex::new(i)).collect(),
        inbox: Vec::new(),
        out,
        lines: 0,
        scenario: scenario.to_owned(),
        parts,
        panics: Vec::new(),
        last_drops: Vec::new(),
        last_bans: Vec::new(),
        crashed: false,
        dead: false,
        last_state: Value::Null,
    }
}

impl Drop for Sim {
    fn drop(&mut self) {
        if let Some(c) = self.client.take() {
            let dir = c.dir.clone();
            drop(c);
            let _ = std::fs::remove_dir_all(dir);
        }
    }
}
