//! The abstract world (shared with the TLA+ specification as JSON) and `SimChain`, which
//! builds it into real CKB objects: headers, blocks, chain-root MMRs, block filters.
use ckb_chain_spec::{consensus::Consensus, ChainSpec};
use ckb_merkle_mountain_range::{leaf_index_to_mmr_size, leaf_index_to_pos, util::MemStore};
use ckb_resource::Resource;
use ckb_types::{
    bytes::Bytes,
    core::{
        BlockBuilder, BlockView, Capacity, EpochNumberWithFraction, HeaderView, ScriptHashType,
        TransactionBuilder, TransactionView,
    },
    packed::{self, Byte32, CellInput, CellOutput, OutPoint, Script},
    prelude::*,
    utilities::{
        build_filter_data, calc_filter_hash, compact_to_difficulty, difficulty_to_compact,
        merkle_mountain_range::{ChainRootMMR, VerifiableHeader},
        FilterDataProvider,
    },
    U256,
};
use serde::{Deserialize, Serialize};
use std::cell::RefCell;
use std::collections::HashMap;

/// Base of the fake clock (ms).  The clock of the traces counts seconds (`TICK_MS`); the drivers advance it in
/// steps of `STEP_SECS` (`Sim::advance`) or by an exact number of seconds (`Sim::advance_secs`).
pub const T0: u64 = 1_700_000_000_000;
pub const TICK_MS: u64 = 1_000;
pub const STEP_SECS: u64 = 30;

#[derive(Clone, Debug, Serialize, Deserialize, PartialEq, Eq)]
pub struct WScript {
    pub code: u8,
    pub hash_type: u8, // 0 data, 1 type
    pub args: Vec<u8>,
}

#[derive(Clone, Debug, Serialize, Deserialize)]
pub struct WCell {
    pub lock: usize,
    pub type_: Option<usize>,
    pub cap: u64, // in CKBytes
    pub data_len: usize,
}

#[derive(Clone, Debug, Serialize, Deserialize)]
pub struct WTx {
    /// inputs: (world tx id, output index)
    pub inputs: Vec<(usize, usize)>,
    pub outputs: Vec<WCell>,
    /// the same transaction (same bytes, same hash) as world tx `same_as`, mined again in this block: what
    /// happens to most transactions of abandoned blocks after a reorganisation.  `inputs` then name the producers
    /// as they are known on THIS branch (twins of the original producers where those were mined again too).
    #[serde(default)]
    pub same_as: Option<usize>,
}

#[derive(Clone, Debug, Serialize, Deserialize)]
pub struct WBlock {
    /// parent block id, -1 for the genesis block (id 0)
    pub parent: i64,
    /// requested block difficulty (rounded to what the compact target can represent)
    pub diff: u64,
    pub epoch: (u64, u64, u64),
    /// header mined (PoW valid)
    pub pow: bool,
    /// extension commits to the parent chain root
    pub root: bool,
    /// non-cellbase transactions, by world tx id (filled by the builder)
    pub txs: Vec<WTx>,
}

#[derive(Clone, Debug, Serialize, Deserialize)]
pub struct World {
    pub pow: String, // "dummy" | "eaglesong"
    pub blocks: Vec<WBlock>,
    pub scripts: Vec<WScript>,
}

pub struct SimBlock {
    pub id: usize,
    pub parent: Option<usize>,
    pub num: u64,
    pub branch: usize,
    pub diff: U256,
    pub td: U256,
    /// true cumulative difficulty along the parent links
    pub ttd: U256,
    pub header: HeaderView,
    pub block: BlockView,
    pub uncles_hash: Byte32,
    pub extension: Option<packed::Bytes>,
    pub parent_chain_root: packed::HeaderDigest,
    pub filter: packed::Bytes,
    pub filter_hash: Byte32,
    /// world tx ids of the block's transactions (cellbase first)
    pub tx_ids: Vec<usize>,
    pub pow: bool,
    pub root: bool,
}

pub struct SimTx {
    pub id: usize,
    pub block: usize,
    pub index: usize,
    pub view: TransactionView,
    /// producers of the inputs as 1-based world tx ids (0 = not a world transaction), branch-local for a twin
    pub ins: Vec<(i64, usize)>,
    /// the original this transaction is a re-mined copy of
    pub twin_of: Option<usize>,
}

pub struct SimChain {
    pub consensus: Consensus,
    pub pow: String,
    pub blocks: Vec<SimBlock>,
    pub txs: Vec<SimTx>,
    pub scripts: Vec<Script>,
    pub wscripts: Vec<WScript>,
    hash2id: HashMap<Byte32, usize>,
    txhash2id: HashMap<Byte32, usize>,
    /// every world tx id with this hash (the original first)
    txhash2ids: HashMap<Byte32, Vec<usize>>,
    // one MMR leaf store per branch; forks start from a copy of the parent's branch store
    stores: Vec<MemStore<packed::HeaderDigest>>,
    children: Vec<Vec<usize>>,
    nonce_seed: RefCell<u128>,
    /// epoch from which on headers commit to the chain root of their parent (RFC 44 activation): a block whose
    /// epoch is not after (this epoch, index 0) carries no extension.  0 = from the first block on.
    pub mmr_activated_epoch: u64,
}

struct CellLookup<'a> {
    chain: &'a SimChain,
    extra: &'a HashMap<Byte32, TransactionView>,
}

impl<'a> FilterDataProvider for CellLookup<'a> {
    fn cell(&self, out_point: &OutPoint) -> Option<CellOutput> {
        let h = out_point.tx_hash();
        let idx: usize = out_point.index().unpack();
        if let Some(tx) = self.extra.get(&h) {
            return tx.outputs().get(idx);
        }
        self.chain
            .txhash2id
            .get(&h)
            .and_then(|id| self.chain.txs[*id].view.outputs().get(idx))
    }
}

pub fn load_consensus(pow: &str) -> Consensus {
    let dir = concat!(env!("CARGO_MANIFEST_DIR"), "/specs");
    let path = format!("{}/{}.toml", dir, pow);
    let spec = ChainSpec::load_from(&Resource::file_system(path.into())).expect("load spec");
    spec.build_consensus().expect("build consensus")
}

/// `code` of the world script that is the genesis block's always_success cell (hash type data).
pub const CODE_ALWAYS_SUCCESS: u8 = 0xA5;

pub fn always_success_data() -> &'static [u8] {
    include_bytes!("../../specs/cells/always_success")
}

pub fn script_of(ws: &WScript) -> Script {
    if ws.code == CODE_ALWAYS_SUCCESS {
        return Script::new_builder()
            .code_hash(CellOutput::calc_data_hash(always_success_data()))
            .hash_type(ScriptHashType::Data.into())
            .args(ws.args.pack())
            .build();
    }
    let mut code = [0u8; 32];
    code[0] = 0xC0;
    code[1] = ws.code;
    Script::new_builder()
        .code_hash(code.pack())
        .hash_type(if ws.hash_type == 0 {
            ScriptHashType::Data.into()
        } else {
            ScriptHashType::Type.into()
        })
        .args(ws.args.pack())
        .build()
}

impl SimChain {
    /// Builds the genesis-only chain for the given PoW profile.
    pub fn new(pow: &str, scripts: &[WScript]) -> Self {
        let consensus = load_consensus(pow);
        let genesis = consensus.genesis_block().clone();
        let mut chain = SimChain {
            consensus,
            pow: pow.to_owned(),
            blocks: Vec::new(),
            txs: Vec::new(),
            scripts: scripts.iter().map(script_of).collect(),
            wscripts: scripts.to_vec(),
            hash2id: HashMap::new(),
            txhash2id: HashMap::new(),
            txhash2ids: HashMap::new(),
            stores: vec![MemStore::default()],
            children: vec![Vec::new()],
            nonce_seed: RefCell::new(1),
            mmr_activated_epoch: 0,
        };
        let mut tx_ids = Vec::new();
        for (i, tx) in genesis.transactions().into_iter().enumerate() {
            let id = chain.txs.len();
            chain.txhash2id.insert(tx.hash(), id);
            chain.txhash2ids.entry(tx.hash()).or_default().push(id);
            let ins: Vec<(i64, usize)> = if tx.is_cellbase() {
                Vec::new()
            } else {
                tx.input_pts_iter()
                    .map(|op| (chain.txhash2id.get(&op.tx_hash()).map(|t| *t as i64 + 1).unwrap_or(0), Unpack::<u32>::unpack(&op.index()) as usize))
                    .collect()
            };
            chain.txs.push(SimTx {
                id,
                block: 0,
                index: i,
                view: tx,
                ins,
                twin_of: None,
            });
            tx_ids.push(id);
        }
        let (filter, filter_hash) = chain.filter_for(&genesis, &Byte32::zero());
        let diff = compact_to_difficulty(genesis.header().compact_target());
        {
            let mut mmr = ChainRootMMR::new(0, &chain.stores[0]);
            mmr.push(genesis.header().digest()).expect("push genesis");
            mmr.commit().expect("commit");
        }
        chain.hash2id.insert(genesis.hash(), 0);
        chain.blocks.push(SimBlock {
            id: 0,
            parent: None,
            num: 0,
            branch: 0,
            td: diff.clone(),
            ttd: diff.clone(),
            diff,
            header: genesis.header(),
            uncles_hash: genesis.calc_uncles_hash(),
            extension: genesis.extension(),
            parent_chain_root: Default::default(),
            block: genesis,
            filter,
            filter_hash,
            tx_ids,
            pow: true,
            root: true,
        });
        chain
    }

    pub fn from_world(world: &World) -> Self {
        let mut chain = SimChain::new(&world.pow, &world.scripts);
        for (i, wb) in world.blocks.iter().enumerate().skip(1) {
            let id = chain.add_block(wb);
            assert_eq!(id, i);
        }
        chain
    }

    fn filter_for(&self, block: &BlockView, parent_filter_hash: &Byte32) -> (packed::Bytes, Byte32) {
        let extra: HashMap<Byte32, TransactionView> = block
            .transactions()
            .into_iter()
            .map(|tx| (tx.hash(), tx))
            .collect();
        let provider = CellLookup {
            chain: self,
            extra: &extra,
        };
        let (data, missing) = build_filter_data(provider, &block.transactions());
        assert!(missing.is_empty(), "world refers to unknown cells");
        let data = data.pack();
        let hash = calc_filter_hash(parent_filter_hash, &data).pack();
        (data, hash)
    }

    pub fn build_tx(&self, id_hint: usize, wtx: &WTx) -> TransactionView {
        let mut b = TransactionBuilder::default();
        for (txid, idx) in &wtx.inputs {
            let prev = &self.txs[*txid].view;
            b = b.input(CellInput::new(OutPoint::new(prev.hash(), *idx as u32), 0));
        }
        for (k, c) in wtx.outputs.iter().enumerate() {
            let mut ob = CellOutput::new_builder()
                .capacity(Capacity::bytes(c.cap as usize).unwrap().pack())
                .lock(self.scripts[c.lock].clone());
            if let Some(t) = c.type_ {
                ob = ob.type_(Some(self.scripts[t].clone()).pack());
            }
            b = b.output(ob.build());
            // make every transaction unique: first output's data starts with the tx id
            let mut data = vec![0xAB; c.data_len];
            if k == 0 {
                let tag = (id_hint as u64).to_le_bytes();
                for (j, byte) in tag.iter().enumerate() {
                    if j < data.len() {
                        data[j] = *byte;
                    }
                }
            }
            b = b.output_data(Bytes::from(data).pack());
        }
        // uniqueness when data_len is small: add a witness-independent dep-free marker via header_deps
        let mut marker = [0u8; 32];
        marker[..8].copy_from_slice(&(id_hint as u64).to_le_bytes());
        marker[31] = 0x7E;
        b = b.header_dep(marker.pack());
        b.build()
    }

    /// Appends a block described by `wb`; returns its id.  Parents must exist.
    pub fn add_block(&mut self, wb: &WBlock) -> usize {
        let id = self.blocks.len();
        let pid = wb.parent as usize;
        let pttd = self.blocks[pid].ttd.clone();
        let (pnum, phash, ptd, pbranch, pfh, pts) = {
            let p = &self.blocks[pid];
            (
                p.num,
                p.header.hash(),
                p.td.clone(),
                p.branch,
                p.filter_hash.clone(),
                p.header.timestamp(),
            )
        };
        let num = pnum + 1;
        // branch bookkeeping: first child continues the parent's branch if the parent is its tip
        let parent_is_tip = self.children[pid].is_empty()
            && self
                .blocks
                .iter()
                .filter(|b| b.branch == pbranch)
                .map(|b| b.num)
                .max()
                == Some(pnum);
        let branch = if parent_is_tip {
            pbranch
        } else {
            self.stores.push(self.stores[pbranch].clone());
            self.stores.len() - 1
        };
        let parent_chain_root = {
            let mmr = ChainRootMMR::new(leaf_index_to_mmr_size(pnum), &self.stores[branch]);
            mmr.get_root().expect("parent chain root")
        };
        let ext: packed::Bytes = if wb.root {
            parent_chain_root.calc_mmr_hash().as_bytes().pack()
        } else {
            let mut junk = [0x5Au8; 32];
            junk[..8].copy_from_slice(&(id as u64).to_le_bytes());
            Bytes::from(junk.to_vec()).pack()
        };
        // before the activation (the first block of the activation epoch included) a header has no chain root
        let has_chain_root = {
            let e = EpochNumberWithFraction::new(wb.epoch.0, wb.epoch.1, wb.epoch.2);
            e > EpochNumberWithFraction::new(self.mmr_activated_epoch, 0, 1)
        };
        let ext_opt: Option<packed::Bytes> = if has_chain_root { Some(ext.clone()) } else { None };
        let compact = difficulty_to_compact(U256::from(wb.diff.max(1)));
        let diff = compact_to_difficulty(compact);
        let epoch = EpochNumberWithFraction::new(wb.epoch.0, wb.epoch.1, wb.epoch.2);
        // cellbase: unique per block id
        let cellbase = {
            let mut data = (id as u64).to_le_bytes().to_vec();
            data.extend_from_slice(b"cellbase");
            TransactionBuilder::default()
                .input(CellInput::new_cellbase_input(num))
                .output(
                    CellOutput::new_builder()
                        .capacity(Capacity::bytes(1000).unwrap().pack())
                        // a lock that is unique per block: every block has its own filter data
                        .lock(
                            Script::new_builder()
                                .args(Bytes::from((id as u64).to_le_bytes().to_vec()).pack())
                                .build(),
                        )
                        .build(),
                )
                .output_data(Bytes::from(data).pack())
                .witness(Script::default().into_witness())
                .build()
        };
        let mut tx_views = vec![cellbase];
        let first_tx_id = self.txs.len();
        // transactions may spend outputs of earlier transactions of the same block
        for (k, wtx) in wb.txs.iter().enumerate() {
            let tid = first_tx_id + 1 + k;
            // temporarily register so that same-block inputs resolve
            let view = if let Some(orig) = wtx.same_as {
                // mined again: the very same transaction
                let v = self.txs[orig].view.clone();
                for ((txid, idx), op) in wtx.inputs.iter().zip(v.input_pts_iter()) {
                    let prev_hash = if *txid >= first_tx_id { tx_views[*txid - first_tx_id].hash() } else { self.txs[*txid].view.hash() };
                    assert!(prev_hash == op.tx_hash() && Unpack::<u32>::unpack(&op.index()) == *idx as u32, "twin inputs must name the same cells");
                }
                v
            } else {
                let mut b = TransactionBuilder::default();
                for (txid, idx) in &wtx.inputs {
                    let prev_hash = if *txid >= first_tx_id {
                        tx_views[*txid - first_tx_id].hash()
                    } else {
                        self.txs[*txid].view.hash()
                    };
                    b = b.input(CellInput::new(OutPoint::new(prev_hash, *idx as u32), 0));
                }
                let tmp = self.build_tx(tid, &WTx {
                    inputs: vec![],
                    outputs: wtx.outputs.clone(),
                    same_as: None,
                });
                b = b
                    .outputs(tmp.outputs())
                    .outputs_data(tmp.outputs_data())
                    .header_deps(tmp.header_deps());
                b.build()
            };
            tx_views.push(view);
        }
        let _ = pts;
        let timestamp = T0 - 600_000 + (id as u64) * 1000;
        let block0 = BlockBuilder::default()
            .parent_hash(phash)
            .number(num.pack())
            .epoch(epoch.pack())
            .compact_target(compact.pack())
            .timestamp(timestamp.pack())
            .transactions(tx_views.clone())
            .extension(ext_opt.clone())
            .build();
        let block = self.seal(block0, wb.pow);
        let header = block.header();
        // register
        let mut tx_ids = Vec::new();
        for (i, tx) in tx_views.into_iter().enumerate() {
            let tid = self.txs.len();
            self.txhash2id.entry(tx.hash()).or_insert(tid);
            self.txhash2ids.entry(tx.hash()).or_default().push(tid);
            let (ins, twin_of) = if i == 0 {
                (Vec::new(), None)
            } else {
                (wb.txs[i - 1].inputs.iter().map(|(p, o)| (*p as i64 + 1, *o)).collect(), wb.txs[i - 1].same_as)
            };
            self.txs.push(SimTx {
                id: tid,
                block: id,
                index: i,
                view: tx,
                ins,
                twin_of,
            });
            tx_ids.push(tid);
        }
        let (filter, filter_hash) = self.filter_for(&block, &pfh);
        {
            let mut mmr = ChainRootMMR::new(leaf_index_to_mmr_size(pnum), &self.stores[branch]);
            mmr.push(header.digest()).expect("mmr push");
            mmr.commit().expect("mmr commit");
        }
        self.hash2id.insert(header.hash(), id);
        self.children[pid].push(id);
        self.children.push(Vec::new());
        self.blocks.push(SimBlock {
            id,
            parent: Some(pid),
            num,
            branch,
            td: &ptd + &diff,
            ttd: &pttd + &diff,
            diff,
            header,
            uncles_hash: block.calc_uncles_hash(),
            extension: ext_opt,
            parent_chain_root,
            block,
            filter,
            filter_hash,
            tx_ids,
            pow: wb.pow || self.pow == "dummy",
            root: wb.root || !has_chain_root,
        });
        id
    }

    /// Finds a nonce that makes PoW valid (`want = true`) or invalid (`want = false`).
    pub fn seal(&self, block: BlockView, want: bool) -> BlockView {
        let engine = self.consensus.pow_engine();
        if self.pow == "dummy" {
            return block;
        }
        let mut seed = self.nonce_seed.borrow_mut();
        loop {
            *seed = seed.wrapping_mul(6364136223846793005).wrapping_add(1442695040888963407);
            let header = block
                .header()
                .as_advanced_builder()
                .nonce((*seed).pack())
                .build();
            if engine.verify(&header.data()) == want {
                return block.as_advanced_builder().nonce((*seed).pack()).build();
            }
        }
    }

    pub fn seal_header(&self, header: HeaderView, want: bool) -> HeaderView {
        if self.pow == "dummy" {
            return header;
        }
        let engine = self.consensus.pow_engine();
        let mut seed = self.nonce_seed.borrow_mut();
        loop {
            *seed = seed.wrapping_mul(6364136223846793005).wrapping_add(1442695040888963407);
            let h = header.as_advanced_builder().nonce((*seed).pack()).build();
            if engine.verify(&h.data()) == want {
                return h;
            }
        }
    }

    pub fn id_of(&self, hash: &Byte32) -> Option<usize> {
        self.hash2id.get(hash).cloned()
    }

    pub fn tx_id_of(&self, hash: &Byte32) -> Option<usize> {
        self.txhash2id.get(hash).cloned()
    }

    /// All world ids of the transaction with this hash (it may have been mined again on another branch).
    pub fn tx_ids_of(&self, hash: &Byte32) -> Vec<usize> {
        self.txhash2ids.get(hash).cloned().unwrap_or_default()
    }

    /// Is this transaction mined in more than one block of the world?
    pub fn has_twin(&self, tx: usize) -> bool {
        self.tx_ids_of(&self.txs[tx].view.hash()).len() > 1
    }

    /// The copy of the transaction that is on the chain ending in `tip` (else the original).
    pub fn tx_id_on(&self, hash: &Byte32, tip: usize) -> Option<usize> {
        let ids = self.tx_ids_of(hash);
        ids.iter().cloned().find(|t| self.is_ancestor(self.txs[*t].block, tip)).or_else(|| ids.first().cloned())
    }

    /// The copy meant by an index entry at (block number, tx index): the one mined at exactly that position; else
    /// the copy on the chain ending in `tip`; else the original.
    pub fn tx_id_at(&self, hash: &Byte32, num: u64, index: Option<usize>, tip: Option<usize>) -> Option<usize> {
        let ids = self.tx_ids_of(hash);
        if ids.len() <= 1 {
            return ids.first().cloned();
        }
        let at: Vec<usize> = ids.iter().cloned().filter(|t| self.blocks[self.txs[*t].block].num == num && index.map(|i| self.txs[*t].index == i).unwrap_or(true)).collect();
        if at.len() == 1 {
            return Some(at[0]);
        }
        let pool = if at.is_empty() { ids.clone() } else { at };
        if let Some(tip) = tip {
            if let Some(t) = pool.iter().cloned().find(|t| self.is_ancestor(self.txs[*t].block, tip)) {
                return Some(t);
            }
        }
        pool.first().cloned()
    }

    pub fn children_of(&self, id: usize) -> &[usize] {
        &self.children[id]
    }

    /// Ancestor chain of `tip` from genesis: `chain[n]` = id of the block at height n.
    pub fn chain_of(&self, tip: usize) -> Vec<usize> {
        let mut v = Vec::with_capacity(self.blocks[tip].num as usize + 1);
        let mut cur = Some(tip);
        while let Some(c) = cur {
            v.push(c);
            cur = self.blocks[c].parent;
        }
        v.reverse();
        v
    }

    pub fn ancestor_at(&self, tip: usize, num: u64) -> Option<usize> {
        let mut cur = tip;
        if self.blocks[cur].num < num {
            return None;
        }
        while self.blocks[cur].num > num {
            cur = self.blocks[cur].parent?;
        }
        Some(cur)
    }

    pub fn is_ancestor(&self, anc: usize, tip: usize) -> bool {
        self.ancestor_at(tip, self.blocks[anc].num) == Some(anc)
    }

    /// MMR root over heights [0, num] of the chain ending in `tip`.
    pub fn chain_root(&self, tip: usize, num: u64) -> packed::HeaderDigest {
        let b = self.ancestor_at(tip, num).expect("ancestor");
        let branch = self.branch_store_for(b);
        ChainRootMMR::new(leaf_index_to_mmr_size(num), &self.stores[branch])
            .get_root()
            .expect("root")
    }

    fn branch_store_for(&self, b: usize) -> usize {
        // Every store contains the leaves of its own chain; the store of the block's own
        // branch holds every ancestor leaf of that block.
        self.blocks[b].branch
    }

    /// MMR proof of the given heights against the root over [0, last_num - 1] on `tip`'s chain.
    pub fn gen_proof(&self, tip: usize, last_num: u64, nums: &[u64]) -> packed::HeaderDigestVec {
        if nums.is_empty() || last_num == 0 {
            return Default::default();
        }
        let upto = self.ancestor_at(tip, last_num - 1).expect("ancestor");
        let store = &self.stores[self.blocks[upto].branch];
        let mmr = ChainRootMMR::new(leaf_index_to_mmr_size(last_num - 1), store);
        let positions = nums.iter().map(|n| leaf_index_to_pos(*n)).collect::<Vec<_>>();
        mmr.gen_proof(positions)
            .expect("gen proof")
            .proof_items()
            .to_owned()
            .pack()
    }

    pub fn verifiable(&self, id: usize) -> packed::VerifiableHeader {
        let b = &self.blocks[id];
        packed::VerifiableHeader::new_builder()
            .header(b.header.data())
            .uncles_hash(b.uncles_hash.clone())
            .extension(Pack::pack(&b.extension))
            .parent_chain_root(b.parent_chain_root.clone())
            .build()
    }

    pub fn verifiable_view(&self, id: usize) -> VerifiableHeader {
        self.verifiable(id).into()
    }

    /// Registers an externally constructed header (e.g. a forged child) so that the projection
    /// can name it.  Returns the new id.  The block has only a cellbase-less empty body.
    pub fn register_foreign(
        &mut self,
        parent: usize,
        header: HeaderView,
        uncles_hash: Byte32,
        extension: Option<packed::Bytes>,
        parent_chain_root: packed::HeaderDigest,
        pow: bool,
        root: bool,
    ) -> usize {
        let id = self.blocks.len();
        let pbranch = self.blocks[parent].branch;
        self.stores.push(self.stores[pbranch].clone());
        let branch = self.stores.len() - 1;
        let diff = compact_to_difficulty(header.compact_target());
        let claimed_parent_td: U256 = parent_chain_root.total_difficulty().unpack();
        let block = BlockBuilder::default().header(header.clone()).build();
        self.hash2id.insert(header.hash(), id);
        self.children[parent].push(id);
        self.children.push(Vec::new());
        self.blocks.push(SimBlock {
            id,
            parent: Some(parent),
            num: header.number(),
            branch,
            td: &claimed_parent_td + &diff,
            ttd: &self.blocks[parent].ttd + &diff,
            diff,
            header,
            block,
            uncles_hash,
            extension,
            parent_chain_root,
            filter: Default::default(),
            filter_hash: Default::default(),
            tx_ids: vec![],
            pow,
            root,
        });
        id
    }

    pub fn u(&self, v: &U256) -> u64 {
        // world values are small; saturate otherwise
        if v > &U256::from(u64::MAX) {
            u64::MAX
        } else {
            v.0[0]
        }
    }

    /// JSON description of the world for the specification (ids are 1-based there).
    pub fn world_json(&self) -> serde_json::Value {
        let blocks: Vec<serde_json::Value> = self
            .blocks
            .iter()
            .map(|b| {
                let e = b.header.epoch();
                // true cumulative difficulty along the parent links
                serde_json::json!({
                    "parent": b.parent.map(|p| p as i64 + 1).unwrap_or(0),
                    "num": b.num,
                    "diff": self.u(&b.diff),
                    "td": self.u(&b.td),
                    "ttd": self.u(&b.ttd),
                    "ep": [e.number(), e.index(), e.length()],
                    "pow": b.pow,
                    "root": b.root,
                })
            })
            .collect();
        serde_json::json!({ "pow": self.pow, "blocks": blocks })
    }

    /// World with transactions and scripts (for the filter / index components).
    /// txs[t] = [block, index, ins: [[tx, out]...], outs: [[lock, type, cap, dlen]...]] (1-based ids, 0 = none / unknown)
    pub fn world_json_full(&self) -> serde_json::Value {
        let mut w = self.world_json();
        let script_id = |s: &Script| -> i64 {
            self.scripts.iter().position(|x| x.as_slice() == s.as_slice()).map(|i| i as i64 + 1).unwrap_or(0)
        };
        let txs: Vec<serde_json::Value> = self
            .txs
            .iter()
            .map(|t| {
                let ins: Vec<serde_json::Value> = if t.view.is_cellbase() {
                    vec![]
                } else {
                    t.ins.iter().map(|(p, o)| serde_json::json!([p, o])).collect()
                };
                let outs: Vec<serde_json::Value> = t
                    .view
                    .outputs_with_data_iter()
                    .map(|(o, d)| {
                        let cap: Capacity = o.capacity().unpack();
                        serde_json::json!([
                            script_id(&o.lock()),
                            o.type_().to_opt().map(|s| script_id(&s)).unwrap_or(0),
                            cap.as_u64() / 100_000_000,
                            d.len()
                        ])
                    })
                    .collect();
                serde_json::json!({"b": t.block + 1, "i": t.index, "ins": ins, "outs": outs, "h": t.twin_of.unwrap_or(t.id) + 1})
            })
            .collect();
        let btx: Vec<Vec<usize>> = self.blocks.iter().map(|b| b.tx_ids.iter().map(|t| t + 1).collect()).collect();
        w["txs"] = serde_json::json!(txs);
        w["btx"] = serde_json::json!(btx);
        w["nscripts"] = serde_json::json!(self.scripts.len());
        w
    }
}

impl SimChain {
    /// A child of `parent` that passes every stateless check (parent hash, number, epoch, PoW,
    /// extension committing to the chain root it is sent with) but whose chain root is made up:
    /// it claims `claimed_parent_td` as the total difficulty up to the parent.
    pub fn forge_child(&mut self, parent: usize, claimed_parent_td: U256) -> usize {
        let (phash, pnum, pepoch, compact, pts, real_root) = {
            let p = &self.blocks[parent];
            (
                p.header.hash(),
                p.num,
                p.header.epoch(),
                p.header.compact_target(),
                p.header.timestamp(),
                self.chain_root(parent, p.num),
            )
        };
        let epoch = if parent == 0 {
            EpochNumberWithFraction::new(0, 1, 10)
        } else if pepoch.index() + 1 < pepoch.length() {
            EpochNumberWithFraction::new(pepoch.number(), pepoch.index() + 1, pepoch.length())
        } else {
            EpochNumberWithFraction::new(pepoch.number() + 1, 0, pepoch.length())
        };
        let forged_root = real_root
            .as_builder()
            .total_difficulty(claimed_parent_td.pack())
            .build();
        let ext: packed::Bytes = forged_root.calc_mmr_hash().as_bytes().pack();
        let id = self.blocks.len();
        let cellbase = TransactionBuilder::default()
            .input(CellInput::new_cellbase_input(pnum + 1))
            .output(
                CellOutput::new_builder()
                    .capacity(Capacity::bytes(1000).unwrap().pack())
                    .build(),
            )
            .output_data(Bytes::from((id as u64).to_le_bytes().to_vec()).pack())
            .build();
        let block0 = BlockBuilder::default()
            .parent_hash(phash)
            .number((pnum + 1).pack())
            .epoch(epoch.pack())
            .compact_target(compact.pack())
            .timestamp((pts + 1000).pack())
            .transaction(cellbase)
            .extension(Some(ext.clone()))
            .build();
        let block = self.seal(block0, true);
        let rid = self.register_foreign(
            parent,
            block.header(),
            block.calc_uncles_hash(),
            Some(ext),
            forged_root,
            true,
            true,
        );
        self.blocks[rid].block = block;
        rid
    }
}
