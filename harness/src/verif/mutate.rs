//! Named mutations of honest messages (the adversary's alphabet for C01 / C02 / C06).
//! Every mutation is constructed so that the message is definitely NOT a correct answer;
//! the attribute it violates is recorded by construction (never judged by a second verifier).
use super::honest::{HonestPeer, ProofPlan};
use super::world::SimChain;
use ckb_types::{bytes::Bytes, packed, prelude::*, U256};

pub struct Mutant {
    pub label: String,
    /// the verification attribute the mutation violates: match | root | pow | cont | mmr
    pub attr: &'static str,
    pub msg: packed::LightClientMessage,
}

fn wrap(content: packed::SendLastStateProof) -> packed::LightClientMessage {
    packed::LightClientMessage::new_builder().set(content).build()
}

fn with_headers(
    base: &packed::SendLastStateProof,
    headers: Vec<packed::VerifiableHeader>,
) -> packed::SendLastStateProof {
    base.clone()
        .as_builder()
        .headers(packed::VerifiableHeaderVec::new_builder().set(headers).build())
        .build()
}

fn with_proof(
    base: &packed::SendLastStateProof,
    items: Vec<packed::HeaderDigest>,
) -> packed::SendLastStateProof {
    base.clone()
        .as_builder()
        .proof(packed::HeaderDigestVec::new_builder().set(items).build())
        .build()
}

fn flip(bytes: &[u8], pos: usize) -> Vec<u8> {
    let mut v = bytes.to_vec();
    v[pos] ^= 0x01;
    v
}

/// Raw header field mutations: returns (field name, mutated header)
fn header_field_mutants(h: &packed::Header) -> Vec<(&'static str, packed::Header)> {
    let raw = h.raw();
    let mut out = Vec::new();
    let b32 = |x: &packed::Byte32| packed::Byte32::from_slice(&flip(x.as_slice(), 7)).unwrap();
    let u32m = |x: &packed::Uint32| {
        let v: u32 = x.unpack();
        (v ^ 1).pack()
    };
    let u64m = |x: &packed::Uint64| {
        let v: u64 = x.unpack();
        (v ^ 1).pack()
    };
    out.push(("version", h.clone().as_builder().raw(raw.clone().as_builder().version(u32m(&raw.version())).build()).build()));
    out.push(("compact_target", h.clone().as_builder().raw(raw.clone().as_builder().compact_target(u32m(&raw.compact_target())).build()).build()));
    out.push(("timestamp", h.clone().as_builder().raw(raw.clone().as_builder().timestamp(u64m(&raw.timestamp())).build()).build()));
    out.push(("epoch", h.clone().as_builder().raw(raw.clone().as_builder().epoch(u64m(&raw.epoch())).build()).build()));
    out.push(("parent_hash", h.clone().as_builder().raw(raw.clone().as_builder().parent_hash(b32(&raw.parent_hash())).build()).build()));
    out.push(("transactions_root", h.clone().as_builder().raw(raw.clone().as_builder().transactions_root(b32(&raw.transactions_root())).build()).build()));
    out.push(("proposals_hash", h.clone().as_builder().raw(raw.clone().as_builder().proposals_hash(b32(&raw.proposals_hash())).build()).build()));
    out.push(("extra_hash", h.clone().as_builder().raw(raw.clone().as_builder().extra_hash(b32(&raw.extra_hash())).build()).build()));
    out.push(("dao", h.clone().as_builder().raw(raw.clone().as_builder().dao(b32(&raw.dao())).build()).build()));
    let nonce: u128 = h.nonce().unpack();
    out.push(("nonce", h.clone().as_builder().nonce((nonce ^ 1).pack()).build()));
    out
}

fn digest_field_mutants(d: &packed::HeaderDigest) -> Vec<(&'static str, packed::HeaderDigest)> {
    let mut out = Vec::new();
    let td: U256 = d.total_difficulty().unpack();
    out.push(("pcr.total_difficulty+1", d.clone().as_builder().total_difficulty((&td + 1u32).pack()).build()));
    if td > U256::zero() {
        out.push(("pcr.total_difficulty-1", d.clone().as_builder().total_difficulty((&td - 1u32).pack()).build()));
    }
    let ch = packed::Byte32::from_slice(&flip(d.children_hash().as_slice(), 3)).unwrap();
    out.push(("pcr.children_hash", d.clone().as_builder().children_hash(ch).build()));
    let en: u64 = d.end_number().unpack();
    out.push(("pcr.end_number", d.clone().as_builder().end_number((en ^ 1).pack()).build()));
    let sn: u64 = d.start_number().unpack();
    out.push(("pcr.start_number", d.clone().as_builder().start_number((sn ^ 1).pack()).build()));
    let ee: u64 = d.end_epoch().unpack();
    out.push(("pcr.end_epoch", d.clone().as_builder().end_epoch((ee ^ 1).pack()).build()));
    let et: u64 = d.end_timestamp().unpack();
    out.push(("pcr.end_timestamp", d.clone().as_builder().end_timestamp((et ^ 1).pack()).build()));
    let ec: u32 = d.end_compact_target().unpack();
    out.push(("pcr.end_compact_target", d.clone().as_builder().end_compact_target((ec ^ 1).pack()).build()));
    out
}

/// All mutations of the honest answer `plan` to `req`.  `positions` limits header-level
/// mutations to these indices of the header list (None = every position).
pub fn last_state_proof_mutants(
    c: &SimChain,
    req: &packed::GetLastStateProof,
    plan: &ProofPlan,
    positions: Option<&[usize]>,
) -> Vec<Mutant> {
    let mut out: Vec<Mutant> = Vec::new();
    let honest = HonestPeer::encode_plan(c, plan);
    let headers: Vec<packed::VerifiableHeader> = honest.headers().into_iter().collect();
    let proof: Vec<packed::HeaderDigest> = honest.proof().into_iter().collect();
    let n = headers.len();
    let pos: Vec<usize> = match positions {
        Some(p) => p.iter().cloned().filter(|i| *i < n).collect(),
        None => (0..n).collect(),
    };
    let r = plan.reorg.len();
    let s = plan.samples.len();
    let section = |i: usize| if i < r { "reorg" } else if i < r + s { "sample" } else { "lastn" };
    let start_number: u64 = req.start_number().unpack();
    let last_num = c.blocks[plan.last].num;

    // ---- byte / field level on the honest message (proof unchanged) --------------------
    for &i in &pos {
        let vh = &headers[i];
        for (name, hm) in header_field_mutants(&vh.header()) {
            let mut hs = headers.clone();
            hs[i] = vh.clone().as_builder().header(hm).build();
            out.push(Mutant {
                label: format!("hdr[{}:{}].{}", i, section(i), name),
                attr: "mmr",
                msg: wrap(with_headers(&honest, hs)),
            });
        }
        // number +1: breaks ordering / shape as well
        {
            let raw = vh.header().raw();
            let num: u64 = raw.number().unpack();
            let hm = vh.header().as_builder().raw(raw.as_builder().number((num + 1).pack()).build()).build();
            let mut hs = headers.clone();
            hs[i] = vh.clone().as_builder().header(hm).build();
            out.push(Mutant { label: format!("hdr[{}:{}].number+1", i, section(i)), attr: "mmr", msg: wrap(with_headers(&honest, hs)) });
        }
        // uncles hash / extension / parent chain root: the header no longer commits to what it is sent with
        {
            let uh = packed::Byte32::from_slice(&flip(vh.uncles_hash().as_slice(), 0)).unwrap();
            let mut hs = headers.clone();
            hs[i] = vh.clone().as_builder().uncles_hash(uh).build();
            out.push(Mutant { label: format!("hdr[{}:{}].uncles_hash", i, section(i)), attr: "root", msg: wrap(with_headers(&honest, hs)) });
        }
        if let Some(ext) = vh.extension().to_opt() {
            let raw = ext.raw_data();
            if !raw.is_empty() {
                let m: packed::Bytes = Bytes::from(flip(&raw, raw.len() - 1)).pack();
                let mut hs = headers.clone();
                hs[i] = vh.clone().as_builder().extension(packed::BytesOpt::new_builder().set(Some(m)).build()).build();
                out.push(Mutant { label: format!("hdr[{}:{}].extension", i, section(i)), attr: "root", msg: wrap(with_headers(&honest, hs)) });
            }
            let mut hs = headers.clone();
            hs[i] = vh.clone().as_builder().extension(packed::BytesOpt::default()).build();
            out.push(Mutant { label: format!("hdr[{}:{}].extension=none", i, section(i)), attr: "root", msg: wrap(with_headers(&honest, hs)) });
        }
        if c.id_of(&vh.header().calc_header_hash()) != Some(0) {
            for (name, dm) in digest_field_mutants(&vh.parent_chain_root()) {
                let mut hs = headers.clone();
                hs[i] = vh.clone().as_builder().parent_chain_root(dm).build();
                out.push(Mutant { label: format!("hdr[{}:{}].{}", i, section(i), name), attr: "root", msg: wrap(with_headers(&honest, hs)) });
            }
        }
        // drop / duplicate / swap keeping the proof
        {
            let mut hs = headers.clone();
            hs.remove(i);
            if !hs.is_empty() {
                out.push(Mutant { label: format!("drop-keep-proof[{}:{}]", i, section(i)), attr: "mmr", msg: wrap(with_headers(&honest, hs)) });
            }
            let mut hs = headers.clone();
            hs.insert(i, headers[i].clone());
            out.push(Mutant { label: format!("dup[{}:{}]", i, section(i)), attr: "match", msg: wrap(with_headers(&honest, hs)) });
            if i + 1 < n {
                let mut hs = headers.clone();
                hs.swap(i, i + 1);
                out.push(Mutant { label: format!("swap[{}:{}]", i, section(i)), attr: "match", msg: wrap(with_headers(&honest, hs)) });
            }
        }
        // same-height header of another branch, proof kept
        {
            let num: u64 = vh.header().raw().number().unpack();
            let own = c.id_of(&vh.header().calc_header_hash());
            if let Some(other) = (0..c.blocks.len()).find(|b| c.blocks[*b].num == num && Some(*b) != own && c.blocks[*b].pow && c.blocks[*b].root) {
                let mut hs = headers.clone();
                hs[i] = c.verifiable(other);
                out.push(Mutant { label: format!("fork-header[{}:{}]", i, section(i)), attr: "mmr", msg: wrap(with_headers(&honest, hs)) });
            }
        }
    }
    // ---- proof items ---------------------------------------------------------------------
    for j in 0..proof.len() {
        let mut p = proof.clone();
        p.remove(j);
        out.push(Mutant { label: format!("proof.drop[{}]", j), attr: "mmr", msg: wrap(with_proof(&honest, p)) });
        let mut p = proof.clone();
        p.insert(j, proof[j].clone());
        out.push(Mutant { label: format!("proof.dup[{}]", j), attr: "mmr", msg: wrap(with_proof(&honest, p)) });
        let mut p = proof.clone();
        let ch = packed::Byte32::from_slice(&flip(proof[j].children_hash().as_slice(), 5)).unwrap();
        p[j] = proof[j].clone().as_builder().children_hash(ch).build();
        out.push(Mutant { label: format!("proof.flip[{}]", j), attr: "mmr", msg: wrap(with_proof(&honest, p)) });
        if j + 1 < proof.len() && proof[j].as_slice() != proof[j + 1].as_slice() {
            let mut p = proof.clone();
            p.swap(j, j + 1);
            out.push(Mutant { label: format!("proof.swap[{}]", j), attr: "mmr", msg: wrap(with_proof(&honest, p)) });
        }
    }
    if !headers.is_empty() {
        let mut p = proof.clone();
        p.push(c.blocks[plan.last].header.digest());
        out.push(Mutant { label: "proof.extra".into(), attr: "mmr", msg: wrap(with_proof(&honest, p)) });
    }
    // ---- message level ----------------------------------------------------------------------
    if !headers.is_empty() {
        out.push(Mutant { label: "headers.empty".into(), attr: "match", msg: wrap(with_headers(&honest, vec![])) });
    }
    // ---- cross-branch: a genuine proof of ANOTHER chain under the requested last header -----------
    // A twin of the last block (same number and total difficulty on a branch that forks at least two blocks
    // below, so that the ancestors differ) has its own chain root.  The peer answers with the twin's proof and headers, and with the requested last header carrying
    // the twin's parent chain root: the header itself, its uncles hash, its extension and the total difficulty
    // are the requested ones, only the chain root the proof is checked against is not the one the header
    // commits to.
    if let Some(par) = c.blocks[plan.last].parent {
        let twin = c.blocks.iter().find(|b| {
            b.id != plan.last && b.num == c.blocks[plan.last].num && b.parent.is_some() && b.parent != Some(par)
                && b.ttd == c.blocks[plan.last].ttd && b.td == c.blocks[plan.last].td && b.pow && b.root
                // (the client takes the answer for one to its request only if the total difficulty in the chain
                //  root beside the last header, i.e. the parent's, is the announced one; otherwise it is "an
                //  unknown proof" and ignored)
                && b.parent.map(|q| c.blocks[q].td == c.blocks[par].td && c.blocks[q].ttd == c.blocks[par].ttd).unwrap_or(false)
        });
        if let Some(tw) = twin {
            let p2 = ProofPlan { last: tw.id, reorg: plan.reorg.clone(), samples: plan.samples.clone(), last_n: plan.last_n.clone() };
            let twin_msg = HonestPeer::encode_plan(c, &p2);
            let forged_last = honest.last_header().as_builder().parent_chain_root(twin_msg.last_header().parent_chain_root()).build();
            let msg = twin_msg.as_builder().last_header(forged_last).build();
            out.push(Mutant { label: "cross-branch.chain-root".into(), attr: "root", msg: wrap(msg) });
        }
    }
    // ---- structural, RE-PROVED: a server that shows other genuine headers of the same chain ----
    let chain = c.chain_of(plan.last);
    let reprove = |plan2: &ProofPlan| wrap(HonestPeer::encode_plan(c, plan2));
    // (a) hide a sampled block
    for k in 0..plan.samples.len() {
        let mut p2 = plan.clone();
        p2.samples.remove(k);
        out.push(Mutant { label: format!("reproved.drop-sample[{}]", k), attr: "match", msg: reprove(&p2) });
    }
    // (b) show a block no requested difficulty selects / replace a sample by its neighbour
    if !plan.samples.is_empty() {
        let bb = plan.last_n.first().cloned().unwrap_or(last_num);
        let lo = start_number;
        for k in 0..plan.samples.len() {
            let sn = plan.samples[k];
            for cand in [sn.wrapping_sub(1), sn + 1] {
                if cand >= lo && cand < bb && cand < chain.len() as u64 && !plan.samples.contains(&cand) && !plan.reorg.contains(&cand) {
                    let mut p2 = plan.clone();
                    p2.samples[k] = cand;
                    p2.samples.sort();
                    out.push(Mutant { label: format!("reproved.replace-sample[{}]->{}", k, cand), attr: "match", msg: reprove(&p2) });
                    let mut p3 = plan.clone();
                    p3.samples.push(cand);
                    p3.samples.sort();
                    out.push(Mutant { label: format!("reproved.extra-sample@{}", cand), attr: "match", msg: reprove(&p3) });
                    break;
                }
            }
        }
    }
    // (c) a hole inside the last-N section
    if plan.last_n.len() >= 3 {
        for k in 1..plan.last_n.len() - 1 {
            let mut p2 = plan.clone();
            p2.last_n.remove(k);
            out.push(Mutant { label: format!("reproved.lastn-hole[{}]", k), attr: "cont", msg: reprove(&p2) });
        }
    }
    // (d) a hole inside the reorg section
    if plan.reorg.len() >= 3 {
        let mut p2 = plan.clone();
        p2.reorg.remove(1);
        out.push(Mutant { label: "reproved.reorg-hole".into(), attr: "match", msg: reprove(&p2) });
    }
    // (d') a hole inside the reorg section with the count and both ends' numbers kept: one inner header is dropped
    // and the header below the first one is shown instead, so that only the parent-hash chain notices
    if plan.reorg.len() >= 3 && plan.reorg[0] >= 1 {
        let mut p2 = plan.clone();
        p2.reorg.remove(1);
        p2.reorg.insert(0, plan.reorg[0] - 1);
        out.push(Mutant { label: "reproved.reorg-gap-same-count".into(), attr: "cont", msg: reprove(&p2) });
    }
    // (e) reorg section not ending right below the start
    if plan.reorg.len() >= 2 {
        let mut p2 = plan.clone();
        p2.reorg.pop();
        out.push(Mutant { label: "reproved.reorg-short-end".into(), attr: "match", msg: reprove(&p2) });
    }
    // (e') nothing but the reorg section: no sampled and no last-N header at all (the blocks from the start block
    // up to the last one are never shown)
    if !plan.reorg.is_empty() {
        let mut p2 = plan.clone();
        p2.samples.clear();
        p2.last_n.clear();
        out.push(Mutant { label: "reproved.reorg-only".into(), attr: "match", msg: reprove(&p2) });
    }
    // (f) no-sample mode: the section does not start at the start block / misses its first header
    if plan.samples.is_empty() && plan.last_n.len() >= 2 && plan.last_n[0] == start_number {
        let mut p2 = plan.clone();
        p2.last_n.remove(0);
        out.push(Mutant { label: "reproved.lastn-late-start".into(), attr: "match", msg: reprove(&p2) });
    }
    out
}

// ---------------------------------------------------------------------------------------------
// BlockFilters / SendBlocksProof / SendTransactionsProof / SendBlock mutations (C06, C02)
// ---------------------------------------------------------------------------------------------

/// (label, start, fs, hs, message): fs[i] = block id (1-based) whose filter data is at position i
/// (0 = tampered bytes), hs[i] = block id whose hash is sent at position i (-1 = not a block of the world)
pub struct FilterMutant {
    pub label: String,
    pub start: u64,
    pub fs: Vec<i64>,
    pub hs: Vec<i64>,
    pub msg: packed::BlockFilterMessage,
}

pub fn block_filters_mutants(c: &SimChain, tip: usize, start: u64, n: usize, rng: &mut rand::rngs::StdRng) -> Vec<FilterMutant> {
    use rand::Rng;
    let chain = c.chain_of(tip);
    let tipn = c.blocks[tip].num;
    if start > tipn || n == 0 {
        return vec![];
    }
    let end = std::cmp::min(tipn, start + n as u64 - 1);
    let ids: Vec<usize> = (start..=end).map(|h| chain[h as usize]).collect();
    let build = |start: u64, fs: &[Option<usize>], hs: &[Option<usize>], tamper: Option<usize>| -> packed::BlockFilterMessage {
        let filters: Vec<packed::Bytes> = fs
            .iter()
            .enumerate()
            .map(|(i, f)| {
                let mut raw = f.map(|b| c.blocks[b].filter.raw_data().to_vec()).unwrap_or_else(|| vec![1, 2, 3]);
                if tamper == Some(i) {
                    if raw.is_empty() { raw.push(7) } else { let k = raw.len() - 1; raw[k] ^= 0x55 }
                }
                Bytes::from(raw).pack()
            })
            .collect();
        let hashes: Vec<packed::Byte32> = hs
            .iter()
            .map(|h| match h {
                Some(b) => c.blocks[*b].header.hash(),
                None => [0xEEu8; 32].pack(),
            })
            .collect();
        let content = packed::BlockFilters::new_builder()
            .start_number(start.pack())
            .block_hashes(hashes.pack())
            .filters(packed::BytesVec::new_builder().set(filters).build())
            .build();
        packed::BlockFilterMessage::new_builder().set(content).build()
    };
    let some = |v: &[usize]| v.iter().map(|x| Some(*x)).collect::<Vec<_>>();
    let j = |v: &[Option<usize>]| v.iter().map(|x| x.map(|b| b as i64 + 1).unwrap_or(-1)).collect::<Vec<i64>>();
    let mut out = Vec::new();
    let k = ids.len();
    // tampered filter bytes at a position
    let i = rng.gen_range(0..k);
    {
        let fs = some(&ids);
        let mut fj = j(&fs);
        fj[i] = 0;
        out.push(FilterMutant { label: format!("tamper[{}]", i), start, fs: fj, hs: j(&some(&ids)), msg: build(start, &fs, &some(&ids), Some(i)) });
    }
    // the genuine batch followed by more filters (bytes no filter decoder accepts) and block hashes than the
    // client can have filter hashes for: whatever lies beyond the verified prefix must not even be decoded
    {
        let m = rng.gen_range(1..=30usize);
        let mut fs = some(&ids);
        let mut hs = some(&ids);
        fs.extend(std::iter::repeat(None).take(m));
        hs.extend(std::iter::repeat(None).take(m));
        let mut fj = j(&fs);
        for x in fj.iter_mut().skip(k) {
            *x = 0;
        }
        out.push(FilterMutant { label: format!("excess-garbage+{}", m), start, fs: fj, hs: j(&hs), msg: build(start, &fs, &hs, None) });
    }
    // two filters swapped (hashes kept)
    if k >= 2 {
        let mut f2 = ids.clone();
        f2.swap(0, 1);
        out.push(FilterMutant { label: "swap-filters".into(), start, fs: j(&some(&f2)), hs: j(&some(&ids)), msg: build(start, &some(&f2), &some(&ids), None) });
    }
    // shifted start number
    for d in [-1i64, 1] {
        let s2 = start as i64 + d;
        if s2 >= 0 {
            out.push(FilterMutant { label: format!("start{:+}", d), start: s2 as u64, fs: j(&some(&ids)), hs: j(&some(&ids)), msg: build(s2 as u64, &some(&ids), &some(&ids), None) });
        }
    }
    // a hash dropped / duplicated: counts differ
    {
        let mut h2 = ids.clone();
        h2.pop();
        out.push(FilterMutant { label: "drop-hash".into(), start, fs: j(&some(&ids)), hs: j(&some(&h2)), msg: build(start, &some(&ids), &some(&h2), None) });
        let mut h3 = ids.clone();
        h3.push(ids[0]);
        out.push(FilterMutant { label: "dup-hash".into(), start, fs: j(&some(&ids)), hs: j(&some(&h3)), msg: build(start, &some(&ids), &some(&h3), None) });
    }
    // block hash substituted while the filter is kept: another canonical block / a block of another branch / garbage
    {
        let other_canon = chain.iter().cloned().find(|b| !ids.contains(b) && *b != 0);
        let fork_block = (0..c.blocks.len()).find(|b| !c.is_ancestor(*b, tip));
        for (name, sub) in [("canon", other_canon), ("fork", fork_block), ("random", None)] {
            if name != "random" && sub.is_none() {
                continue;
            }
            let mut hs = some(&ids);
            hs[i] = sub;
            out.push(FilterMutant { label: format!("subst-hash[{}]={}", i, name), start, fs: j(&some(&ids)), hs: j(&hs), msg: build(start, &some(&ids), &hs, None) });
        }
    }
    out
}

/// A block with the right header and a body that the header does not commit to.
pub fn forged_body(c: &SimChain, block: usize, variant: usize) -> packed::Block {
    let b = &c.blocks[block].block;
    let mut txs: Vec<packed::Transaction> = b.transactions().iter().map(|t| t.data()).collect();
    match variant % 3 {
        0 if txs.len() > 1 => {
            // replace a transaction: same shape, other capacity in the first output
            let t = &txs[1];
            let raw = t.raw();
            let mut outs: Vec<packed::CellOutput> = raw.outputs().into_iter().collect();
            if !outs.is_empty() {
                outs[0] = outs[0].clone().as_builder().capacity(12345u64.pack()).build();
            }
            let raw2 = raw.as_builder().outputs(outs.pack()).build();
            txs[1] = t.clone().as_builder().raw(raw2).build();
        }
        1 if txs.len() > 1 => {
            txs.remove(1);
        }
        _ => {
            // add a transaction paying to the first world script
            let extra = ckb_types::core::TransactionBuilder::default()
                .output(
                    packed::CellOutput::new_builder()
                        .capacity(777u64.pack())
                        .lock(c.scripts[0].clone())
                        .build(),
                )
                .output_data(Bytes::new().pack())
                .build();
            txs.push(extra.data());
        }
    }
    b.data().as_builder().transactions(txs.pack()).build()
}

/// Mutations of a SendBlocksProof / SendTransactionsProof message that make it definitely incorrect
/// (the MMR proof is never regenerated).
pub fn proof_message_mutants(msg: &packed::LightClientMessage) -> Vec<(String, packed::LightClientMessage)> {
    let mut out = Vec::new();
    match msg.to_enum() {
        packed::LightClientMessageUnion::SendBlocksProof(m) => {
            let wrap = |m2: packed::SendBlocksProof| packed::LightClientMessage::new_builder().set(m2).build();
            let headers: Vec<packed::Header> = m.headers().into_iter().collect();
            let proof: Vec<packed::HeaderDigest> = m.proof().into_iter().collect();
            if !headers.is_empty() {
                // a header altered (hash changes: no longer the requested block)
                let h = &headers[0];
                let raw = h.raw();
                let ts: u64 = raw.timestamp().unpack();
                let mut hs = headers.clone();
                hs[0] = h.clone().as_builder().raw(raw.as_builder().timestamp((ts + 1).pack()).build()).build();
                out.push(("bp.header-altered".to_string(), wrap(m.clone().as_builder().headers(hs.pack()).build())));
                // a header dropped
                let mut hs = headers.clone();
                hs.remove(0);
                out.push(("bp.header-dropped".to_string(), wrap(m.clone().as_builder().headers(hs.pack()).build())));
                // a header duplicated
                let mut hs = headers.clone();
                hs.push(headers[0].clone());
                out.push(("bp.header-dup".to_string(), wrap(m.clone().as_builder().headers(hs.pack()).build())));
                // found header also reported missing
                let mut miss: Vec<packed::Byte32> = m.missing_block_hashes().into_iter().collect();
                miss.push(headers[0].calc_header_hash());
                out.push(("bp.found-and-missing".to_string(), wrap(m.clone().as_builder().missing_block_hashes(miss.pack()).build())));
            }
            if !proof.is_empty() {
                let mut p = proof.clone();
                p.remove(0);
                out.push(("bp.proof-drop".to_string(), wrap(m.clone().as_builder().proof(packed::HeaderDigestVec::new_builder().set(p).build()).build())));
            } else if !headers.is_empty() {
                let p = vec![packed::HeaderDigest::default()];
                out.push(("bp.proof-extra".to_string(), wrap(m.clone().as_builder().proof(packed::HeaderDigestVec::new_builder().set(p).build()).build())));
            }
            // v1 extra fields
            if m.count_extra_fields() >= 2 && !headers.is_empty() {
                let v1 = packed::SendBlocksProofV1::new_unchecked(m.as_bytes());
                let mut uh: Vec<packed::Byte32> = v1.blocks_uncles_hash().into_iter().collect();
                uh[0] = [9u8; 32].pack();
                let v1b = v1.clone().as_builder().blocks_uncles_hash(uh.pack()).build();
                out.push(("bp.v1-uncles-altered".to_string(), wrap(packed::SendBlocksProof::new_unchecked(v1b.as_bytes()))));
                let mut ex: Vec<packed::BytesOpt> = v1.blocks_extension().into_iter().collect();
                ex.pop();
                let v1c = v1.as_builder().blocks_extension(packed::BytesOptVec::new_builder().set(ex).build()).build();
                out.push(("bp.v1-extension-short".to_string(), wrap(packed::SendBlocksProof::new_unchecked(v1c.as_bytes()))));
            }
        }
        packed::LightClientMessageUnion::SendTransactionsProof(m) => {
            let wrap = |m2: packed::SendTransactionsProof| packed::LightClientMessage::new_builder().set(m2).build();
            let fbs: Vec<packed::FilteredBlock> = m.filtered_blocks().into_iter().collect();
            let set_fbs = |fbs: Vec<packed::FilteredBlock>| m.clone().as_builder().filtered_blocks(packed::FilteredBlockVec::new_builder().set(fbs).build()).build();
            if let Some(fb) = fbs.first() {
                // witnesses root altered
                let mut f2 = fbs.clone();
                f2[0] = fb.clone().as_builder().witnesses_root([3u8; 32].pack()).build();
                out.push(("tp.witnesses-root".to_string(), wrap(set_fbs(f2))));
                // a merkle lemma / index altered
                let proof = fb.proof();
                let mut idx: Vec<u32> = proof.indices().into_iter().map(|x| x.unpack()).collect();
                if !idx.is_empty() {
                    idx[0] += 1;
                    let mut f2 = fbs.clone();
                    f2[0] = fb.clone().as_builder().proof(proof.clone().as_builder().indices(idx.pack()).build()).build();
                    out.push(("tp.merkle-index".to_string(), wrap(set_fbs(f2))));
                }
                let mut lem: Vec<packed::Byte32> = proof.lemmas().into_iter().collect();
                if !lem.is_empty() {
                    lem[0] = [4u8; 32].pack();
                    let mut f2 = fbs.clone();
                    f2[0] = fb.clone().as_builder().proof(proof.clone().as_builder().lemmas(lem.pack()).build()).build();
                    out.push(("tp.merkle-lemma".to_string(), wrap(set_fbs(f2))));
                }
                // the transaction replaced by another one (keeps the Merkle proof)
                let txs: Vec<packed::Transaction> = fb.transactions().into_iter().collect();
                if let Some(t) = txs.first() {
                    let raw = t.raw();
                    let v: u32 = raw.version().unpack();
                    let t2 = t.clone().as_builder().raw(raw.as_builder().version((v + 1).pack()).build()).build();
                    let mut tx2 = txs.clone();
                    tx2[0] = t2;
                    let mut f2 = fbs.clone();
                    f2[0] = fb.clone().as_builder().transactions(tx2.pack()).build();
                    out.push(("tp.tx-replaced".to_string(), wrap(set_fbs(f2))));
                }
                // header altered
                let h = fb.header();
                let raw = h.raw();
                let ts: u64 = raw.timestamp().unpack();
                let mut f2 = fbs.clone();
                f2[0] = fb.clone().as_builder().header(h.clone().as_builder().raw(raw.as_builder().timestamp((ts + 1).pack()).build()).build()).build();
                out.push(("tp.header-altered".to_string(), wrap(set_fbs(f2))));
                // mmr proof altered
                let proof: Vec<packed::HeaderDigest> = m.proof().into_iter().collect();
                if !proof.is_empty() {
                    let mut p = proof.clone();
                    p.remove(0);
                    out.push(("tp.proof-drop".to_string(), wrap(m.clone().as_builder().proof(packed::HeaderDigestVec::new_builder().set(p).build()).build())));
                }
            }
        }
        _ => {}
    }
    out
}
