//! Environment actions shared by the drivers: simulated peers delivering events to the client.
use super::client::Proto;
use super::honest::{HonestPeer, ProofPlan};
use super::project::{hid, pname};
use super::sim::{self, Sim};
use ckb_network::PeerIndex;
use ckb_types::{packed, prelude::*};
use serde_json::{json, Value};

#[derive(Clone, Debug)]
pub struct EnvPeer {
    pub idx: PeerIndex,
    pub connected: bool,
    /// the leaf this peer's chain grows towards
    pub leaf: usize,
    pub server: HonestPeer,
}

pub struct Env {
    pub peers: Vec<EnvPeer>,
}

pub fn true_attrs() -> Value {
    json!({"match": "ok", "root": "world", "pow": "world", "cont": "ok", "mmr": "ok", "tau": "world", "td": "ok"})
}

impl Env {
    pub fn new(sim: &Sim, tips: &[(usize, usize)]) -> Env {
        // (initial tip, leaf) per peer
        let peers = tips
            .iter()
            .enumerate()
            .map(|(i, (tip, leaf))| EnvPeer {
                idx: sim.names[i],
                connected: false,
                leaf: *leaf,
                server: HonestPeer::new(*tip),
            })
            .collect();
        Env { peers }
    }

    pub fn connect(&mut self, sim: &mut Sim, i: usize) {
        let p = self.peers[i].idx;
        sim.drop_requests_to(p);
        self.peers[i].connected = true;
        sim.step("Connect", json!({"p": pname(p)}), |c| c.connect(p));
    }

    pub fn disconnect(&mut self, sim: &mut Sim, i: usize) {
        let p = self.peers[i].idx;
        sim.drop_requests_to(p);
        self.peers[i].connected = false;
        sim.step("Disconnect", json!({"p": pname(p)}), |c| c.disconnect(p));
    }

    /// The network layer disconnects a peer the client has just banned.
    pub fn enforce_bans(&mut self, sim: &mut Sim) {
        let banned = sim.last_bans.clone();
        for i in 0..self.peers.len() {
            if banned.contains(&self.peers[i].idx) && self.peers[i].connected {
                self.disconnect(sim, i);
            }
        }
    }

    pub fn refresh(&mut self, sim: &mut Sim) {
        sim.step("Refresh", json!({}), |c| c.notify(Proto::Lc, 0));
    }

    /// The peer's chain grows by up to `k` blocks towards its leaf. Returns whether it grew.
    pub fn grow(&mut self, sim: &Sim, i: usize, k: u64) -> bool {
        let ep = &mut self.peers[i];
        let cur = sim.chain.blocks[ep.server.tip].num;
        let leaf_num = sim.chain.blocks[ep.leaf].num;
        if cur >= leaf_num {
            return false;
        }
        let target = std::cmp::min(leaf_num, cur + k);
        ep.server.tip = sim.chain.ancestor_at(ep.leaf, target).unwrap();
        true
    }

    /// Honest `SendLastState` with the peer's current tip.
    pub fn send_last_state(&mut self, sim: &mut Sim, i: usize) {
        let ep = &self.peers[i];
        let p = ep.idx;
        let tip = ep.server.tip;
        let msg = ep.server.send_last_state(&sim.chain);
        // answering a GetLastState consumes one outstanding request, if any
        let _ = sim.take_request(p, sim::as_get_last_state);
        let b = &sim.chain.blocks[tip];
        let args = json!({"p": pname(p), "b": tip + 1, "ok": b.pow && b.root});
        sim.step("LastState", args, |c| c.deliver(Proto::Lc, p, msg.as_bytes()));
    }

    /// Delivers a SendLastState for an arbitrary registered block (adversarial announcements).
    pub fn send_last_state_of(&mut self, sim: &mut Sim, i: usize, block: usize) {
        let p = self.peers[i].idx;
        let content = packed::SendLastState::new_builder()
            .last_header(sim.chain.verifiable(block))
            .build();
        let msg = packed::LightClientMessage::new_builder().set(content).build();
        let b = &sim.chain.blocks[block];
        let args = json!({"p": pname(p), "b": block + 1, "ok": b.pow && b.root});
        sim.step("LastState", args, |c| c.deliver(Proto::Lc, p, msg.as_bytes()));
    }

    pub fn plan_args(sim: &Sim, p: PeerIndex, plan: &ProofPlan, kind: &str, attrs: Value) -> Value {
        let last = &sim.chain.blocks[plan.last];
        json!({
            "p": pname(p), "kind": kind,
            "last": plan.last + 1, "lastOk": last.pow && last.root, "empty": false,
            "reorg": plan.reorg, "samples": plan.samples, "lastn": plan.last_n,
            "chain": plan.last + 1,
            "attrs": attrs,
        })
    }

    /// Answers the oldest outstanding GetLastStateProof of peer i honestly.
    /// Returns false if there is no outstanding request.
    pub fn answer_proof(&mut self, sim: &mut Sim, i: usize) -> bool {
        let p = self.peers[i].idx;
        let req = match sim.take_request(p, sim::as_get_last_state_proof) {
            Some(r) => r,
            None => return false,
        };
        let server = self.peers[i].server.clone();
        match server.plan_last_state_proof(&sim.chain, &req) {
            Ok(Some(plan)) => {
                let msg = packed::LightClientMessage::new_builder()
                    .set(HonestPeer::encode_plan(&sim.chain, &plan))
                    .build();
                let args = Self::plan_args(sim, p, &plan, "honest", true_attrs());
                sim.step("Proof", args, |c| c.deliver(Proto::Lc, p, msg.as_bytes()));
            }
            Ok(None) => {
                // the requested last block is not on the peer's chain: tip state, empty proof
                let msg = server.tip_state_proof(&sim.chain);
                let tip = server.tip;
                let b = &sim.chain.blocks[tip];
                let args = json!({
                    "p": pname(p), "kind": "tipstate",
                    "last": tip + 1, "lastOk": b.pow && b.root, "empty": true,
                    "reorg": [], "samples": [], "lastn": [], "chain": tip + 1,
                    "attrs": true_attrs(),
                });
                sim.step("Proof", args, |c| c.deliver(Proto::Lc, p, msg.as_bytes()));
            }
            Err(e) => {
                // An honest server rejects the request: the CLIENT built a malformed request.
                sim.emit(json!({"ev": "BadRequest", "a": {"p": pname(p), "why": e,
                    "last": hid(&sim.chain, &req.last_hash())}, "st": sim.state(),
                    "out": {"ban": [], "drop": [], "sent": []}}));
            }
        }
        true
    }

    pub fn restart(&mut self, sim: &mut Sim) {
        for ep in self.peers.iter_mut() {
            ep.connected = false;
        }
        sim.inbox.clear();
        let c = sim.client.take().unwrap();
        let c2 = c.restart();
        sim.client = Some(c2);
        sim.step("Restart", json!({}), |_| Ok(()));
    }
}
