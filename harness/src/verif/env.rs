//! Environment actions shared by the drivers: simulated peers delivering events to the client.
use super::client::Proto;
use super::honest::{HonestPeer, ProofPlan};
use super::project::{hid, pname};
use super::sim::{self, Sim};
use ckb_network::PeerIndex;
use ckb_types::{packed, prelude::*};
use serde_json::{json, Value};

#[derive(Clone, Debug)]
pub struct EnvPeer {
    pub idx: PeerIndex,
    pub connected: bool,
    /// the leaf this peer's chain grows towards
    pub leaf: usize,
    pub server: HonestPeer,
}

pub struct Env {
    pub peers: Vec<EnvPeer>,
    /// the last honest BlockFilterHashes answer per peer: (start, parent, hashes), for late / shorter repetitions
    pub last_hashes: Vec<Option<(u64, packed::Byte32, Vec<packed::Byte32>)>>,
    /// blocks below each leaf that `grow` keeps back (for a final phase in which every peer announces
    /// blocks the client cannot know yet, so that it has to ask for proofs)
    pub reserve: u64,
    /// peers disconnected because the client banned them
    pub bans: u64,
}

pub fn true_attrs() -> Value {
    json!({"match": "ok", "root": "world", "pow": "world", "cont": "ok", "mmr": "ok", "tau": "world", "td": "world"})
}

impl Env {
    pub fn new(sim: &Sim, tips: &[(usize, usize)]) -> Env {
        // (initial tip, leaf) per peer
        let peers = tips
            .iter()
            .enumerate()
            .map(|(i, (tip, leaf))| EnvPeer {
                idx: sim.names[i],
                connected: false,
                leaf: *leaf,
                server: HonestPeer::new(*tip),
            })
            .collect();
        let n = tips.len();
        Env { peers, last_hashes: vec![None; n], reserve: 0, bans: 0 }
    }

    pub fn connect(&mut self, sim: &mut Sim, i: usize) {
        let p = self.peers[i].idx;
        sim.drop_requests_to(p);
        self.peers[i].connected = true;
        sim.step("Connect", json!({"p": pname(p)}), |c| c.connect(p));
    }

    pub fn disconnect(&mut self, sim: &mut Sim, i: usize) {
        let p = self.peers[i].idx;
        sim.drop_requests_to(p);
        self.peers[i].connected = false;
        sim.step("Disconnect", json!({"p": pname(p)}), |c| c.disconnect(p));
    }

    /// The network layer disconnects a peer the client has just banned.
    pub fn enforce_bans(&mut self, sim: &mut Sim) {
        let banned = sim.last_bans.clone();
        for i in 0..self.peers.len() {
            if banned.contains(&self.peers[i].idx) && self.peers[i].connected {
                self.bans += 1;
                self.disconnect(sim, i);
            }
        }
    }

    /// Keeps the last `r` blocks of every leaf back (and pulls tips that are already beyond back; call before
    /// the first event).
    pub fn set_reserve(&mut self, sim: &Sim, r: u64) {
        self.reserve = r;
        for ep in self.peers.iter_mut() {
            let cap = sim.chain.blocks[ep.leaf].num.saturating_sub(r).max(1);
            if sim.chain.blocks[ep.server.tip].num > cap {
                if let Some(a) = sim.chain.ancestor_at(ep.server.tip, cap) {
                    ep.server.tip = a;
                }
            }
        }
    }

    pub fn refresh(&mut self, sim: &mut Sim) {
        sim.step("Refresh", json!({}), |c| c.notify(Proto::Lc, 0));
    }

    /// The peer's chain grows by up to `k` blocks towards its leaf. Returns whether it grew.
    pub fn grow(&mut self, sim: &Sim, i: usize, k: u64) -> bool {
        let reserve = self.reserve;
        let ep = &mut self.peers[i];
        let cur = sim.chain.blocks[ep.server.tip].num;
        let leaf_num = sim.chain.blocks[ep.leaf].num.saturating_sub(reserve);
        if cur >= leaf_num {
            return false;
        }
        let target = std::cmp::min(leaf_num, cur.saturating_add(k));
        ep.server.tip = sim.chain.ancestor_at(ep.leaf, target).unwrap();
        true
    }

    /// Honest `SendLastState` with the peer's current tip.
    pub fn send_last_state(&mut self, sim: &mut Sim, i: usize) {
        let ep = &self.peers[i];
        let p = ep.idx;
        let tip = ep.server.tip;
        let msg = ep.server.send_last_state(&sim.chain);
        // answering a GetLastState consumes one outstanding request, if any
        let _ = sim.take_request(p, sim::as_get_last_state);
        let b = &sim.chain.blocks[tip];
        let args = json!({"p": pname(p), "b": tip + 1, "ok": b.pow && b.root});
        sim.step("LastState", args, |c| c.deliver(Proto::Lc, p, msg.as_bytes()));
    }

    /// Delivers a SendLastState for an arbitrary registered block (adversarial announcements).
    pub fn send_last_state_of(&mut self, sim: &mut Sim, i: usize, block: usize) {
        let p = self.peers[i].idx;
        let content = packed::SendLastState::new_builder()
            .last_header(sim.chain.verifiable(block))
            .build();
        let msg = packed::LightClientMessage::new_builder().set(content).build();
        let b = &sim.chain.blocks[block];
        let args = json!({"p": pname(p), "b": block + 1, "ok": b.pow && b.root});
        sim.step("LastState", args, |c| c.deliver(Proto::Lc, p, msg.as_bytes()));
    }

    pub fn plan_args(sim: &Sim, p: PeerIndex, plan: &ProofPlan, kind: &str, attrs: Value) -> Value {
        let last = &sim.chain.blocks[plan.last];
        json!({
            "p": pname(p), "kind": kind,
            "last": plan.last + 1, "lastOk": last.pow && last.root, "empty": false,
            "reorg": plan.reorg, "samples": plan.samples, "lastn": plan.last_n,
            "chain": plan.last + 1,
            "attrs": attrs,
        })
    }

    /// Answers the oldest outstanding GetLastStateProof of peer i honestly.
    /// Returns false if there is no outstanding request.
    pub fn answer_proof(&mut self, sim: &mut Sim, i: usize) -> bool {
        let p = self.peers[i].idx;
        let req = match sim.take_request(p, sim::as_get_last_state_proof) {
            Some(r) => r,
            None => return false,
        };
        let server = self.peers[i].server.clone();
        match server.plan_last_state_proof(&sim.chain, &req) {
            Ok(Some(plan)) => {
                let msg = packed::LightClientMessage::new_builder()
                    .set(HonestPeer::encode_plan(&sim.chain, &plan))
                    .build();
                let args = Self::plan_args(sim, p, &plan, "honest", true_attrs());
                sim.step("Proof", args, |c| c.deliver(Proto::Lc, p, msg.as_bytes()));
            }
            Ok(None) => {
                // the requested last block is not on the peer's chain: tip state, empty proof
                let msg = server.tip_state_proof(&sim.chain);
                let tip = server.tip;
                let b = &sim.chain.blocks[tip];
                let args = json!({
                    "p": pname(p), "kind": "tipstate",
                    "last": tip + 1, "lastOk": b.pow && b.root, "empty": true,
                    "reorg": [], "samples": [], "lastn": [], "chain": tip + 1,
                    "attrs": true_attrs(),
                });
                sim.step("Proof", args, |c| c.deliver(Proto::Lc, p, msg.as_bytes()));
            }
            Err(e) if e.starts_with("unanswerable") => {
                // a well-formed request this server cannot answer: no message reaches the client, the request stays
                // outstanding until its time-out
                sim.emit(json!({"ev": "NoAnswer", "a": {"p": pname(p), "kind": "proof", "why": e}, "st": sim.state(),
                    "out": {"ban": [], "drop": [], "sent": []}}));
            }
            Err(e) => {
                // An honest server rejects the request: the CLIENT built a malformed request.
                sim.emit(json!({"ev": "BadRequest", "a": {"p": pname(p), "why": e,
                    "last": hid(&sim.chain, &req.last_hash())}, "st": sim.state(),
                    "out": {"ban": [], "drop": [], "sent": []}}));
            }
        }
        true
    }

    /// After a crash + restart every session is gone.
    pub fn after_crash(&mut self) {
        for ep in self.peers.iter_mut() {
            ep.connected = false;
        }
    }

    pub fn restart(&mut self, sim: &mut Sim) {
        for ep in self.peers.iter_mut() {
            ep.connected = false;
        }
        sim.inbox.clear();
        let c = sim.client.take().unwrap();
        let c2 = c.restart();
        sim.client = Some(c2);
        sim.step("Restart", json!({}), |_| Ok(()));
    }
}

// ---------------------------------------------------------------------------------------------
// Filter pipeline: ticks, honest answers of the filter / blocks-proof / sync protocols, set_scripts
// ---------------------------------------------------------------------------------------------
use crate::service::{BlockFilterRpc, ScriptStatus as RpcScriptStatus, ScriptType as RpcScriptType, SetScriptsCommand};

impl Env {
    /// token: 0 filters, 1 filter hashes, 2 check points.  `elapsed`: the 15 s re-ask window has passed.
    pub fn filter_tick(&mut self, sim: &mut Sim, token: u64, elapsed: bool) {
        // `elapsed` as the handler will see it: no request yet (None) counts as elapsed; otherwise the time stamp is
        // refreshed so that a slow machine cannot turn "not elapsed" into "elapsed" behind the trace's back
        let elapsed = {
            let mut t = sim.client_mut().filter.last_ask_time.write().unwrap();
            if elapsed || t.is_none() {
                *t = None;
                true
            } else {
                *t = Some(std::time::Instant::now());
                false
            }
        };
        sim.step("FilterTick", json!({"token": token, "elapsed": elapsed}), |c| c.notify(Proto::Filter, token));
    }

    pub fn idle_tick(&mut self, sim: &mut Sim) {
        sim.step("IdleTick", json!({}), |c| c.notify(Proto::Lc, 2));
    }

    pub fn fetch_tick(&mut self, sim: &mut Sim) {
        sim.step("FetchTick", json!({}), |c| c.notify(Proto::Lc, 1));
    }

    /// Answers the oldest outstanding filter-protocol request of peer i honestly.
    pub fn answer_filter(&mut self, sim: &mut Sim, i: usize, interval: u64) -> bool {
        let p = self.peers[i].idx;
        let (kind, start) = match sim.take_request(p, |s| sim::filter_request(s)) {
            Some(x) => x,
            None => return false,
        };
        let server = self.peers[i].server.clone();
        let msg = match kind {
            "filters" => server.block_filters(&sim.chain, start),
            "hashes" => server.block_filter_hashes(&sim.chain, start),
            _ => server.block_filter_check_points(&sim.chain, start, interval),
        };
        let tipn = sim.chain.blocks[server.tip].num;
        match msg {
            Some(m) => {
                let ev = match kind {
                    "filters" => "Filters",
                    "hashes" => "FilterHashes",
                    _ => "CheckPoints",
                };
                let n = match kind {
                    "filters" => std::cmp::min(tipn + 1 - start, server.filters_batch as u64),
                    "hashes" => std::cmp::min(tipn + 1 - start, server.hashes_batch as u64),
                    _ => 0,
                };
                let mut args = json!({"p": pname(p), "start": start, "n": n, "tip": server.tip + 1, "kind": "honest"});
                if kind == "hashes" {
                    let maps = crate::verif::project::Maps::new(&sim.chain);
                    if let packed::BlockFilterMessageUnion::BlockFilterHashes(c) = m.to_enum() {
                        args["parent"] = json!(maps.fid(&c.parent_block_filter_hash()));
                        args["hs"] = json!(c.block_filter_hashes().into_iter().map(|h| maps.fid(&h)).collect::<Vec<_>>());
                        self.last_hashes[i] = Some((start, c.parent_block_filter_hash(), c.block_filter_hashes().into_iter().collect()));
                    }
                }
                if kind == "cps" {
                    let maps = crate::verif::project::Maps::new(&sim.chain);
                    if let packed::BlockFilterMessageUnion::BlockFilterCheckPoints(c) = m.to_enum() {
                        args["vals"] = json!(c.block_filter_hashes().into_iter().map(|h| maps.fid(&h)).collect::<Vec<_>>());
                    }
                }
                if kind == "filters" {
                    let chain = sim.chain.chain_of(server.tip);
                    let ids: Vec<usize> = (start..start + n).map(|h| chain[h as usize] + 1).collect();
                    args["fs"] = json!(ids);
                    args["hs"] = json!(ids);
                }
                sim.step(ev, args, |c| c.deliver(Proto::Filter, p, m.as_bytes()));
            }
            None => {
                sim.emit(json!({"ev": "NoAnswer", "a": {"p": pname(p), "kind": kind, "start": start},
                    "st": sim.state(), "out": {"ban": [], "drop": [], "sent": []}}));
            }
        }
        true
    }

    pub fn answer_blocks_proof(&mut self, sim: &mut Sim, i: usize) -> bool {
        let p = self.peers[i].idx;
        let req = match sim.take_request(p, sim::as_get_blocks_proof) {
            Some(r) => r,
            None => return false,
        };
        let server = self.peers[i].server.clone();
        let msg = server.blocks_proof(&sim.chain, &req);
        let hs: Vec<i64> = req.block_hashes().into_iter().map(|h| hid(&sim.chain, &h)).collect();
        let on_chain = server.on_chain(&sim.chain, &req.last_hash()).is_some();
        let args = json!({"p": pname(p), "last": hid(&sim.chain, &req.last_hash()), "hs": hs, "tip": server.tip + 1,
            "onChain": on_chain, "kind": "honest"});
        sim.step("BlocksProof", args, |c| c.deliver(Proto::Lc, p, msg.as_bytes()));
        true
    }

    pub fn answer_txs_proof(&mut self, sim: &mut Sim, i: usize) -> bool {
        let p = self.peers[i].idx;
        let req = match sim.take_request(p, sim::as_get_txs_proof) {
            Some(r) => r,
            None => return false,
        };
        let server = self.peers[i].server.clone();
        let msg = server.txs_proof(&sim.chain, &req);
        let hs: Vec<i64> = req
            .tx_hashes()
            .into_iter()
            .map(|h| sim.chain.tx_id_of(&h).map(|t| t as i64 + 1).unwrap_or(-1))
            .collect();
        let on_chain = server.on_chain(&sim.chain, &req.last_hash()).is_some();
        let args = json!({"p": pname(p), "last": hid(&sim.chain, &req.last_hash()), "hs": hs, "tip": server.tip + 1,
            "onChain": on_chain, "kind": "honest"});
        sim.step("TxsProof", args, |c| c.deliver(Proto::Lc, p, msg.as_bytes()));
        true
    }

    /// Answers one outstanding GetBlocks: delivers the blocks one by one (in the given order).
    pub fn answer_blocks(&mut self, sim: &mut Sim, i: usize, reverse: bool) -> bool {
        let p = self.peers[i].idx;
        let req = match sim.take_request(p, sim::as_get_blocks) {
            Some(r) => r,
            None => return false,
        };
        let server = self.peers[i].server.clone();
        let mut msgs = server.blocks(&sim.chain, &req);
        if reverse {
            msgs.reverse();
        }
        for m in msgs {
            let b = match m.to_enum() {
                ckb_types::packed::SyncMessageUnion::SendBlock(sb) => hid(&sim.chain, &sb.block().header().calc_header_hash()),
                _ => -1,
            };
            let args = json!({"p": pname(p), "b": b, "body": "true"});
            sim.step("Block", args, |c| c.deliver(Proto::Sync, p, m.as_bytes()));
        }
        true
    }

    pub fn deliver_block(&mut self, sim: &mut Sim, i: usize, m: ckb_types::packed::SyncMessage, body: &str) {
        let p = self.peers[i].idx;
        let b = match m.to_enum() {
            ckb_types::packed::SyncMessageUnion::SendBlock(sb) => hid(&sim.chain, &sb.block().header().calc_header_hash()),
            _ => -1,
        };
        let args = json!({"p": pname(p), "b": b, "body": body});
        sim.step("Block", args, |c| c.deliver(Proto::Sync, p, m.as_bytes()));
    }

    /// cmd: "all" | "partial" | "delete"; list of (script id 0-based, is_type, block_number)
    pub fn set_scripts(&mut self, sim: &mut Sim, cmd: &str, list: &[(usize, bool, u64)]) {
        let scripts: Vec<RpcScriptStatus> = list
            .iter()
            .map(|(sid, is_type, n)| RpcScriptStatus {
                script: sim.chain.scripts[*sid].clone().into(),
                script_type: if *is_type { RpcScriptType::Type } else { RpcScriptType::Lock },
                block_number: (*n).into(),
            })
            .collect();
        let command = match cmd {
            "all" => Some(SetScriptsCommand::All),
            "partial" => Some(SetScriptsCommand::Partial),
            "delete" => Some(SetScriptsCommand::Delete),
            _ => None,
        };
        let largs: Vec<Value> = list
            .iter()
            .map(|(sid, is_type, n)| json!([2 * (*sid as i64 + 1) + if *is_type { 1 } else { 0 }, n]))
            .collect();
        let args = json!({"cmd": cmd, "list": largs});
        sim.step("SetScripts", args, |c| {
            let rpc = c.rpc_filter();
            crate::verif::client::guard(|| {
                rpc.set_scripts(scripts, command).expect("set_scripts");
            })
        });
    }
}

// ---------------------------------------------------------------------------------------------
// fetch_transaction / fetch_header / get_transaction RPCs
// ---------------------------------------------------------------------------------------------
use crate::service::{ChainRpc, FetchStatus, Status as TxStatusKind, TransactionRpc};

impl Env {
    /// fetch_transaction(tx): logs the returned status and, when fetched, the block the answer names.
    pub fn rpc_fetch_tx(&mut self, sim: &mut Sim, tx: usize) {
        let hash: ckb_types::H256 = sim.chain.txs[tx].view.hash().unpack();
        let mut status = json!("panic");
        let mut blk: i64 = 0;
        let chain_ptr: *const crate::verif::world::SimChain = &sim.chain;
        let res = {
            let c = sim.client.as_mut().unwrap();
            let rpc = c.rpc_tx();
            crate::verif::client::guard_val(|| rpc.fetch_transaction(hash.clone()))
        };
        let r = match res {
            Ok(Ok(fs)) => {
                let chain = unsafe { &*chain_ptr };
                match fs {
                    FetchStatus::Added { .. } => status = json!("added"),
                    FetchStatus::Fetching { .. } => status = json!("fetching"),
                    FetchStatus::NotFound => status = json!("not_found"),
                    FetchStatus::Fetched { data } => {
                        status = json!(match data.tx_status.status {
                            TxStatusKind::Committed => "committed",
                            TxStatusKind::Pending => "pending",
                            TxStatusKind::Unknown => "unknown",
                        });
                        blk = data.tx_status.block_hash.map(|h| hid(chain, &h.pack())).unwrap_or(0);
                    }
                }
                Ok(())
            }
            Ok(Err(e)) => {
                status = json!(format!("error:{}", e.message));
                Ok(())
            }
            Err(msg) => Err(msg),
        };
        sim.step("FetchTx", json!({"t": tx + 1, "status": status, "blk": blk}), |_| r);
    }

    pub fn rpc_get_tx(&mut self, sim: &mut Sim, tx: usize) {
        let hash: ckb_types::H256 = sim.chain.txs[tx].view.hash().unpack();
        let mut status = json!("panic");
        let mut blk: i64 = 0;
        let chain_ptr: *const crate::verif::world::SimChain = &sim.chain;
        let res = {
            let c = sim.client.as_mut().unwrap();
            let rpc = c.rpc_tx();
            crate::verif::client::guard_val(|| rpc.get_transaction(hash.clone()))
        };
        let r = match res {
            Ok(Ok(data)) => {
                let chain = unsafe { &*chain_ptr };
                status = json!(match data.tx_status.status {
                    TxStatusKind::Committed => "committed",
                    TxStatusKind::Pending => "pending",
                    TxStatusKind::Unknown => "unknown",
                });
                blk = data.tx_status.block_hash.map(|h| hid(chain, &h.pack())).unwrap_or(0);
                Ok(())
            }
            Ok(Err(e)) => {
                status = json!(format!("error:{}", e.message));
                Ok(())
            }
            Err(msg) => Err(msg),
        };
        sim.step("GetTx", json!({"t": tx + 1, "status": status, "blk": blk}), |_| r);
    }

    pub fn rpc_fetch_header(&mut self, sim: &mut Sim, block: usize) {
        let hash: ckb_types::H256 = sim.chain.blocks[block].header.hash().unpack();
        let mut status = json!("panic");
        let res = {
            let c = sim.client.as_mut().unwrap();
            let rpc = c.rpc_chain();
            crate::verif::client::guard_val(|| rpc.fetch_header(hash.clone()))
        };
        let r = match res {
            Ok(Ok(fs)) => {
                status = json!(match fs {
                    FetchStatus::Added { .. } => "added",
                    FetchStatus::Fetching { .. } => "fetching",
                    FetchStatus::NotFound => "not_found",
                    FetchStatus::Fetched { .. } => "fetched",
                });
                Ok(())
            }
            Ok(Err(e)) => {
                status = json!(format!("error:{}", e.message));
                Ok(())
            }
            Err(msg) => Err(msg),
        };
        sim.step("FetchHeader", json!({"b": block + 1, "status": status}), |_| r);
    }
}

// ---------------------------------------------------------------------------------------------
// Adversarial deliveries (C06, C02): mutated BlockFilters / SendBlocksProof / SendTransactionsProof /
// SendBlock, built from the request the client really sent
// ---------------------------------------------------------------------------------------------
impl Env {
    /// Delivers every BlockFilters mutant for the outstanding GetBlockFilters of peer i (the request
    /// stays outstanding for the honest answer).  Returns the number delivered.
    pub fn mutate_filters(&mut self, sim: &mut Sim, i: usize, rng: &mut rand::rngs::StdRng, with_subst: bool) -> usize {
        let p = self.peers[i].idx;
        let start = match sim.inbox.iter().find_map(|s| if s.peer == p { sim::filter_request(s).filter(|(k, _)| *k == "filters").map(|(_, st)| st) } else { None }) {
            Some(s) => s,
            None => return 0,
        };
        let server = self.peers[i].server.clone();
        let muts = crate::verif::mutate::block_filters_mutants(&sim.chain, server.tip, start, server.filters_batch, rng);
        let mut n = 0;
        for m in muts {
            if m.label.starts_with("subst-hash") != with_subst {
                continue;
            }
            // now and then the peer first ANNOUNCES the substituted block as its last state (a valid header that nobody
            // has proved: the "already proved" shortcut must look at the proved header, not at the announced one), and
            // announces its real tip again afterwards
            let mut announced = false;
            if with_subst && (m.label.ends_with("=fork") || m.label.ends_with("=canon")) && rand::Rng::gen_bool(rng, 0.5) {
                let x = m.hs.iter().zip(m.fs.iter()).find(|(h, f)| h != f).map(|(h, _)| *h).unwrap_or(0);
                let proved_hash = sim.client().peers.get_state(&p).and_then(|st| st.get_prove_state().map(|ps| ps.get_last_header().header().hash()));
                if x >= 1 && proved_hash.is_some() && proved_hash != Some(sim.chain.blocks[x as usize - 1].header.hash()) {
                    self.send_last_state_of(sim, i, x as usize - 1);
                    announced = true;
                }
            }
            let args = json!({"p": pname(p), "start": m.start, "n": m.fs.len(), "tip": server.tip + 1,
                "kind": format!("mut:{}", m.label), "fs": m.fs, "hs": m.hs});
            let bytes = m.msg.as_bytes();
            sim.step("Filters", args, |c| c.deliver(Proto::Filter, p, bytes));
            n += 1;
            if announced && self.peers[i].connected {
                self.send_last_state(sim, i);
            }
        }
        n
    }

    /// Mutants of the honest BlockFilterHashes answer to peer i's outstanding request (the request stays).
    pub fn mutate_hashes(&mut self, sim: &mut Sim, i: usize, rng: &mut rand::rngs::StdRng) -> usize {
        use rand::Rng;
        let p = self.peers[i].idx;
        let start = match sim.inbox.iter().find_map(|s| if s.peer == p { sim::filter_request(s).filter(|(k, _)| *k == "hashes").map(|(_, st)| st) } else { None }) {
            Some(s) => s,
            None => return 0,
        };
        let server = self.peers[i].server.clone();
        let honest = match server.block_filter_hashes(&sim.chain, start) {
            Some(m) => m,
            None => return 0,
        };
        let c = match honest.to_enum() {
            packed::BlockFilterMessageUnion::BlockFilterHashes(c) => c,
            _ => return 0,
        };
        let hs: Vec<packed::Byte32> = c.block_filter_hashes().into_iter().collect();
        let mut fake = [0u8; 32];
        rng.fill(&mut fake);
        let fake: packed::Byte32 = fake.pack();
        let mut muts: Vec<(&'static str, u64, packed::Byte32, Vec<packed::Byte32>)> = Vec::new();
        muts.push(("parent", start, fake.clone(), hs.clone()));
        muts.push(("empty", start, c.parent_block_filter_hash(), vec![]));
        muts.push(("start+1", start + 1, c.parent_block_filter_hash(), hs.clone()));
        if start > 1 {
            muts.push(("start-1", start - 1, c.parent_block_filter_hash(), hs.clone()));
        }
        if !hs.is_empty() {
            let k = rng.gen_range(0..hs.len());
            let mut v = hs.clone();
            v[k] = fake.clone();
            muts.push(("hash", start, c.parent_block_filter_hash(), v));
            let mut v = hs.clone();
            let last = v.len() - 1;
            v[last] = fake.clone();
            muts.push(("last-hash", start, c.parent_block_filter_hash(), v));
            let mut v = hs.clone();
            v.push(fake.clone());
            muts.push(("extended", start, c.parent_block_filter_hash(), v));
            muts.push(("truncated", start, c.parent_block_filter_hash(), hs[..hs.len() / 2].to_vec()));
        }
        let pick = rng.gen_range(0..muts.len());
        let (label, st, parent, v) = muts.swap_remove(pick);
        let maps = crate::verif::project::Maps::new(&sim.chain);
        let content = packed::BlockFilterHashes::new_builder().start_number(st.pack()).parent_block_filter_hash(parent.clone()).block_filter_hashes(v.clone().pack()).build();
        let m = packed::BlockFilterMessage::new_builder().set(content).build();
        let args = json!({"p": pname(p), "start": st, "n": v.len(), "tip": server.tip + 1, "kind": format!("mut:{}", label),
            "parent": maps.fid(&parent), "hs": v.iter().map(|h| maps.fid(h)).collect::<Vec<_>>()});
        sim.step("FilterHashes", args, |c| c.deliver(Proto::Filter, p, m.as_bytes()));
        1
    }

    /// C06: the proven peer i answers its outstanding GetBlockFilterHashes for the FIRST block of a check point interval
    /// with a chain of hashes over substituted filters (every block gets the filter of a block without activity) that
    /// ends exactly at the number of the next check point -- whose finalized value the chain does not reach --, and
    /// serves those filters afterwards (`forged_filters`).  Returns the block whose filter is used.
    pub fn forged_interval_hashes(&mut self, sim: &mut Sim, i: usize, interval: u64) -> Option<usize> {
        use ckb_types::utilities::calc_filter_hash;
        let p = self.peers[i].idx;
        let start = sim.inbox.iter().find_map(|s| if s.peer == p { sim::filter_request(s).filter(|(k, _)| *k == "hashes").map(|(_, st)| st) } else { None })?;
        let server = self.peers[i].server.clone();
        let chain = sim.chain.chain_of(server.tip);
        let tipn = sim.chain.blocks[server.tip].num;
        if start == 0 || (start - 1) % interval != 0 || start + interval - 1 > tipn {
            return None;
        }
        // only inside the finalized range (the cached-hashes path of the handler)
        let (final_idx, _) = sim.client().storage.get_last_check_point();
        if start + interval - 1 > final_idx as u64 * interval {
            return None;
        }
        // a block of the chain with nothing but its cellbase
        let quiet = chain.iter().cloned().find(|b| *b != 0 && sim.chain.blocks[*b].tx_ids.len() == 1)?;
        let data = sim.chain.blocks[quiet].filter.clone();
        let parent = sim.chain.blocks[chain[start as usize - 1]].filter_hash.clone();
        let mut h = parent.clone();
        let mut v = Vec::new();
        for _ in 0..interval {
            h = calc_filter_hash(&h, &data).pack();
            v.push(h.clone());
        }
        let _ = sim.take_request(p, |s| sim::filter_request(s).filter(|(k, _)| *k == "hashes"));
        let maps = crate::verif::project::Maps::new(&sim.chain);
        let content = packed::BlockFilterHashes::new_builder().start_number(start.pack()).parent_block_filter_hash(parent.clone()).block_filter_hashes(v.clone().pack()).build();
        let m = packed::BlockFilterMessage::new_builder().set(content).build();
        let args = json!({"p": pname(p), "start": start, "n": v.len(), "tip": server.tip + 1, "kind": "mut:forged-interval",
            "parent": maps.fid(&parent), "hs": v.iter().map(|h| maps.fid(h)).collect::<Vec<_>>()});
        sim.step("FilterHashes", args, |c| c.deliver(Proto::Filter, p, m.as_bytes()));
        Some(quiet)
    }

    /// The filters that go with `forged_interval_hashes`: for the outstanding GetBlockFilters of peer i, every block of
    /// the batch with the filter of block `quiet` (the block hashes are the true ones).
    pub fn forged_filters(&mut self, sim: &mut Sim, i: usize, quiet: usize) -> bool {
        let p = self.peers[i].idx;
        let start = match sim.inbox.iter().find_map(|s| if s.peer == p { sim::filter_request(s).filter(|(k, _)| *k == "filters").map(|(_, st)| st) } else { None }) {
            Some(s) => s,
            None => return false,
        };
        let server = self.peers[i].server.clone();
        let chain = sim.chain.chain_of(server.tip);
        let tipn = sim.chain.blocks[server.tip].num;
        if start > tipn {
            return false;
        }
        let end = std::cmp::min(tipn, start + server.filters_batch as u64 - 1);
        let ids: Vec<usize> = (start..=end).map(|n| chain[n as usize]).collect();
        let content = packed::BlockFilters::new_builder()
            .start_number(start.pack())
            .block_hashes(ids.iter().map(|id| sim.chain.blocks[*id].header.hash()).collect::<Vec<_>>().pack())
            .filters(packed::BytesVec::new_builder().set(ids.iter().map(|_| sim.chain.blocks[quiet].filter.clone()).collect()).build())
            .build();
        let m = packed::BlockFilterMessage::new_builder().set(content).build();
        let _ = sim.take_request(p, |s| sim::filter_request(s).filter(|(k, _)| *k == "filters"));
        let args = json!({"p": pname(p), "start": start, "n": ids.len(), "tip": server.tip + 1, "kind": "mut:forged-interval",
            "fs": ids.iter().map(|_| quiet + 1).collect::<Vec<_>>(), "hs": ids.iter().map(|b| b + 1).collect::<Vec<_>>()});
        sim.step("Filters", args, |c| c.deliver(Proto::Filter, p, m.as_bytes()));
        true
    }

    /// A late repetition of peer i's last honest BlockFilterHashes answer: the same start and parent, only the first
    /// `keep` hashes (everything consistent with what the client cached from the full answer, just shorter).
    pub fn late_short_hashes(&mut self, sim: &mut Sim, i: usize, rng: &mut rand::rngs::StdRng) -> bool {
        use rand::Rng;
        let p = self.peers[i].idx;
        let (start, parent, hs) = match self.last_hashes[i].clone() {
            Some(x) if !x.2.is_empty() => x,
            _ => return false,
        };
        let keep = rng.gen_range(0..hs.len());
        let v: Vec<packed::Byte32> = hs[..keep].to_vec();
        let maps = crate::verif::project::Maps::new(&sim.chain);
        let content = packed::BlockFilterHashes::new_builder().start_number(start.pack()).parent_block_filter_hash(parent.clone()).block_filter_hashes(v.clone().pack()).build();
        let m = packed::BlockFilterMessage::new_builder().set(content).build();
        let args = json!({"p": pname(p), "start": start, "n": v.len(), "tip": self.peers[i].server.tip + 1, "kind": "mut:late-shorter",
            "parent": maps.fid(&parent), "hs": v.iter().map(|h| maps.fid(h)).collect::<Vec<_>>()});
        sim.step("FilterHashes", args, |c| c.deliver(Proto::Filter, p, m.as_bytes()));
        true
    }

    /// An unsolicited honest BlockFilters batch starting right after the filtered number.
    pub fn unsolicited_filters(&mut self, sim: &mut Sim, i: usize) {
        let p = self.peers[i].idx;
        let server = self.peers[i].server.clone();
        let start = sim.client().storage.get_min_filtered_block_number() + 1;
        if let Some(m) = server.block_filters(&sim.chain, start) {
            let tipn = sim.chain.blocks[server.tip].num;
            let n = std::cmp::min(tipn + 1 - start, server.filters_batch as u64);
            let chain = sim.chain.chain_of(server.tip);
            let ids: Vec<usize> = (start..start + n).map(|h| chain[h as usize] + 1).collect();
            let args = json!({"p": pname(p), "start": start, "n": n, "tip": server.tip + 1, "kind": "unsolicited", "fs": ids, "hs": ids});
            sim.step("Filters", args, |c| c.deliver(Proto::Filter, p, m.as_bytes()));
        }
    }

    /// A SendBlock nobody asked for: a genuine block that is recorded as matched but not proved yet.
    pub fn unproved_block(&mut self, sim: &mut Sim, i: usize) -> bool {
        let st = sim.state();
        let cand = st["mmem"].as_array().and_then(|a| a.iter().find(|e| e[1] == false && e[2] == false && e[0].as_i64().unwrap_or(0) >= 1).cloned());
        if let Some(e) = cand {
            let bid = e[0].as_i64().unwrap() as usize - 1;
            let content = packed::SendBlock::new_builder().block(sim.chain.blocks[bid].block.data()).build();
            let m = packed::SyncMessage::new_builder().set(content).build();
            self.deliver_block(sim, i, m, "true");
            return true;
        }
        false
    }

    /// Answers the outstanding GetBlocksProof of peer i with a mutated (definitely incorrect) message.
    pub fn mutate_blocks_proof(&mut self, sim: &mut Sim, i: usize, rng: &mut rand::rngs::StdRng) -> bool {
        use rand::Rng;
        let p = self.peers[i].idx;
        let req = match sim.take_request(p, sim::as_get_blocks_proof) {
            Some(r) => r,
            None => return false,
        };
        let server = self.peers[i].server.clone();
        let honest = server.blocks_proof(&sim.chain, &req);
        let mut muts = crate::verif::mutate::proof_message_mutants(&honest);
        // a complete, genuine answer -- for another last header than the requested one (its parent, or the leaf
        // of another branch): data under a last state the client did not ask about
        if let Some(x) = other_last(&sim.chain, &req.last_hash(), rng) {
            let req2 = req.clone().as_builder().last_hash(sim.chain.blocks[x].header.hash()).build();
            let mut s2 = server.clone();
            s2.tip = x;
            let m2 = s2.blocks_proof(&sim.chain, &req2);
            for _ in 0..3 {
                muts.push(("other-last-with-data".to_string(), m2.clone()));
            }
        }
        // blocks the server does not have on its chain (another branch, or not below the last header) returned as
        // found, beside the genuinely proved ones: a header no MMR proof covers
        if let Some(m3) = server.blocks_proof_lying(&sim.chain, &req) {
            for _ in 0..4 {
                muts.push(("missing-as-found".to_string(), m3.clone()));
            }
        }
        if muts.is_empty() {
            return false;
        }
        let (label, m) = muts[rng.gen_range(0..muts.len())].clone();
        let hs: Vec<i64> = req.block_hashes().into_iter().map(|h| hid(&sim.chain, &h)).collect();
        let args = json!({"p": pname(p), "last": hid(&sim.chain, &req.last_hash()), "hs": hs, "tip": server.tip + 1,
            "onChain": true, "kind": format!("mut:{}", label)});
        sim.step("BlocksProof", args, |c| c.deliver(Proto::Lc, p, m.as_bytes()));
        true
    }

    pub fn mutate_txs_proof(&mut self, sim: &mut Sim, i: usize, rng: &mut rand::rngs::StdRng) -> bool {
        use rand::Rng;
        let p = self.peers[i].idx;
        let req = match sim.take_request(p, sim::as_get_txs_proof) {
            Some(r) => r,
            None => return false,
        };
        let server = self.peers[i].server.clone();
        let honest = server.txs_proof(&sim.chain, &req);
        let mut muts = crate::verif::mutate::proof_message_mutants(&honest);
        // a requested transaction that is NOT on the peer's chain rides along in a filtered block of another, found
        // transaction: listed in the block (and no longer reported missing), but not covered by the Merkle proof
        if let packed::LightClientMessageUnion::SendTransactionsProof(m) = honest.to_enum() {
            let fbs: Vec<packed::FilteredBlock> = m.filtered_blocks().into_iter().collect();
            let missing: Vec<packed::Byte32> = m.missing_tx_hashes().into_iter().collect();
            let extra = missing.iter().enumerate().find_map(|(k, h)| sim.chain.tx_id_of(h).map(|t| (k, t)));
            if let (Some(fb), Some((k, tid))) = (fbs.first(), extra) {
                let mut txs: Vec<packed::Transaction> = fb.transactions().into_iter().collect();
                txs.push(sim.chain.txs[tid].view.data());
                let mut f2 = fbs.clone();
                f2[0] = fb.clone().as_builder().transactions(txs.pack()).build();
                let mut miss = missing.clone();
                miss.remove(k);
                let m2 = m.clone().as_builder()
                    .filtered_blocks(packed::FilteredBlockVec::new_builder().set(f2).build())
                    .missing_tx_hashes(miss.pack())
                    .build();
                let wrapped = packed::LightClientMessage::new_builder().set(m2).build();
                for _ in 0..4 {
                    muts.push(("tp.surplus-tx".to_string(), wrapped.clone()));
                }
            }
        }
        if let Some(x) = other_last(&sim.chain, &req.last_hash(), rng) {
            let req2 = req.clone().as_builder().last_hash(sim.chain.blocks[x].header.hash()).build();
            let mut s2 = server.clone();
            s2.tip = x;
            let m2 = s2.txs_proof(&sim.chain, &req2);
            for _ in 0..3 {
                muts.push(("other-last-with-data".to_string(), m2.clone()));
            }
        }
        if muts.is_empty() {
            return false;
        }
        let surplus: Vec<usize> = (0..muts.len()).filter(|k| muts[*k].0 == "tp.surplus-tx").collect();
        let (label, m) = if !surplus.is_empty() && rng.gen_bool(0.6) { muts[surplus[0]].clone() } else { muts[rng.gen_range(0..muts.len())].clone() };
        let hs: Vec<i64> = req.tx_hashes().into_iter().map(|h| sim.chain.tx_id_of(&h).map(|t| t as i64 + 1).unwrap_or(-1)).collect();
        let args = json!({"p": pname(p), "last": hid(&sim.chain, &req.last_hash()), "hs": hs, "tip": server.tip + 1,
            "onChain": true, "kind": format!("mut:{}", label)});
        sim.step("TxsProof", args, |c| c.deliver(Proto::Lc, p, m.as_bytes()));
        true
    }

    /// A block with the right header and a forged body.
    pub fn deliver_forged_block(&mut self, sim: &mut Sim, i: usize, block: usize, variant: usize) {
        let p = self.peers[i].idx;
        let forged = crate::verif::mutate::forged_body(&sim.chain, block, variant);
        let content = ckb_types::packed::SendBlock::new_builder().block(forged).build();
        let m = ckb_types::packed::SyncMessage::new_builder().set(content).build();
        let args = json!({"p": pname(p), "b": block + 1, "body": "forged"});
        sim.step("Block", args, |c| c.deliver(Proto::Sync, p, m.as_bytes()));
    }
}

/// Another block than the one with hash `last` to answer a proof request for: the leaf of another branch when
/// there is one, else the parent.  None when `last` is unknown or has no such block.
pub fn other_last(c: &crate::verif::world::SimChain, last: &packed::Byte32, rng: &mut rand::rngs::StdRng) -> Option<usize> {
    use rand::Rng;
    let id = c.id_of(last)?;
    let others: Vec<usize> = (0..c.blocks.len())
        .filter(|b| *b != id && c.children_of(*b).is_empty() && !c.is_ancestor(id, *b) && !c.is_ancestor(*b, id) && c.blocks[*b].pow && c.blocks[*b].root)
        .collect();
    if !others.is_empty() && rng.gen_bool(0.6) {
        return Some(others[rng.gen_range(0..others.len())]);
    }
    c.blocks[id].parent.filter(|p| c.blocks[*p].num >= 1)
}

// ---------------------------------------------------------------------------------------------
// Check points (C07): honest, lying and malformed BlockFilterCheckPoints
// ---------------------------------------------------------------------------------------------
/// An invented check point value; peers of the same group invent the same value for an index.
pub fn fake_cp(group: u8, index: u64) -> packed::Byte32 {
    let mut b = [0u8; 32];
    b[0] = 0xFA;
    b[1] = 0xCE;
    b[2] = group;
    b[3] = (index % 100) as u8;
    b.pack()
}

/// How a peer answers check point requests: the true values up to (excluding) index `from`, then invented ones.
#[derive(Clone, Copy, Debug)]
pub struct CpLie {
    pub from: u64,
    pub group: u8,
}

impl Env {
    /// The check points peer i reports from `start` on: count values, true or (from the lie's index on) invented.
    pub fn cp_values(&self, sim: &Sim, i: usize, start: u64, interval: u64, count: usize, lie: Option<CpLie>) -> Vec<packed::Byte32> {
        let server = &self.peers[i].server;
        let chain = sim.chain.chain_of(server.tip);
        let tip_num = sim.chain.blocks[server.tip].num;
        let mut out = Vec::new();
        let mut n = start;
        while out.len() < count {
            let idx = n / interval.max(1);
            let lying = lie.map(|l| idx >= l.from).unwrap_or(false);
            if lying {
                out.push(fake_cp(lie.unwrap().group, idx));
            } else if n <= tip_num {
                out.push(sim.chain.blocks[chain[n as usize]].filter_hash.clone());
            } else {
                break;
            }
            n += interval;
        }
        out
    }

    pub fn send_check_points(&mut self, sim: &mut Sim, i: usize, start: u64, vals: Vec<packed::Byte32>, kind: &str) {
        let p = self.peers[i].idx;
        let maps = crate::verif::project::Maps::new(&sim.chain);
        let ids: Vec<i64> = vals.iter().map(|h| maps.fid(h)).collect();
        let content = packed::BlockFilterCheckPoints::new_builder()
            .start_number(start.pack())
            .block_filter_hashes(vals.pack())
            .build();
        let m = packed::BlockFilterMessage::new_builder().set(content).build();
        let args = json!({"p": pname(p), "start": start, "vals": ids, "kind": kind, "tip": self.peers[i].server.tip + 1});
        sim.step("CheckPoints", args, |c| c.deliver(Proto::Filter, p, m.as_bytes()));
    }

    /// Answers the oldest GetBlockFilterCheckPoints of peer i, with the peer's lie if it has one.
    pub fn answer_cp(&mut self, sim: &mut Sim, i: usize, interval: u64, lie: Option<CpLie>) -> bool {
        let p = self.peers[i].idx;
        let start = match sim.take_request(p, |s| sim::filter_request(s).filter(|(k, _)| *k == "cps")) {
            Some((_, start)) => start,
            None => return false,
        };
        let count = self.peers[i].server.cp_batch;
        let vals = self.cp_values(sim, i, start, interval, count, lie);
        self.send_check_points(sim, i, start, vals, if lie.is_some() { "lie" } else { "honest" });
        true
    }
}
