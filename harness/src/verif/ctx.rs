//! The harness' own `CKBProtocolContext`: records everything the client sends, bans and
//! disconnects; shared between the protocol handlers of one simulated client.
use ckb_network::{
    async_trait, bytes::Bytes as P2pBytes, multiaddr::Multiaddr, Behaviour, CKBProtocolContext,
    Error, Peer, PeerIndex, ProtocolId, SessionType, SupportProtocols, TargetSession,
};
use std::collections::BTreeMap;
use std::future::Future;
use std::pin::Pin;
use std::sync::{Arc, Mutex};
use std::task::{Context, Poll, RawWaker, RawWakerVTable, Waker};
use std::time::Duration;

#[derive(Clone, Debug)]
pub struct Sent {
    pub proto: ProtocolId,
    pub peer: PeerIndex,
    pub data: P2pBytes,
}

#[derive(Default)]
pub struct NetInner {
    pub sent: Vec<Sent>,
    pub banned: Vec<(PeerIndex, String)>,
    pub disconnects: Vec<PeerIndex>,
    pub addrs: BTreeMap<PeerIndex, Multiaddr>,
}

#[derive(Default)]
pub struct Net {
    pub inner: Mutex<NetInner>,
}

impl Net {
    pub fn take_sent(&self) -> Vec<Sent> {
        std::mem::take(&mut self.inner.lock().unwrap().sent)
    }
    pub fn take_banned(&self) -> Vec<(PeerIndex, String)> {
        std::mem::take(&mut self.inner.lock().unwrap().banned)
    }
    pub fn take_disconnects(&self) -> Vec<PeerIndex> {
        std::mem::take(&mut self.inner.lock().unwrap().disconnects)
    }
    pub fn set_addr(&self, peer: PeerIndex, addr: Multiaddr) {
        self.inner.lock().unwrap().addrs.insert(peer, addr);
    }
}

pub struct Ctx {
    pub net: Arc<Net>,
    pub proto: SupportProtocols,
    /// a control handle of a network service that is never run: open / close protocol requests go nowhere
    pub control: ckb_network::ServiceControl,
}

impl Ctx {
    pub fn new(net: Arc<Net>, proto: SupportProtocols) -> Arc<dyn CKBProtocolContext + Sync> {
        let service = ckb_network::ServiceBuilder::default().build(());
        let control: ckb_network::ServiceControl = service.control().clone().into();
        Arc::new(Ctx { net, proto, control })
    }
}

#[async_trait]
impl CKBProtocolContext for Ctx {
    fn ckb2023(&self) -> bool {
        false
    }
    async fn set_notify(&self, _interval: Duration, _token: u64) -> Result<(), Error> {
        Ok(())
    }
    async fn remove_notify(&self, _token: u64) -> Result<(), Error> {
        Ok(())
    }
    async fn async_quick_send_message(
        &self,
        proto_id: ProtocolId,
        peer_index: PeerIndex,
        data: P2pBytes,
    ) -> Result<(), Error> {
        self.send_message(proto_id, peer_index, data)
    }
    async fn async_quick_send_message_to(
        &self,
        peer_index: PeerIndex,
        data: P2pBytes,
    ) -> Result<(), Error> {
        self.send_message_to(peer_index, data)
    }
    async fn async_quick_filter_broadcast(
        &self,
        _target: TargetSession,
        _data: P2pBytes,
    ) -> Result<(), Error> {
        Ok(())
    }
    async fn async_future_task(
        &self,
        _task: Pin<Box<dyn Future<Output = ()> + 'static + Send>>,
        _blocking: bool,
    ) -> Result<(), Error> {
        Ok(())
    }
    async fn async_send_message(
        &self,
        proto_id: ProtocolId,
        peer_index: PeerIndex,
        data: P2pBytes,
    ) -> Result<(), Error> {
        self.send_message(proto_id, peer_index, data)
    }
    async fn async_send_message_to(
        &self,
        peer_index: PeerIndex,
        data: P2pBytes,
    ) -> Result<(), Error> {
        self.send_message_to(peer_index, data)
    }
    async fn async_filter_broadcast(
        &self,
        _target: TargetSession,
        _data: P2pBytes,
    ) -> Result<(), Error> {
        Ok(())
    }
    async fn async_disconnect(&self, peer_index: PeerIndex, message: &str) -> Result<(), Error> {
        self.disconnect(peer_index, message)
    }
    fn quick_send_message(
        &self,
        proto_id: ProtocolId,
        peer_index: PeerIndex,
        data: P2pBytes,
    ) -> Result<(), Error> {
        self.send_message(proto_id, peer_index, data)
    }
    fn quick_send_message_to(&self, peer_index: PeerIndex, data: P2pBytes) -> Result<(), Error> {
        self.send_message_to(peer_index, data)
    }
    fn quick_filter_broadcast(&self, _target: TargetSession, _data: P2pBytes) -> Result<(), Error> {
        Ok(())
    }
    fn future_task(
        &self,
        _task: Pin<Box<dyn Future<Output = ()> + 'static + Send>>,
        _blocking: bool,
    ) -> Result<(), Error> {
        Ok(())
    }
    fn send_message(
        &self,
        proto_id: ProtocolId,
        peer_index: PeerIndex,
        data: P2pBytes,
    ) -> Result<(), Error> {
        self.net.inner.lock().unwrap().sent.push(Sent {
            proto: proto_id,
            peer: peer_index,
            data,
        });
        Ok(())
    }
    fn send_message_to(&self, peer_index: PeerIndex, data: P2pBytes) -> Result<(), Error> {
        let proto = self.protocol_id();
        self.send_message(proto, peer_index, data)
    }
    fn filter_broadcast(&self, _target: TargetSession, _data: P2pBytes) -> Result<(), Error> {
        Ok(())
    }
    fn disconnect(&self, peer_index: PeerIndex, _message: &str) -> Result<(), Error> {
        self.net.inner.lock().unwrap().disconnects.push(peer_index);
        Ok(())
    }
    fn get_peer(&self, peer_index: PeerIndex) -> Option<Peer> {
        let addr = self.net.inner.lock().unwrap().addrs.get(&peer_index).cloned();
        addr.map(|a| Peer::new(peer_index, SessionType::Outbound, a, false))
    }
    fn with_peer_mut(&self, _peer_index: PeerIndex, _f: Box<dyn FnOnce(&mut Peer)>) {}
    fn connected_peers(&self) -> Vec<PeerIndex> {
        self.net.inner.lock().unwrap().addrs.keys().cloned().collect()
    }
    fn report_peer(&self, _peer_index: PeerIndex, _behaviour: Behaviour) {}
    fn ban_peer(&self, peer_index: PeerIndex, _duration: Duration, reason: String) {
        self.net.inner.lock().unwrap().banned.push((peer_index, reason));
    }
    fn protocol_id(&self) -> ProtocolId {
        self.proto.protocol_id()
    }
    fn p2p_control(&self) -> Option<&ckb_network::ServiceControl> {
        Some(&self.control)
    }
}

fn noop_raw_waker() -> RawWaker {
    fn no_op(_: *const ()) {}
    fn clone(_: *const ()) -> RawWaker {
        noop_raw_waker()
    }
    static VTABLE: RawWakerVTable = RawWakerVTable::new(clone, no_op, no_op, no_op);
    RawWaker::new(std::ptr::null(), &VTABLE)
}

/// Handlers never really suspend (the context above is synchronous): poll to completion.
pub fn block_on<F: Future>(fut: F) -> F::Output {
    let waker = unsafe { Waker::from_raw(noop_raw_waker()) };
    let mut cx = Context::from_waker(&waker);
    let mut fut = Box::pin(fut);
    for _ in 0..1000 {
        if let Poll::Ready(v) = fut.as_mut().poll(&mut cx) {
            return v;
        }
    }
    panic!("handler future did not complete");
}
