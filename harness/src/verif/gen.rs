//! World generators.
use super::world::{SimChain, WBlock, WScript};
use ckb_types::{utilities::{compact_to_difficulty, difficulty_to_compact}, U256};
use rand::{rngs::StdRng, Rng};

/// The difficulty a header really carries when `d` is requested (compact target rounding).
pub fn actual_diff(d: u64) -> u64 {
    compact_to_difficulty(difficulty_to_compact(U256::from(d.max(1)))).0[0]
}

pub struct ChainParams {
    pub pow: String,
    /// epoch lengths are drawn from this range
    pub epoch_len: (u64, u64),
    /// per-epoch difficulty may move by at most this factor (tau = 2 in consensus)
    pub vary_difficulty: bool,
}

/// Epoch and difficulty of the child of `parent` on an honest (consensus-legal) chain.
pub fn next_epoch(
    chain: &SimChain,
    parent: usize,
    p: &ChainParams,
    rng: &mut StdRng,
) -> ((u64, u64, u64), u64) {
    let pb = &chain.blocks[parent];
    let e = pb.header.epoch();
    let pdiff = chain.u(&pb.diff);
    if parent == 0 {
        // block 1 continues the genesis epoch with the genesis difficulty
        let len = rng.gen_range(p.epoch_len.0.max(2)..=p.epoch_len.1.max(2));
        return ((0, 1, len), pdiff);
    }
    if e.index() + 1 < e.length() {
        ((e.number(), e.index() + 1, e.length()), pdiff)
    } else {
        let len = rng.gen_range(p.epoch_len.0.max(1)..=p.epoch_len.1.max(1));
        // epoch difficulty E = len * diff must stay within [E/2, 2E]
        let e_prev = e.length() * pdiff;
        let diff = if p.vary_difficulty {
            let lo = (e_prev + 1) / 2; // ceil(E/2)
            let hi = e_prev * 2;
            // choose block difficulty d such that lo <= len*d <= hi and d is exactly representable
            let mut cands: Vec<u64> = Vec::new();
            let mut d = 1u64;
            while d <= 1 << 20 {
                // powers of two and 3*2^k are exactly representable in compact form
                for m in [actual_diff(d), actual_diff(d + d / 2)] {
                    if m >= 1 && len * m >= lo && len * m <= hi && !cands.contains(&m) {
                        cands.push(m);
                    }
                }
                d *= 2;
            }
            if cands.is_empty() {
                pdiff
            } else {
                cands[rng.gen_range(0..cands.len())]
            }
        } else {
            pdiff
        };
        // keep the same length if the difficulty could not be adjusted legally
        let (len, diff) = if diff == pdiff && !(len * diff * 2 >= e_prev && len * diff <= e_prev * 2) {
            (e.length(), pdiff)
        } else {
            (len, diff)
        };
        ((e.number() + 1, 0, len), diff)
    }
}

/// Extends the chain from `parent` by `count` honest blocks; returns the new tip id.
pub fn extend(
    chain: &mut SimChain,
    parent: usize,
    count: usize,
    p: &ChainParams,
    rng: &mut StdRng,
) -> usize {
    let mut cur = parent;
    for _ in 0..count {
        let (epoch, diff) = next_epoch(chain, cur, p, rng);
        cur = chain.add_block(&WBlock {
            parent: cur as i64,
            diff,
            epoch,
            pow: true,
            root: true,
            txs: vec![],
        });
    }
    cur
}

pub fn default_scripts() -> Vec<WScript> {
    vec![
        WScript { code: 1, hash_type: 0, args: vec![1] },
        WScript { code: 1, hash_type: 0, args: vec![1, 0] },
        WScript { code: 1, hash_type: 0, args: vec![1, 2] },
        WScript { code: 2, hash_type: 1, args: vec![] },
    ]
}

/// Transaction-graph generator: keeps, per block, the set of live cells (of world scripts) after it.
pub struct TxGen {
    pub live_after: std::collections::HashMap<usize, Vec<(usize, usize)>>,
    pub nscripts: usize,
    pub max_txs: usize,
    /// probability that a transaction of a block of ANOTHER branch whose inputs are available is mined again
    /// (0 = never: every transaction is in exactly one block of the world)
    pub remine: f64,
    /// per block: original tx id -> its copy on the chain ending in that block
    pub remap_after: std::collections::HashMap<usize, std::collections::HashMap<usize, usize>>,
}

impl TxGen {
    pub fn new(nscripts: usize, max_txs: usize) -> Self {
        let mut live_after = std::collections::HashMap::new();
        live_after.insert(0usize, Vec::new());
        TxGen { live_after, nscripts, max_txs, remine: 0.0, remap_after: std::collections::HashMap::new() }
    }

    fn gen_block_txs(&mut self, chain: &SimChain, parent: usize, rng: &mut StdRng) -> (Vec<super::world::WTx>, Vec<(usize, usize)>, std::collections::HashMap<usize, usize>) {
        use super::world::{WCell, WTx};
        let mut live = self.live_after.get(&parent).cloned().unwrap_or_default();
        let mut remap = self.remap_after.get(&parent).cloned().unwrap_or_default();
        let first_tx_id = chain.txs.len(); // cellbase gets this id, then the block's txs
        let mut txs: Vec<WTx> = Vec::new();
        if self.remine > 0.0 {
            // transactions of blocks that are not on this chain, mined again here when their inputs are available
            let on_chain: std::collections::HashSet<usize> = chain.chain_of(parent).into_iter().collect();
            for t in chain.txs.iter() {
                if txs.len() >= self.max_txs {
                    break;
                }
                if t.index == 0 || t.twin_of.is_some() || on_chain.contains(&t.block) || remap.contains_key(&t.id) {
                    continue;
                }
                let mapped: Option<Vec<(usize, usize)>> = t
                    .ins
                    .iter()
                    .map(|(p, o)| {
                        if *p < 1 {
                            return None;
                        }
                        let p0 = (*p - 1) as usize;
                        let pid = remap.get(&p0).cloned().unwrap_or(p0);
                        if live.contains(&(pid, *o)) { Some((pid, *o)) } else { None }
                    })
                    .collect();
                // (never at the very position of the original: the store could not tell the two apart, and neither
                //  could the projection of its entries)
                let same_pos = chain.blocks[t.block].num == chain.blocks[parent].num + 1 && t.index == 1 + txs.len();
                if let (Some(ins), false) = (mapped, same_pos) {
                    if rng.gen_bool(self.remine) {
                        let tid = first_tx_id + 1 + txs.len();
                        live.retain(|c| !ins.contains(c));
                        for o in 0..t.view.outputs().len() {
                            live.push((tid, o));
                        }
                        remap.insert(t.id, tid);
                        txs.push(WTx { inputs: ins, outputs: vec![], same_as: Some(t.id) });
                    }
                }
            }
        }
        let ntx = rng.gen_range(0..=self.max_txs.saturating_sub(txs.len()));
        for _ in 0..ntx {
            let tid = first_tx_id + 1 + txs.len();
            let nin = if live.is_empty() || rng.gen_bool(0.2) { 0 } else { rng.gen_range(1..=std::cmp::min(2, live.len())) };
            let mut inputs = Vec::new();
            for _ in 0..nin {
                let j = rng.gen_range(0..live.len());
                inputs.push(live.swap_remove(j));
            }
            let nout = rng.gen_range(1..=3usize);
            let mut outputs = Vec::new();
            for o in 0..nout {
                let lock = rng.gen_range(0..self.nscripts);
                let type_ = if rng.gen_bool(0.3) { Some(rng.gen_range(0..self.nscripts)) } else { None };
                outputs.push(WCell { lock, type_, cap: rng.gen_range(100..1000), data_len: [0usize, 8, 9, 20][rng.gen_range(0..4)] });
                live.push((tid, o));
            }
            txs.push(WTx { inputs, outputs, same_as: None });
        }
        (txs, live, remap)
    }
}

/// Like `extend`, with generated transactions in every block.
pub fn extend_with_txs(
    chain: &mut SimChain,
    parent: usize,
    count: usize,
    p: &ChainParams,
    rng: &mut StdRng,
    tg: &mut TxGen,
) -> usize {
    let mut cur = parent;
    for _ in 0..count {
        let (epoch, diff) = next_epoch(chain, cur, p, rng);
        let (txs, live, remap) = tg.gen_block_txs(chain, cur, rng);
        let id = chain.add_block(&WBlock { parent: cur as i64, diff, epoch, pow: true, root: true, txs });
        tg.live_after.insert(id, live);
        tg.remap_after.insert(id, remap);
        cur = id;
    }
    cur
}
