//! Verification drivers (see /verif/DESIGN.md).
pub mod client;
pub mod ctx;
pub mod drivers;
pub mod env;
pub mod gen;
pub mod honest;
pub mod mutate;
pub mod project;
pub mod sim;
pub mod world;

use std::collections::HashMap;

/// `harness <driver> key=value ...`; traces go to the file given by `out=`.
pub fn main() {
    let args: Vec<String> = std::env::args().skip(1).collect();
    if args.is_empty() {
        eprintln!("usage: harness <driver> [key=value ...]");
        std::process::exit(2);
    }
    let driver = args[0].clone();
    let mut kv: HashMap<String, String> = HashMap::new();
    for a in &args[1..] {
        if let Some((k, v)) = a.split_once('=') {
            kv.insert(k.to_owned(), v.to_owned());
        }
    }
    // the client logs a lot; keep it quiet unless asked
    if std::env::var("RUST_LOG").is_ok() {
        let _ = env_logger::try_init();
    }
    // panics of the code under test are caught and logged as data; keep stderr readable
    // (the location of the last panic is remembered and goes into the Panic event of the trace)
    if std::env::var("VERIF_PANIC_TRACE").is_err() {
        std::panic::set_hook(Box::new(|info| {
            let loc = info.location().map(|l| format!("{}:{}", l.file(), l.line())).unwrap_or_default();
            if let Ok(mut g) = client::LAST_PANIC_LOC.lock() {
                *g = loc;
            }
        }));
    }
    let code = drivers::run(&driver, &kv);
    std::process::exit(code);
}

pub fn arg_u64(kv: &HashMap<String, String>, k: &str, d: u64) -> u64 {
    kv.get(k).and_then(|v| v.parse().ok()).unwrap_or(d)
}
pub fn arg_str(kv: &HashMap<String, String>, k: &str, d: &str) -> String {
    kv.get(k).cloned().unwrap_or_else(|| d.to_owned())
}
