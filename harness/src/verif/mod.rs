pub fn main() {
    println!("harness skeleton");
}
