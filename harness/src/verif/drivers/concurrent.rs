//! C17: concurrent RPC calls and protocol handlers behave like some serial order.
//!
//! One experiment = a state with four operations ready to fire:
//!   SS  set_scripts (RPC thread),
//!   BF  a BlockFilters batch (filter protocol),
//!   BL  the arrival of a matched block (sync protocol),
//!   FK  a last-state proof that switches to a heavier fork (light-client protocol: rollback + new tip),
//! a pair (A, B) of them and a write boundary k of A.  The same seeded history is run three times:
//! serially A;B, serially B;A (both validated step by step by Trace_FilterSync), and concurrently -- A on one
//! thread, paused by the storage hook right before its k-th write, B on another thread, started while A is
//! paused, A released once B has finished or has shown to be blocked.  The outcome of the concurrent run
//! (Concurrent event) must be one of the two serial outcomes; a run in which a thread never finishes is a
//! Deadlock event, which is never a step of the specification.
use crate::service::{BlockFilterRpc, ScriptStatus as RpcScriptStatus, ScriptType as RpcScriptType, SetScriptsCommand};
use crate::verif::client::{guard, Config, Proto};
use crate::verif::ctx::block_on;
use crate::verif::env::Env;
use crate::verif::gen::{self, ChainParams, TxGen};
use crate::verif::honest::HonestPeer;
use crate::verif::sim::{self, new_sim, Sim};
use crate::verif::world::SimChain;
use crate::verif::{arg_str, arg_u64};
use ckb_network::{bytes::Bytes as P2pBytes, CKBProtocolHandler, PeerIndex};
use ckb_types::{packed, prelude::*};
use rand::{rngs::StdRng, Rng, SeedableRng};
use serde_json::{json, Value};
use std::cell::Cell;
use std::collections::HashMap;
use std::fs::File;
use std::io::{BufWriter, Write};
use std::sync::{Arc, Condvar, Mutex};
use std::time::Duration;

#[derive(Clone, Copy, PartialEq, Eq, Debug)]
enum Op {
    SS,
    BF,
    BL,
    FK,
    /// a BlockFilters batch of peer 0 (which stays on branch A) starting right after the filtered number AT THE
    /// MOMENT IT IS DELIVERED (nobody asked for it; built lazily, so that it fits the state a suspended fork
    /// switch has left)
    BX,
    /// the filters tick (try_send_get_block_filters): recovers the earliest matched-blocks record into the
    /// in-memory map when that is empty, or asks for the next batch (only as the second operation: it has no write)
    TK,
    /// reader: get_cells_capacity (only as the paused operation, paused at its read points)
    RD,
}

impl Op {
    fn name(&self) -> &'static str {
        match self {
            Op::SS => "SetScripts",
            Op::BF => "Filters",
            Op::BL => "Block",
            Op::FK => "Fork",
            Op::BX => "FiltersNow",
            Op::TK => "FilterTick",
            Op::RD => "Read",
        }
    }
}

#[derive(Clone)]
struct SharedBuf(Arc<Mutex<Vec<u8>>>);
impl Write for SharedBuf {
    fn write(&mut self, b: &[u8]) -> std::io::Result<usize> {
        self.0.lock().unwrap().extend_from_slice(b);
        Ok(b.len())
    }
    fn flush(&mut self) -> std::io::Result<()> {
        Ok(())
    }
}

struct Setup {
    sim: Sim,
    env: Env,
    interval: u64,
    ss: (String, Vec<(usize, bool, u64)>),
    buf: SharedBuf,
    /// the peer whose proof of branch B is outstanding
    fk: usize,
    /// the tip of branch A (the chain peer 0 served before anybody reorganised)
    old_tip: usize,
}

thread_local! {
    /// race=1: the single-peer history of `setup_race`
    static RACE: Cell<bool> = Cell::new(false);
}

fn setup(seed: u64, name: &str) -> Setup {
    if RACE.with(|r| r.get()) { setup_race(seed, name) } else { setup_pair(seed, name) }
}

/// One peer, quorum 1, no sampling: the peer serves branch A until the filters are synced some way, then it
/// reorganises to the heavier branch B and announces it; the client has asked for the proof.  Operations: the
/// proof (fork switch) and a BlockFilters batch of branch A, as the peer had it before it reorganised, starting
/// right after the filtered number at the moment it is delivered.
fn setup_race(seed: u64, name: &str) -> Setup {
    let mut rng = StdRng::seed_from_u64(seed);
    let rng = &mut rng;
    let last_n = 20u64;
    let interval = rng.gen_range(5..=6);
    let a_len = rng.gen_range(10..=18usize);
    let depth = rng.gen_range(1..=4usize).min(a_len - 3);
    let p = ChainParams { pow: "dummy".to_owned(), epoch_len: (3, 8), vary_difficulty: false };
    let scripts = gen::default_scripts();
    let mut chain = SimChain::new("dummy", &scripts);
    let mut tg = TxGen::new(scripts.len(), 3);
    let a_tip = gen::extend_with_txs(&mut chain, 0, a_len, &p, rng, &mut tg);
    let fork_at = chain.ancestor_at(a_tip, (a_len - depth) as u64).unwrap();
    let b_tip = gen::extend_with_txs(&mut chain, fork_at, depth + rng.gen_range(1..=3), &p, rng, &mut tg);
    let cfg = Config { last_n, max_outbound: 1, interval, blocks_in_transit: 8, ..Default::default() };
    let buf = SharedBuf(Arc::new(Mutex::new(Vec::new())));
    let mut sim: Sim = new_sim(chain, cfg, 1, Box::new(buf.clone()), name, vec!["peersync", "filter"]);
    let mut env = Env::new(&sim, &[(a_tip, a_tip)]);
    env.peers[0].server.filters_batch = rng.gen_range(1..=3);
    env.peers[0].server.hashes_batch = rng.gen_range(4..=8);
    env.peers[0].server.cp_batch = rng.gen_range(2..=6);
    sim.reset(json!({"mode": "concurrent-race"}));
    let nscripts = sim.chain.scripts.len();
    let list: Vec<(usize, bool, u64)> = (0..nscripts).map(|s| (s, false, 0)).collect();
    env.set_scripts(&mut sim, "all", &list);
    // honest rounds on branch A; stop when the filtered number has reached the target (somewhere around the fork point)
    let fork_num = (a_len - depth) as u64;
    let target = fork_num.saturating_sub(rng.gen_range(0..=2)).max(1) + rng.gen_range(0..=depth as u64);
    for _ in 0..40 {
        let minf = sim.client().storage.get_min_filtered_block_number();
        if minf >= target {
            break;
        }
        crate::verif::drivers::filtersync::pump_opt(&mut sim, &mut env, rng, interval, false);
    }
    // the peer reorganises and announces B; the client asks for the proof
    env.peers[0].leaf = b_tip;
    env.peers[0].server.tip = b_tip;
    sim.inbox.clear();
    env.send_last_state(&mut sim, 0);
    env.refresh(&mut sim);
    let ss_list = vec![(0usize, false, 0u64)];
    Setup { sim, env, interval, ss: ("partial".to_string(), ss_list), buf, fk: 0, old_tip: a_tip }
}

/// The seeded history that ends with the four operations ready.
fn setup_pair(seed: u64, name: &str) -> Setup {
    let mut rng = StdRng::seed_from_u64(seed);
    let rng = &mut rng;
    // last-N 20 covers the whole chain: no sampling, hence no randomness of the client's sampler in the history
    // (the three runs of an experiment must start from the same state, or the experiment is discarded)
    let last_n = *[3u64, 5, 20, 20][..].get(rng.gen_range(0..4)).unwrap();
    let interval = if last_n == 20 { rng.gen_range(5..=6) } else { last_n.max(3) + rng.gen_range(0..=2) };
    let a_len = if last_n == 20 { rng.gen_range(10..=18) } else { rng.gen_range((last_n as usize + 5)..=18) };
    let depth = rng.gen_range(1..=(last_n.min(5) as usize - 1)).min(a_len - 3);
    let p = ChainParams { pow: "dummy".to_owned(), epoch_len: (3, 8), vary_difficulty: false };
    let scripts = gen::default_scripts();
    let mut chain = SimChain::new("dummy", &scripts);
    let mut tg = TxGen::new(scripts.len(), 3);
    let a_tip = gen::extend_with_txs(&mut chain, 0, a_len, &p, rng, &mut tg);
    let fork_at = chain.ancestor_at(a_tip, (a_len - depth) as u64).unwrap();
    let b_tip = gen::extend_with_txs(&mut chain, fork_at, depth + rng.gen_range(1..=3), &p, rng, &mut tg);
    // quorum 1 (capacity 2) or 2 (capacity 3: both peers have to agree on filter hashes and check points)
    let max_outbound = 2 + (seed % 2) as u32;
    let cfg = Config { last_n, max_outbound, interval, blocks_in_transit: 8, ..Default::default() };
    let buf = SharedBuf(Arc::new(Mutex::new(Vec::new())));
    let mut sim: Sim = new_sim(chain, cfg, 2, Box::new(buf.clone()), name, vec!["peersync", "filter"]);
    // peer 0 serves A's tip, peer 1 lags a little on A (it will announce B later)
    // (or, every other pair of seeds, it is at A's tip as well: its filter hashes then reach beyond the fork point
    //  until its proof of B is committed)
    let lag = if (seed / 2) % 2 == 1 { a_tip } else { sim.chain.ancestor_at(a_tip, (a_len - depth) as u64).unwrap() };
    let mut env = Env::new(&sim, &[(a_tip, a_tip), (lag, a_tip)]);
    for ep in env.peers.iter_mut() {
        ep.server.filters_batch = rng.gen_range(1..=3);
        ep.server.hashes_batch = rng.gen_range(2..=8);
        ep.server.cp_batch = rng.gen_range(2..=6);
    }
    sim.reset(json!({"mode": "concurrent"}));
    let nscripts = sim.chain.scripts.len();
    let list: Vec<(usize, bool, u64)> = (0..nscripts).map(|s| (s, false, 0)).collect();
    env.set_scripts(&mut sim, "all", &list);
    // both peers proven on A, check points and filter hashes exchanged
    for i in 0..2 {
        env.connect(&mut sim, i);
        env.send_last_state(&mut sim, i);
    }
    env.refresh(&mut sim);
    for i in 0..2 {
        while env.answer_proof(&mut sim, i) {}
    }
    env.refresh(&mut sim);
    for token in [2u64, 1, 2, 1, 2, 1, 2, 1] {
        env.filter_tick(&mut sim, token, true);
        for _ in 0..30 {
            let mut any = false;
            for i in 0..2 {
                let p = env.peers[i].idx;
                if sim.inbox.iter().any(|x| x.peer == p && matches!(sim::filter_request(x), Some((k, _)) if k != "filters")) {
                    // (answer_filter takes the oldest request of the filter protocol)
                    sim.inbox.retain(|x| !(x.peer == p && matches!(sim::filter_request(x), Some(("filters", _)))));
                    any |= env.answer_filter(&mut sim, i, interval);
                }
            }
            if !any {
                break;
            }
        }
        env.refresh(&mut sim);
    }
    // filter sync on A, one step at a time; stop somewhere with a request outstanding
    let stop_after = rng.gen_range(1..=14);
    // half of the histories stop with a block download outstanding (the arrival of a matched block is then one
    // of the operations), the others at the first outstanding request of either kind
    let want_blocks = rng.gen_bool(0.5);
    let mut steps = 0;
    for _ in 0..200 {
        let filters_at = (0..2).find(|i| sim.inbox.iter().any(|x| x.peer == env.peers[*i].idx && matches!(sim::filter_request(x), Some(("filters", _)))));
        let blocks_at = (0..2).find(|i| sim.inbox.iter().any(|x| x.peer == env.peers[*i].idx && sim::as_get_blocks(x).is_some()));
        if steps >= stop_after && (blocks_at.is_some() || (filters_at.is_some() && (!want_blocks || steps >= stop_after + 25))) {
            break;
        }
        steps += 1;
        let mut did = false;
        for i in 0..2 {
            if env.answer_blocks_proof(&mut sim, i) {
                did = true;
            }
        }
        if did {
            continue;
        }
        if let Some(i) = blocks_at {
            let p = env.peers[i].idx;
            let req = sim.take_request(p, sim::as_get_blocks).unwrap();
            for m in env.peers[i].server.blocks(&sim.chain, &req) {
                env.deliver_block(&mut sim, i, m, "true");
            }
            continue;
        }
        if let Some(i) = filters_at {
            let p = env.peers[i].idx;
            sim.inbox.retain(|x| !(x.peer == p && matches!(sim::filter_request(x), Some((k, _)) if k != "filters")));
            env.answer_filter(&mut sim, i, interval);
            continue;
        }
        // nothing outstanding: the ticks
        for token in [2u64, 1] {
            env.filter_tick(&mut sim, token, true);
            for i in 0..2 {
                let p = env.peers[i].idx;
                while sim.inbox.iter().any(|x| x.peer == p && matches!(sim::filter_request(x), Some((k, _)) if k != "filters")) {
                    let keep: Vec<_> = sim.inbox.iter().filter(|x| x.peer == p && matches!(sim::filter_request(x), Some(("filters", _)))).cloned().collect();
                    sim.inbox.retain(|x| !(x.peer == p && matches!(sim::filter_request(x), Some(("filters", _)))));
                    env.answer_filter(&mut sim, i, interval);
                    sim.inbox.extend(keep);
                }
            }
            env.refresh(&mut sim);
        }
        env.filter_tick(&mut sim, 0, true);
        env.idle_tick(&mut sim);
        if steps > 60 {
            break;
        }
    }
    // peer 1 moves to the heavier branch B and announces it; the client asks for the proof
    env.peers[1].leaf = b_tip;
    env.peers[1].server.tip = b_tip;
    env.send_last_state(&mut sim, 1);
    env.refresh(&mut sim);
    // (its own random stream: the history above consumes a varying amount of the other one)
    let mut rng2 = StdRng::seed_from_u64(seed ^ 0x5eed_5eed);
    let rng = &mut rng2;
    let ss_cmd = ["all", "partial", "delete"][rng.gen_range(0..3)].to_string();
    let mut ss_list: Vec<(usize, bool, u64)> = Vec::new();
    for s in 0..nscripts {
        if rng.gen_bool(0.5) {
            ss_list.push((s, false, rng.gen_range(0..=(a_len as u64 / 2))));
        }
    }
    if ss_list.is_empty() {
        ss_list.push((0, false, 0));
    }
    // two experiments in five: a script that is NOT registered yet is added (partial) from the current filter position,
    // so that set_scripts does not rewind: a batch that was matched against the script set of before must not lift
    // the new script over blocks that hold its cells (seed C17-7)
    let (ss_cmd, ss_list) = if rng.gen_bool(0.4) {
        let registered: Vec<ckb_types::packed::Script> = sim.client().storage.get_filter_scripts().into_iter().map(|x| x.script).collect();
        let fresh: Vec<usize> = (0..nscripts).filter(|k| !registered.iter().any(|r| r.as_slice() == sim.chain.scripts[*k].as_slice())).collect();
        if fresh.is_empty() {
            (ss_cmd, ss_list)
        } else {
            let min_f = sim.client().storage.get_min_filtered_block_number();
            ("partial".to_string(), vec![(fresh[rng.gen_range(0..fresh.len())], false, min_f)])
        }
    } else {
        (ss_cmd, ss_list)
    };
    Setup { sim, env, interval, ss: (ss_cmd, ss_list), buf, fk: 1, old_tip: a_tip }
}

fn available(s: &Setup) -> Vec<Op> {
    let mut v = vec![Op::SS];
    if s.sim.inbox.iter().any(|x| matches!(sim::filter_request(x), Some(("filters", _)))) {
        v.push(Op::BF);
    }
    if s.sim.inbox.iter().any(|x| sim::as_get_blocks(x).is_some()) {
        v.push(Op::BL);
    }
    let p1 = s.env.peers[s.fk].idx;
    if s.sim.inbox.iter().any(|x| x.peer == p1 && sim::as_get_last_state_proof(x).is_some()) {
        v.push(Op::FK);
    }
    v
}

fn peer_with<F: Fn(&crate::verif::ctx::Sent) -> bool>(s: &Setup, f: F) -> Option<usize> {
    (0..s.env.peers.len()).find(|i| s.sim.inbox.iter().any(|x| x.peer == s.env.peers[*i].idx && f(x)))
}

/// Fires an operation through the logging environment (serial runs).
fn fire(s: &mut Setup, op: Op) {
    match op {
        Op::SS => {
            let (cmd, list) = s.ss.clone();
            s.env.set_scripts(&mut s.sim, &cmd, &list);
        }
        Op::BF => {
            if let Some(i) = peer_with(s, |x| matches!(sim::filter_request(x), Some(("filters", _)))) {
                // answer_filter takes the oldest filter-protocol request: drop the other kinds first
                let p = s.env.peers[i].idx;
                s.sim.inbox.retain(|x| !(x.peer == p && matches!(sim::filter_request(x), Some((k, _)) if k != "filters")));
                s.env.answer_filter(&mut s.sim, i, s.interval);
            }
        }
        Op::BL => {
            if let Some(i) = peer_with(s, |x| sim::as_get_blocks(x).is_some()) {
                let p = s.env.peers[i].idx;
                let req = s.sim.take_request(p, sim::as_get_blocks).unwrap();
                let msgs = s.env.peers[i].server.blocks(&s.sim.chain, &req);
                if let Some(m) = lowest_block(msgs) {
                    s.env.deliver_block(&mut s.sim, i, m, "true");
                }
            }
        }
        Op::FK => {
            let fk = s.fk;
            s.env.answer_proof(&mut s.sim, fk);
        }
        Op::TK => {
            s.env.filter_tick(&mut s.sim, 0, true);
        }
        Op::BX => {
            // the batch is one of branch A, whatever peer 0 serves now
            let cur = s.env.peers[0].server.tip;
            s.env.peers[0].server.tip = s.old_tip;
            s.env.unsolicited_filters(&mut s.sim, 0);
            s.env.peers[0].server.tip = cur;
        }
        Op::RD => {}
    }
}

/// The block with the lowest number of an answer to GetBlocks (the client lists the hashes in hash-map order,
/// which differs from run to run: the three runs of an experiment must deliver the same block).
fn lowest_block(msgs: Vec<packed::SyncMessage>) -> Option<packed::SyncMessage> {
    msgs.into_iter().min_by_key(|m| match m.to_enum() {
        packed::SyncMessageUnion::SendBlock(sb) => Unpack::<u64>::unpack(&sb.block().header().raw().number()),
        _ => u64::MAX,
    })
}

enum Raw {
    /// notify(GET_BLOCK_FILTERS_TOKEN) of the filter protocol
    Tick,
    /// (peer, its server): the batch is built when the thread runs
    LazyFilters(PeerIndex, HonestPeer),
    Read(usize),
    Rpc(Vec<RpcScriptStatus>, Option<SetScriptsCommand>),
    Msg(Proto, PeerIndex, P2pBytes),
    Nothing,
}

/// The same operation as raw input (concurrent run).
fn raw(s: &mut Setup, op: Op) -> Raw {
    match op {
        // (a script that is not a prefix of another world script: the capacity is the sum over its own cells)
        Op::RD => Raw::Read(1 + s.ss.1[0].0 % 3),
        Op::TK => {
            // (as Env::filter_tick does: the re-ask window counts as elapsed)
            *s.sim.client_mut().filter.last_ask_time.write().unwrap() = None;
            Raw::Tick
        }
        Op::BX => {
            let mut server = s.env.peers[0].server.clone();
            server.tip = s.old_tip;
            Raw::LazyFilters(s.env.peers[0].idx, server)
        }
        Op::SS => {
            let (cmd, list) = s.ss.clone();
            let scripts: Vec<RpcScriptStatus> = list
                .iter()
                .map(|(sid, is_type, n)| RpcScriptStatus {
                    script: s.sim.chain.scripts[*sid].clone().into(),
                    script_type: if *is_type { RpcScriptType::Type } else { RpcScriptType::Lock },
                    block_number: (*n).into(),
                })
                .collect();
            let command = match cmd.as_str() {
                "all" => Some(SetScriptsCommand::All),
                "partial" => Some(SetScriptsCommand::Partial),
                _ => Some(SetScriptsCommand::Delete),
            };
            Raw::Rpc(scripts, command)
        }
        Op::BF => match peer_with(s, |x| matches!(sim::filter_request(x), Some(("filters", _)))) {
            Some(i) => {
                let p = s.env.peers[i].idx;
                let (_, start) = s.sim.take_request(p, |x| sim::filter_request(x).filter(|(k, _)| *k == "filters")).unwrap();
                match s.env.peers[i].server.block_filters(&s.sim.chain, start) {
                    Some(m) => Raw::Msg(Proto::Filter, p, m.as_bytes()),
                    None => Raw::Nothing,
                }
            }
            None => Raw::Nothing,
        },
        Op::BL => match peer_with(s, |x| sim::as_get_blocks(x).is_some()) {
            Some(i) => {
                let p = s.env.peers[i].idx;
                let req = s.sim.take_request(p, sim::as_get_blocks).unwrap();
                match lowest_block(s.env.peers[i].server.blocks(&s.sim.chain, &req)) {
                    Some(m) => Raw::Msg(Proto::Sync, p, m.as_bytes()),
                    None => Raw::Nothing,
                }
            }
            None => Raw::Nothing,
        },
        Op::FK => {
            let p = s.env.peers[s.fk].idx;
            match s.sim.take_request(p, sim::as_get_last_state_proof) {
                Some(req) => match s.env.peers[s.fk].server.plan_last_state_proof(&s.sim.chain, &req) {
                    Ok(Some(plan)) => {
                        let msg = packed::LightClientMessage::new_builder().set(HonestPeer::encode_plan(&s.sim.chain, &plan)).build();
                        Raw::Msg(Proto::Lc, p, msg.as_bytes())
                    }
                    _ => Raw::Nothing,
                },
                None => Raw::Nothing,
            }
        }
    }
}

static DEADLOCK_FILE: Mutex<Option<String>> = Mutex::new(None);
/// the lazily built operation had nothing to deliver (no handler was called)
static B_NOOP: std::sync::atomic::AtomicBool = std::sync::atomic::AtomicBool::new(false);

thread_local! {
    static ROLE: Cell<u8> = Cell::new(0);
}

#[derive(Default)]
struct Ctl {
    writes_a: usize,
    paused: bool,
    release: bool,
    a_done: bool,
    b_done: bool,
    /// label of the write (or read point) the first operation is suspended at
    label: String,
}

fn wait_until<F: Fn(&Ctl) -> bool>(ctl: &Arc<(Mutex<Ctl>, Condvar)>, f: F, ms: u64) -> bool {
    let (m, cv) = &**ctl;
    let g = m.lock().unwrap();
    let (g, _) = cv.wait_timeout_while(g, Duration::from_millis(ms), |c| !f(c)).unwrap();
    f(&g)
}

/// Runs A and B on two threads; A pauses before its k-th write (k = 0: never).  Returns (paused, blocked, deadlock).
fn run_concurrent(s: &mut Setup, a: Raw, b: Raw, k: usize, rd_out: &Arc<Mutex<Option<Value>>>) -> (bool, bool, bool, String) {
    let pause_kind: &'static str = if matches!(a, Raw::Read(_)) { "read" } else { "write" };
    let scripts_for_read: Vec<packed::Script> = s.sim.chain.scripts.clone();
    let chain_ids: HashMap<packed::Byte32, i64> = s.sim.chain.blocks.iter().map(|b| (b.header.hash(), b.id as i64 + 1)).collect();
    let ctl: Arc<(Mutex<Ctl>, Condvar)> = Arc::new((Mutex::new(Ctl::default()), Condvar::new()));
    {
        let ctl = Arc::clone(&ctl);
        crate::verif_hooks::set(Some(Arc::new(move |kind: &'static str, label: &str| {
            if kind != pause_kind || ROLE.with(|r| r.get()) != 1 {
                return;
            }
            let (m, cv) = &*ctl;
            let mut g = m.lock().unwrap();
            g.writes_a += 1;
            if g.writes_a == k {
                g.paused = true;
                g.label = label.to_owned();
                cv.notify_all();
                let _g = cv.wait_timeout_while(g, Duration::from_secs(20), |c| !c.release).unwrap();
            }
        })));
    }
    struct ChainPtr(*const crate::verif::world::SimChain);
    unsafe impl Send for ChainPtr {}
    let chain_ptr = ChainPtr(&s.sim.chain);
    let storage_for_lazy = s.sim.client().storage.clone();
    let cl = s.sim.client_mut();
    let rpc_a = cl.rpc_filter();
    let rpc_b = cl.rpc_filter();
    let (nc_lc, nc_filter, nc_sync) = (Arc::clone(&cl.nc_lc), Arc::clone(&cl.nc_filter), Arc::clone(&cl.nc_sync));
    let crate::verif::client::Client { lc, filter, sync, .. } = cl;
    let mut lc = Some(lc);
    let mut filter = Some(filter);
    let mut sync = Some(sync);
    let mut runner = |op: Raw, rpc: crate::service::BlockFilterRpcImpl| -> Box<dyn FnOnce() + Send + '_> {
        match op {
            Raw::Read(sid) => {
                let script = scripts_for_read[sid].clone();
                let ids = chain_ids.clone();
                let outp = Arc::clone(rd_out);
                Box::new(move || {
                    let key = crate::service::SearchKey { script: script.into(), ..Default::default() };
                    let r = crate::verif::client::guard_val(move || rpc.get_cells_capacity(key));
                    if let Ok(Ok(c)) = r {
                        let cap: u64 = c.capacity.into();
                        let num: u64 = c.block_number.into();
                        let tip = ids.get(&c.block_hash.pack()).cloned().unwrap_or(-1);
                        *outp.lock().unwrap() = Some(json!({"sk": 2 * (sid as i64 + 1), "cap": cap / 100_000_000, "tip": tip, "tipNum": num}));
                    }
                })
            }
            Raw::Rpc(scripts, cmd) => Box::new(move || {
                let _ = guard(|| {
                    let _ = rpc.set_scripts(scripts, cmd);
                });
            }),
            Raw::Msg(Proto::Lc, p, data) => {
                let h = lc.take().unwrap();
                let nc = Arc::clone(&nc_lc);
                Box::new(move || {
                    let _ = guard(|| block_on(h.received(nc, p, data)));
                })
            }
            Raw::Msg(Proto::Filter, p, data) => {
                let h = filter.take().unwrap();
                let nc = Arc::clone(&nc_filter);
                Box::new(move || {
                    let _ = guard(|| block_on(h.received(nc, p, data)));
                })
            }
            Raw::Tick => {
                let h = filter.take().unwrap();
                let nc = Arc::clone(&nc_filter);
                Box::new(move || {
                    let _ = guard(|| block_on(h.notify(nc, 0)));
                })
            }
            Raw::LazyFilters(p, server) => {
                let h = filter.take().unwrap();
                let nc = Arc::clone(&nc_filter);
                let storage = storage_for_lazy.clone();
                let cp = ChainPtr(chain_ptr.0);
                Box::new(move || {
                    let cp = cp;
                    let chain = unsafe { &*cp.0 };
                    let start = storage.get_min_filtered_block_number() + 1;
                    drop(storage);
                    if let Some(m) = server.block_filters(chain, start) {
                        let data = m.as_bytes();
                        let _ = guard(|| block_on(h.received(nc, p, data)));
                    } else {
                        B_NOOP.store(true, std::sync::atomic::Ordering::SeqCst);
                    }
                })
            }
            Raw::Msg(Proto::Sync, p, data) => {
                let h = sync.take().unwrap();
                let nc = Arc::clone(&nc_sync);
                Box::new(move || {
                    let _ = guard(|| block_on(h.received(nc, p, data)));
                })
            }
            _ => Box::new(|| {}),
        }
    };
    let fa = runner(a, rpc_a);
    let fb = runner(b, rpc_b);
    let mut result = (false, false, false);
    std::thread::scope(|scope| {
        let ca = Arc::clone(&ctl);
        let ha = scope.spawn(move || {
            ROLE.with(|r| r.set(1));
            fa();
            let (m, cv) = &*ca;
            m.lock().unwrap().a_done = true;
            cv.notify_all();
        });
        let reached = wait_until(&ctl, |c| c.paused || c.a_done, 15_000);
        let paused = ctl.0.lock().unwrap().paused;
        let cb = Arc::clone(&ctl);
        let hb = scope.spawn(move || {
            ROLE.with(|r| r.set(2));
            fb();
            let (m, cv) = &*cb;
            m.lock().unwrap().b_done = true;
            cv.notify_all();
        });
        let b_free = wait_until(&ctl, |c| c.b_done, 300);
        {
            let (m, cv) = &*ctl;
            m.lock().unwrap().release = true;
            cv.notify_all();
        }
        let a_ok = wait_until(&ctl, |c| c.a_done, 20_000);
        let b_ok = wait_until(&ctl, |c| c.b_done, 20_000);
        result = (paused, paused && !b_free, !(reached && a_ok && b_ok));
        if a_ok && b_ok {
            let _ = ha.join();
            let _ = hb.join();
        } else {
            // a thread is stuck for good: the process cannot go on
            eprintln!("DEADLOCK: threads did not finish");
            if let Some(path) = DEADLOCK_FILE.lock().unwrap().clone() {
                let _ = std::fs::write(path, json!({"ev": "Deadlock", "sc": "deadlock", "a": {"k": k, "a_done": a_ok, "b_done": b_ok}}).to_string() + "\n");
            }
            std::process::exit(3);
        }
    });
    crate::verif_hooks::set(None);
    let label = ctl.0.lock().unwrap().label.clone();
    (result.0, result.1, result.2, label)
}

fn count_writes<F: FnOnce()>(f: F) -> usize {
    let n = Arc::new(Mutex::new(0usize));
    {
        let n = Arc::clone(&n);
        crate::verif_hooks::set(Some(Arc::new(move |kind: &'static str, _l: &str| {
            if kind == "write" {
                *n.lock().unwrap() += 1;
            }
        })));
    }
    f();
    crate::verif_hooks::set(None);
    let v = *n.lock().unwrap();
    v
}

fn take_buf(s: &Setup) -> Vec<u8> {
    std::mem::take(&mut *s.buf.0.lock().unwrap())
}

/// What the three runs of an experiment must agree on before the operations fire: the state C17 compares
/// (Trace_FilterSync!Core) and the requests the operations answer.  Request bookkeeping that the client draws at
/// random (the sampled difficulties of a proof request) is left out.
fn core_state(s: &Setup) -> Value {
    let st = s.sim.state();
    let mut core = serde_json::Map::new();
    for k in ["scripts", "minF", "mdb", "mmem", "cells", "hist", "txs", "hdrs", "nums", "cpFinal", "tip", "tipTD", "lastN", "cached"] {
        core.insert(k.to_string(), st[k].clone());
    }
    let mut proved = serde_json::Map::new();
    if let Some(peers) = st["peer"].as_object() {
        for (p, v) in peers.iter() {
            proved.insert(p.clone(), json!([v["st"], v["proved"], v["pLastN"], v["last"], v["req"]["on"], v["req"]["last"], v["req"]["start"]]));
        }
    }
    core.insert("peer".to_string(), Value::Object(proved));
    core.insert("pf".to_string(), st["pf"].clone());
    let mut inbox: Vec<String> = s
        .sim
        .inbox
        .iter()
        .filter_map(|x| {
            if let Some((k, start)) = sim::filter_request(x) {
                Some(format!("{}:{}:{}", x.peer.value(), k, start))
            } else if let Some(r) = sim::as_get_blocks(x) {
                let mut ids: Vec<i64> = r.block_hashes().into_iter().map(|h| s.sim.chain.id_of(&h).map(|b| b as i64 + 1).unwrap_or(-1)).collect();
                ids.sort();
                Some(format!("{}:blocks:{:?}", x.peer.value(), ids))
            } else if sim::as_get_blocks_proof(x).is_some() {
                Some(format!("{}:bproof", x.peer.value()))
            } else if sim::as_get_last_state_proof(x).is_some() {
                Some(format!("{}:lsproof", x.peer.value()))
            } else {
                None
            }
        })
        .collect();
    inbox.sort();
    core.insert("inbox".to_string(), json!(inbox));
    Value::Object(core)
}

pub fn run(kv: &HashMap<String, String>) -> i32 {
    let seed = arg_u64(kv, "seed", 1);
    let n = arg_u64(kv, "n", 5) as usize;
    let maxk = arg_u64(kv, "maxk", 4) as usize;
    let path = arg_str(kv, "out", "/dev/stdout");
    *DEADLOCK_FILE.lock().unwrap() = Some(format!("{}.deadlock", path));
    let mut out = BufWriter::new(File::create(&path).expect("open out"));
    let mut rng = StdRng::seed_from_u64(seed);
    let race = arg_u64(kv, "race", 0) == 1;
    RACE.with(|r| r.set(race));
    let (mut experiments, mut discarded, mut lines, mut blocked_n, mut free_n) = (0u64, 0u64, 0u64, 0u64, 0u64);
    for sc in 0..n {
        let s_seed = seed.wrapping_mul(1_000_003).wrapping_add(sc as u64);
        // which operations does this history offer?
        let probe = setup(s_seed, "probe");
        let ops = available(&probe);
        if std::env::var("VERIF_DEBUG").is_ok() {
            let st = probe.sim.state();
            eprintln!("seed {} ops {:?} minF {} mdb {} mmem {} tip {} inbox {:?}", s_seed, ops, st["minF"], st["mdb"], st["mmem"], st["tip"],
                probe.sim.inbox.iter().map(|x| (x.peer.value(), sim::filter_request(x).map(|f| f.0).unwrap_or(if sim::as_get_blocks(x).is_some() { "blocks" } else if sim::as_get_blocks_proof(x).is_some() { "bproof" } else { "other" }))).collect::<Vec<_>>());
        }
        drop(probe);
        if ops.len() < 2 {
            continue;
        }
        for _pair in 0..arg_u64(kv, "pairs", 3) {
            let (a, b) = if ops.contains(&Op::FK) && (race || rng.gen_bool(0.3)) {
                // the fork switch suspended somewhere, a batch that fits the state it has left so far
                (Op::FK, Op::BX)
            } else if rng.gen_bool(0.25) {
                // the filters tick fires while a writer is suspended
                let writers: Vec<Op> = ops.iter().cloned().filter(|o| matches!(o, Op::BL | Op::SS | Op::FK)).collect();
                (writers[rng.gen_range(0..writers.len())], Op::TK)
            } else if rng.gen_bool(0.2) {
                // a reader paused after its snapshot while a writer runs
                let writers: Vec<Op> = ops.iter().cloned().filter(|o| *o != Op::SS).collect();
                if writers.is_empty() {
                    continue;
                }
                (Op::RD, writers[rng.gen_range(0..writers.len())])
            } else {
                let a = ops[rng.gen_range(0..ops.len())];
                let b = loop {
                    let x = ops[rng.gen_range(0..ops.len())];
                    if x != a {
                        break x;
                    }
                };
                (a, b)
            };
            // serial A;B (counting A's writes), serial B;A
            let exp = format!("{}-{}-{}-{}", s_seed, a.name(), b.name(), experiments);
            let mut s1 = setup(s_seed, &format!("conc-{}-ab", exp));
            let pre1 = core_state(&s1);
            s1.sim.step("ExpPre", json!({"exp": exp, "idx": 0}), |_| Ok(()));
            let w_a = if a == Op::RD { 2 } else { count_writes(|| fire(&mut s1, a)) };
            fire(&mut s1, b);
            s1.sim.step("ExpSerial", json!({"exp": exp, "order": [a.name(), b.name()]}), |_| Ok(()));
            let t1 = take_buf(&s1);
            drop(s1);
            let mut s2 = setup(s_seed, &format!("conc-{}-ba", exp));
            let pre2 = core_state(&s2);
            s2.sim.step("ExpPre", json!({"exp": exp, "idx": 1}), |_| Ok(()));
            // does B, run first, change anything?  (then its handler got past the early returns it has before it
            // takes the lock -- no scripts registered, unknown or unproven peer -- and needs the lock)
            let before_b = core_state(&s2);
            fire(&mut s2, b);
            let b_effective = core_state(&s2) != before_b;
            fire(&mut s2, a);
            s2.sim.step("ExpSerial", json!({"exp": exp, "order": [b.name(), a.name()]}), |_| Ok(()));
            let t2 = take_buf(&s2);
            drop(s2);
            if pre1 != pre2 {
                discarded += 1;
                if std::env::var("VERIF_DEBUG").is_ok() {
                    if let (Some(a), Some(b)) = (pre1.as_object(), pre2.as_object()) {
                        for (k, v) in a.iter() {
                            if b.get(k) != Some(v) {
                                eprintln!("DISCARD {} differs: {} | {}", k, v.to_string().chars().take(300).collect::<String>(), b.get(k).map(|x| x.to_string()).unwrap_or_default().chars().take(300).collect::<String>());
                            }
                        }
                    }
                }
                continue;
            }
            let mut emitted_serial = false;
            // the concurrent runs: A paused before its k-th write, for a sample of k (0 = B starts after A finished)
            let mut ks: Vec<usize> = (1..=w_a).collect();
            while ks.len() > maxk {
                let j = rng.gen_range(0..ks.len());
                ks.remove(j);
            }
            for k in ks {
                let mut s3 = setup(s_seed, &format!("conc-{}-k{}", exp, k));
                let pre3 = core_state(&s3);
                if pre3 != pre1 {
                    discarded += 1;
                    continue;
                }
                if !emitted_serial {
                    out.write_all(&t1).unwrap();
                    out.write_all(&t2).unwrap();
                    lines += (t1.iter().filter(|c| **c == b'\n').count() + t2.iter().filter(|c| **c == b'\n').count()) as u64;
                    emitted_serial = true;
                }
                s3.sim.step("ExpPre", json!({"exp": exp, "idx": 2}), |_| Ok(()));
                let ra = raw(&mut s3, a);
                let rb = raw(&mut s3, b);
                let rd_out: Arc<Mutex<Option<Value>>> = Arc::new(Mutex::new(None));
                // (the history offered the operation when it was probed; this run of it -- the client makes random
                //  choices -- may have nothing to deliver)
                B_NOOP.store(matches!(rb, Raw::Nothing), std::sync::atomic::Ordering::SeqCst);
                let (paused, blocked, deadlock, label) = run_concurrent(&mut s3, ra, rb, k, &rd_out);
                let b_noop = B_NOOP.load(std::sync::atomic::Ordering::SeqCst);
                if blocked {
                    blocked_n += 1;
                } else if paused {
                    free_n += 1;
                }
                let ev = if deadlock { "Deadlock" } else { "Concurrent" };
                let rd = rd_out.lock().unwrap().clone().unwrap_or(json!({"sk": 0, "cap": 0, "tip": 0, "tipNum": 0}));
                s3.sim.step(ev, json!({"exp": exp, "a": a.name(), "b": b.name(), "k": k, "paused": paused, "blocked": blocked, "bNoop": b_noop, "bEff": b_effective, "label": label, "rd": rd}), |_| Ok(()));
                let t3 = take_buf(&s3);
                lines += t3.iter().filter(|c| **c == b'\n').count() as u64;
                out.write_all(&t3).unwrap();
                experiments += 1;
            }
        }
    }
    out.flush().ok();
    eprintln!("concurrent experiments={} discarded={} lines={} b-blocked={} b-ran-while-a-paused={}", experiments, discarded, lines, blocked_n, free_n);
    0
}
