//! Driver for the per-peer sync state machine / tip properties (C01, C05, C11, C12, C15).
//! mode=honest : honest peers only, random event orders, growth, restarts, shallow forks
use crate::verif::client::Config;
use crate::verif::env::Env;
use crate::verif::gen::{self, ChainParams};
use crate::verif::sim::{new_sim, Sim};
use crate::verif::world::SimChain;
use crate::verif::{arg_str, arg_u64};
use rand::{rngs::StdRng, Rng, SeedableRng};
use serde_json::json;
use std::collections::HashMap;
use std::fs::File;
use std::io::BufWriter;

pub struct Built {
    pub chain: SimChain,
    /// leaves of the honest branches, main chain first
    pub leaves: Vec<usize>,
}

/// A main chain with `forks` side branches forking at most `max_depth` below the main tip region.
pub fn build_world(
    rng: &mut StdRng,
    pow: &str,
    main_len: usize,
    forks: usize,
    max_depth: usize,
    vary: bool,
) -> Built {
    build_world_act(rng, pow, main_len, forks, max_depth, vary, 0)
}

/// `act`: the epoch from which on headers carry the chain root of their parent (blocks up to the first block of
/// that epoch have no extension); the client must be configured with the same number.
pub fn build_world_act(
    rng: &mut StdRng,
    pow: &str,
    main_len: usize,
    forks: usize,
    max_depth: usize,
    vary: bool,
    act: u64,
) -> Built {
    let p = ChainParams {
        pow: pow.to_owned(),
        epoch_len: (2, if main_len > 200 { 40 } else { 6 }),
        vary_difficulty: vary,
    };
    let mut chain = SimChain::new(pow, &gen::default_scripts());
    chain.mmr_activated_epoch = act;
    let main = gen::extend(&mut chain, 0, main_len, &p, rng);
    let mut leaves = vec![main];
    for _ in 0..forks {
        let depth = rng.gen_range(1..=max_depth.max(1)).min(main_len.saturating_sub(1)).max(1);
        let main_num = chain.blocks[main].num;
        let fork_at = chain.ancestor_at(main, main_num - depth as u64).unwrap();
        let extra = rng.gen_range(0..=2usize);
        let leaf = gen::extend(&mut chain, fork_at, depth + extra, &p, rng);
        leaves.push(leaf);
    }
    Built { chain, leaves }
}

fn honest_scenario(rng: &mut StdRng, sc: usize, out: Box<dyn std::io::Write>, kv: &HashMap<String, String>) -> (Box<dyn std::io::Write>, u64, Vec<String>) {
    let pow = if rng.gen_bool(0.3) { "eaglesong" } else { "dummy" };
    let max_len = arg_u64(kv, "maxlen", 60) as usize;
    let main_len = rng.gen_range(1..=max_len);
    let last_n = *[1u64, 2, 3, 5, 10][..].get(rng.gen_range(0..5)).unwrap();
    let npeers = rng.gen_range(1..=3usize);
    // the RFC 44 activation epoch: from the start, or somewhere inside the chain (headers up to the first block of
    // that epoch carry no chain root; they appear as tips, samples, last-N and reorg headers all the same)
    let act = *[0u64, 0, 1, 2, 3, 5][..].get(rng.gen_range(0..6)).unwrap();
    // C05 is about forks shallower than last-N: every block above the lowest fork point must be
    // within last_n of it, whichever branch the client currently follows.
    let mut built;
    let mut tries = 0;
    loop {
        let forks = if main_len > 3 && last_n >= 2 { rng.gen_range(0..=2usize) } else { 0 };
        let forks = if tries > 20 { 0 } else { forks };
        built = build_world_act(rng, pow, main_len, forks, ((last_n as usize) / 2).max(1), true, act);
        tries += 1;
        let c = &built.chain;
        let lowest_fork = (0..c.blocks.len())
            .filter(|b| c.children_of(*b).len() > 1)
            .map(|b| c.blocks[b].num)
            .min();
        match lowest_fork {
            None => break,
            Some(g) => {
                if built.leaves.iter().all(|l| c.blocks[*l].num - g <= last_n) {
                    break;
                }
            }
        }
    }
    let cfg = Config {
        last_n,
        max_outbound: npeers as u32,
        mmr_activated_epoch: act,
        ..Default::default()
    };
    let mut leaves = built.leaves.clone();
    // "Forks shallower than last-N" restricts what is ABANDONED, not what is adopted: now and then a short side branch
    // forks far below the main tip.  A client that follows it first (a peer on it is proven first) later moves to the
    // main chain with a reorg section AND more than last-N unknown blocks (sampling).  The side branch is lighter than
    // the main chain one block above the reach of last-N, so nobody ever leaves the main chain for it from higher up.
    if last_n >= 2 && main_len as u64 > last_n + 4 && rng.gen_bool(0.35) {
        let main = built.leaves[0];
        let main_num = built.chain.blocks[main].num;
        let below = rng.gen_range((last_n + 2)..=(last_n + 12).min(main_num - 1));
        let g2 = main_num - below;
        let fork_at = built.chain.ancestor_at(main, g2).unwrap();
        let len = rng.gen_range(1..=last_n as usize);
        let p = ChainParams { pow: pow.to_owned(), epoch_len: (2, if main_len > 200 { 40 } else { 6 }), vary_difficulty: true };
        let s_leaf = gen::extend(&mut built.chain, fork_at, len, &p, rng);
        let guard = built.chain.ancestor_at(main, g2 + last_n + 1).unwrap();
        if built.chain.blocks[s_leaf].td < built.chain.blocks[guard].td {
            leaves.push(s_leaf);
        }
    }
    let mut sim: Sim = new_sim(built.chain, cfg, npeers, out, &format!("honest-{}", sc), vec!["peersync"]);
    // each peer follows one branch and starts somewhere below its leaf
    let tips: Vec<(usize, usize)> = (0..npeers)
        .map(|_| {
            let leaf = leaves[rng.gen_range(0..leaves.len())];
            let n = sim.chain.blocks[leaf].num;
            let start = rng.gen_range(1..=n);
            (sim.chain.ancestor_at(leaf, start).unwrap(), leaf)
        })
        .collect();
    let mut env = Env::new(&sim, &tips);
    sim.reset(json!({"mode": "honest"}));
    let steps = arg_u64(kv, "steps", 40);
    for _ in 0..steps {
        let i = rng.gen_range(0..npeers);
        match rng.gen_range(0..100) {
            0..=14 => {
                if !env.peers[i].connected {
                    env.connect(&mut sim, i)
                }
            }
            15..=17 => {
                if env.peers[i].connected {
                    env.disconnect(&mut sim, i)
                }
            }
            18..=37 => {
                if env.peers[i].connected {
                    env.send_last_state(&mut sim, i);
                    env.enforce_bans(&mut sim);
                }
            }
            38..=62 => {
                if env.peers[i].connected {
                    env.answer_proof(&mut sim, i);
                    env.enforce_bans(&mut sim);
                }
            }
            63..=77 => env.refresh(&mut sim),
            78..=87 => {
                // seconds around the documented limits: the refresh lag (8 s) and the message time-out (60 s)
                const SECS: [u64; 14] = [1, 7, 8, 9, 22, 30, 30, 30, 52, 59, 60, 61, 68, 69];
                if rng.gen_bool(0.5) {
                    sim.advance(1);
                } else {
                    sim.advance_secs(SECS[rng.gen_range(0..SECS.len())]);
                }
            }
            88..=95 => {
                let k = rng.gen_range(1..=3);
                env.grow(&sim, i, k);
            }
            96..=97 => sim.advance(3),
            _ => env.restart(&mut sim),
        }
    }
    // convergence phase: everybody grows to its leaf and answers everything
    for i in 0..npeers {
        env.grow(&sim, i, u64::MAX / 2);
    }
    let rounds = 4 * npeers + 6;
    let mut quiet = 0;
    let mut conv_bans = 0usize;
    for _ in 0..rounds {
        for i in 0..npeers {
            if !env.peers[i].connected {
                env.connect(&mut sim, i);
            }
            env.send_last_state(&mut sim, i);
        }
        // the refresh timer (8 s) fires well within one tick (30 s) of the announcements
        env.refresh(&mut sim);
        let mut any = false;
        for _ in 0..4 {
            for i in 0..npeers {
                while env.peers[i].connected && env.answer_proof(&mut sim, i) {
                    any = true;
                    conv_bans += sim.last_bans.len();
                    env.enforce_bans(&mut sim);
                }
            }
        }
        sim.advance(1);
        env.refresh(&mut sim);
        // a peer the client asked to drop is disconnected by the network layer
        let dropped = sim.last_drops.clone();
        for i in 0..npeers {
            if dropped.contains(&env.peers[i].idx) && env.peers[i].connected {
                env.disconnect(&mut sim, i);
                any = true;
            }
        }
        let _ = (any, &mut quiet);
    }
    // Quiescent: the stored tip must be a heaviest announced tip
    let tips_now: Vec<usize> = env.peers.iter().map(|p| p.server.tip + 1).collect();
    sim.step("Quiescent", json!({"tips": tips_now, "bans": conv_bans}), |_| Ok(()));
    let lines = sim.lines;
    let panics = sim.panics.clone();
    let out = std::mem::replace(&mut sim.out, Box::new(std::io::sink()));
    (out, lines, panics)
}

/// C12: after an honest sync the peer announces a self-made child of the proven tip whose chain
/// root claims an arbitrary total difficulty; then honest peers continue.
fn tip_scenario(rng: &mut StdRng, sc: usize, out: Box<dyn std::io::Write>, _kv: &HashMap<String, String>) -> (Box<dyn std::io::Write>, u64, Vec<String>) {
    let pow = if rng.gen_bool(0.5) { "eaglesong" } else { "dummy" };
    let main_len = rng.gen_range(4..=30usize);
    let last_n = *[2u64, 3, 5][..].get(rng.gen_range(0..3)).unwrap();
    let built = build_world(rng, pow, main_len, 0, 1, true);
    let cfg = Config { last_n, max_outbound: 2, ..Default::default() };
    let leaf = built.leaves[0];
    let mut sim: Sim = new_sim(built.chain, cfg, 2, out, &format!("tip-{}", sc), vec!["peersync"]);
    // peer 1 (deviating) and peer 2 (honest) both start a few blocks below the leaf
    let n = sim.chain.blocks[leaf].num;
    let start = sim.chain.ancestor_at(leaf, n.saturating_sub(rng.gen_range(1..=3)).max(1)).unwrap();
    // register the forged children before Reset so that the world in the trace contains them
    let honest_td = sim.chain.blocks[start].td.clone();
    let variants: Vec<ckb_types::U256> = vec![
        &honest_td - 1u32,
        &honest_td + 1u32,
        &honest_td * 2u32,
        ckb_types::U256::from(1u64 << 30),
    ];
    let claimed = variants[rng.gen_range(0..variants.len())].clone();
    let forged = sim.chain.forge_child(start, claimed);
    // a second forged child whose chain root claims what the FIRST forged child (announced, never proved) adds up to
    let two_step = rng.gen_bool(0.5);
    let forged2 = if two_step {
        let claimed2 = sim.chain.blocks[forged].td.clone();
        Some(sim.chain.forge_child(start, claimed2))
    } else {
        None
    };
    let mut env = Env::new(&sim, &[(start, leaf), (start, leaf)]);
    sim.reset(json!({"mode": "tip"}));
    // honest sync of both peers to `start`
    for i in 0..2 {
        env.connect(&mut sim, i);
        env.send_last_state(&mut sim, i);
        while env.answer_proof(&mut sim, i) {}
    }
    if rng.gen_bool(0.3) {
        env.restart(&mut sim);
        for i in 0..2 {
            env.connect(&mut sim, i);
            env.send_last_state(&mut sim, i);
            while env.answer_proof(&mut sim, i) {}
        }
    }
    // the deviating peer announces the forged child
    env.send_last_state_of(&mut sim, 0, forged);
    env.enforce_bans(&mut sim);
    if let Some(f2) = forged2 {
        if env.peers[0].connected {
            env.send_last_state_of(&mut sim, 0, f2);
            env.enforce_bans(&mut sim);
        }
    }
    if rng.gen_bool(0.5) {
        env.restart(&mut sim);
    }
    // the honest peer goes on
    for _ in 0..6 {
        if !env.peers[1].connected {
            env.connect(&mut sim, 1);
        }
        env.grow(&sim, 1, 2);
        env.send_last_state(&mut sim, 1);
        env.refresh(&mut sim);
        while env.peers[1].connected && env.answer_proof(&mut sim, 1) {
            env.enforce_bans(&mut sim);
        }
        sim.advance(1);
    }
    let tips_now: Vec<usize> = vec![env.peers[1].server.tip + 1];
    sim.step("Quiescent", json!({"tips": tips_now, "bans": 0}), |_| Ok(()));
    let lines = sim.lines;
    let panics = sim.panics.clone();
    let out = std::mem::replace(&mut sim.out, Box::new(std::io::sink()));
    (out, lines, panics)
}

/// C12: two branches of equal total difficulty.  Peer 1 is proven one block below the tip of branch F, peer 0
/// proves the tip of branch M (the stored tip), then peer 1 announces the child of its proven header: the tip
/// of F, exactly as heavy as the stored tip.  The stored tip must stay.
fn tipeq_scenario(rng: &mut StdRng, sc: usize, out: Box<dyn std::io::Write>, _kv: &HashMap<String, String>) -> (Box<dyn std::io::Write>, u64, Vec<String>) {
    let pow = if rng.gen_bool(0.3) { "eaglesong" } else { "dummy" };
    let main_len = rng.gen_range(5..=20usize);
    let last_n = *[2u64, 3, 5][..].get(rng.gen_range(0..3)).unwrap();
    let mut built = build_world(rng, pow, main_len, 0, 1, true);
    let leaf = built.leaves[0];
    let desc = |c: &SimChain, id: usize| {
        let b = &c.blocks[id];
        let e = b.header.epoch();
        (c.u(&b.diff), (e.number(), e.index(), e.length()))
    };
    let par = built.chain.blocks[leaf].parent.unwrap();
    let grand = built.chain.blocks[par].parent.unwrap();
    let (d1, e1) = desc(&built.chain, par);
    let (d2, e2) = desc(&built.chain, leaf);
    let a1 = built.chain.add_block(&crate::verif::world::WBlock { parent: grand as i64, diff: d1, epoch: e1, pow: true, root: true, txs: vec![] });
    let a2 = built.chain.add_block(&crate::verif::world::WBlock { parent: a1 as i64, diff: d2, epoch: e2, pow: true, root: true, txs: vec![] });
    let cfg = Config { last_n, max_outbound: 2, ..Default::default() };
    let mut sim: Sim = new_sim(built.chain, cfg, 2, out, &format!("tipeq-{}", sc), vec!["peersync"]);
    let mut env = Env::new(&sim, &[(grand, leaf), (grand, a2)]);
    sim.reset(json!({"mode": "tipeq"}));
    for i in 0..2 {
        env.connect(&mut sim, i);
        env.send_last_state(&mut sim, i);
        while env.answer_proof(&mut sim, i) {}
    }
    // peer 1 proves a1 -- or (every other scenario) stays proven at the common ancestor, so that the tip of F is not
    // a child of its proven header and has to be proved by a last-state proof: the commit of that proof, not the
    // child fast path, then meets a tip that is exactly as heavy as the stored one
    let via_proof = sc % 2 == 1;
    if !via_proof {
        env.grow(&sim, 1, 1);
        env.send_last_state(&mut sim, 1);
        env.refresh(&mut sim);
        while env.answer_proof(&mut sim, 1) {}
    }
    // peer 0 proves the main leaf: heavier, a fork of depth 1
    env.grow(&sim, 0, 2);
    env.send_last_state(&mut sim, 0);
    env.refresh(&mut sim);
    while env.answer_proof(&mut sim, 0) {}
    env.enforce_bans(&mut sim);
    // peer 1 announces the child of its proven header: as heavy as the stored tip
    if env.peers[1].connected {
        env.grow(&sim, 1, if via_proof { 2 } else { 1 });
        env.send_last_state(&mut sim, 1);
        env.refresh(&mut sim);
        while env.peers[1].connected && env.answer_proof(&mut sim, 1) {}
    }
    if rng.gen_bool(0.4) {
        env.restart(&mut sim);
    }
    let lines = sim.lines;
    let panics = sim.panics.clone();
    let out = std::mem::replace(&mut sim.out, Box::new(std::io::sink()));
    (out, lines, panics)
}

/// C01: in a state with an outstanding proof request every mutation of the honest answer is
/// delivered (the state must not change, the peer must be banned), then the honest answer.
fn mut_scenario(rng: &mut StdRng, sc: usize, out: Box<dyn std::io::Write>, kv: &HashMap<String, String>) -> (Box<dyn std::io::Write>, u64, Vec<String>) {
    use crate::verif::mutate::last_state_proof_mutants;
    use crate::verif::project::pname;
    use crate::verif::client::Proto;
    use ckb_types::prelude::*;
    let pow = if rng.gen_bool(0.4) { "eaglesong" } else { "dummy" };
    let last_n = *[1u64, 2, 3, 5][..].get(rng.gen_range(0..4)).unwrap();
    let main_len = rng.gen_range(3..=arg_u64(kv, "maxlen", 40) as usize);
    let with_fork = last_n >= 2 && main_len > 6 && rng.gen_bool(0.7);
    let built = build_world(rng, pow, main_len, if with_fork { 1 } else { 0 }, (last_n as usize).max(1), true);
    let cfg = Config { last_n, max_outbound: 2, ..Default::default() };
    let leaves = built.leaves.clone();
    let mut built = built;
    // a twin branch of every leaf: forks at the grandparent, same difficulties and epochs, other content --
    // the chain the cross-branch mutant proves
    for leaf in leaves.iter() {
        let desc = |c: &SimChain, id: usize| {
            let b = &c.blocks[id];
            let e = b.header.epoch();
            (c.u(&b.diff), (e.number(), e.index(), e.length()))
        };
        let par = built.chain.blocks[*leaf].parent;
        let grand = par.and_then(|p| built.chain.blocks[p].parent);
        if let (Some(par), Some(grand)) = (par, grand) {
            let (d1, e1) = desc(&built.chain, par);
            let (d2, e2) = desc(&built.chain, *leaf);
            let a1 = built.chain.add_block(&crate::verif::world::WBlock { parent: grand as i64, diff: d1, epoch: e1, pow: true, root: true, txs: vec![] });
            built.chain.add_block(&crate::verif::world::WBlock { parent: a1 as i64, diff: d2, epoch: e2, pow: true, root: true, txs: vec![] });
        }
    }
    let mut sim: Sim = new_sim(built.chain, cfg, 2, out, &format!("mut-{}", sc), vec!["peersync"]);
    let main = leaves[0];
    let n = sim.chain.blocks[main].num;
    // pre-state kinds: 0 first proof from genesis; 1 new proof after growth; 2 after restart; 3 reorg to the fork
    let kind = if with_fork && rng.gen_bool(0.6) { 3 } else { rng.gen_range(0..3) };
    let first_tip = if kind == 0 {
        main
    } else if kind == 3 && rng.gen_bool(0.8) {
        // a stored tip on the part of the main branch that the fork abandons, below the fork leaf's number: the
        // request then starts at a block the serving peer does not have and the answer carries a reorg section
        let fleaf = leaves[1];
        let fnum = sim.chain.blocks[fleaf].num;
        let mut common = fleaf;
        while sim.chain.ancestor_at(main, sim.chain.blocks[common].num) != Some(common) {
            common = sim.chain.blocks[common].parent.unwrap();
        }
        let lo = sim.chain.blocks[common].num + 1;
        let hi = n.min(fnum.saturating_sub(1));
        if lo <= hi { sim.chain.ancestor_at(main, rng.gen_range(lo..=hi)).unwrap() } else { sim.chain.ancestor_at(main, rng.gen_range(1..=n)).unwrap() }
    } else {
        sim.chain.ancestor_at(main, rng.gen_range(1..=n)).unwrap()
    };
    let target_leaf = if kind == 3 { leaves[1] } else { main };
    let mut env = Env::new(&sim, &[(first_tip, main), (first_tip, target_leaf)]);
    sim.reset(json!({"mode": "mut", "kind": kind}));
    env.connect(&mut sim, 0);
    env.send_last_state(&mut sim, 0);
    if kind != 0 {
        while env.answer_proof(&mut sim, 0) {}
        if kind == 2 {
            env.restart(&mut sim);
            env.connect(&mut sim, 0);
        }
        if kind == 3 {
            // peer 1 follows the fork branch
            let leaf = env.peers[1].leaf;
            env.peers[1].server.tip = leaf;
            env.connect(&mut sim, 1);
            env.send_last_state(&mut sim, 1);
        } else {
            env.grow(&sim, 0, u64::MAX / 2);
            env.send_last_state(&mut sim, 0);
            env.refresh(&mut sim);
        }
    }
    let who = if kind == 3 { 1 } else { 0 };
    let p = env.peers[who].idx;
    let maxmut = arg_u64(kv, "maxmut", 60) as usize;
    if let Some(req) = sim.take_request(p, crate::verif::sim::as_get_last_state_proof) {
        let server = env.peers[who].server.clone();
        if let Ok(Some(plan)) = server.plan_last_state_proof(&sim.chain, &req) {
            let total = plan.reorg.len() + plan.samples.len() + plan.last_n.len();
            // positions: first, last, first of each section, and a random one
            let mut pos = vec![0usize, total.saturating_sub(1), plan.reorg.len(), plan.reorg.len() + plan.samples.len()];
            if total > 0 {
                pos.push(rng.gen_range(0..total));
            }
            pos.sort();
            pos.dedup();
            let all = arg_u64(kv, "allpos", 0) == 1;
            let mut muts = last_state_proof_mutants(&sim.chain, &req, &plan, if all { None } else { Some(&pos) });
            // a seeded subset when there are too many
            while muts.len() > maxmut {
                let k = rng.gen_range(0..muts.len());
                if muts[k].label.starts_with("cross-branch") || muts[k].label.starts_with("reproved.reorg") {
                    continue;
                }
                muts.swap_remove(k);
            }
            for m in muts {
                let mut attrs = json!({"match": "ok", "root": "ok", "pow": "ok", "cont": "ok", "mmr": "ok", "tau": "ok", "td": "ok"});
                attrs[m.attr] = json!("bad");
                let mut args = Env::plan_args(&sim, p, &plan, &m.label, attrs);
                // the mutated header list is not chain-derived: the spec must not interpret it
                args["reorg"] = json!([]);
                args["samples"] = json!([]);
                args["lastn"] = json!([]);
                let bytes = m.msg.as_bytes();
                sim.step("Proof", args, |c| c.deliver(Proto::Lc, p, bytes));
            }
            // finally the honest answer: must still be accepted
            let msg = packed_msg(&sim, &plan);
            let args = Env::plan_args(&sim, p, &plan, "honest", crate::verif::env::true_attrs());
            sim.step("Proof", args, |c| c.deliver(Proto::Lc, p, msg));
        } else {
            sim.inbox.clear();
        }
    }
    let _ = pname(p);
    let lines = sim.lines;
    let panics = sim.panics.clone();
    let out = std::mem::replace(&mut sim.out, Box::new(std::io::sink()));
    (out, lines, panics)
}

/// C01: a deviating peer serves (by the honest algorithm) a heavier branch that contains one
/// unmined or non-committing block; an honest peer serves the main chain.
fn adv_scenario(rng: &mut StdRng, sc: usize, out: Box<dyn std::io::Write>, _kv: &HashMap<String, String>) -> (Box<dyn std::io::Write>, u64, Vec<String>) {
    use crate::verif::world::WBlock;
    let pow = if rng.gen_bool(0.7) { "eaglesong" } else { "dummy" };
    let last_n = *[2u64, 3, 5][..].get(rng.gen_range(0..3)).unwrap();
    let main_len = rng.gen_range(6..=30usize);
    let p = ChainParams { pow: pow.to_owned(), epoch_len: (3, 6), vary_difficulty: true };
    let mut chain = SimChain::new(pow, &gen::default_scripts());
    let main = gen::extend(&mut chain, 0, main_len, &p, rng);
    // the adversarial branch: forks `depth` below the main tip, is 1-2 blocks longer
    let depth = rng.gen_range(1..=(last_n as usize - 1).max(1)).min(main_len - 1);
    let fork_at = chain.ancestor_at(main, (main_len - depth) as u64).unwrap();
    let len = depth + rng.gen_range(1..=2usize);
    let flaw_pos = rng.gen_range(0..len);
    let unmined = pow == "eaglesong" && rng.gen_bool(0.6);
    let mut cur = fork_at;
    for k in 0..len {
        let (epoch, diff) = gen::next_epoch(&chain, cur, &p, rng);
        let flawed = k == flaw_pos;
        cur = chain.add_block(&WBlock {
            parent: cur as i64,
            diff,
            epoch,
            pow: !(flawed && unmined),
            root: !(flawed && !unmined),
            txs: vec![],
        });
    }
    let adv = cur;
    let cfg = Config { last_n, max_outbound: 2, ..Default::default() };
    let mut sim: Sim = new_sim(chain, cfg, 2, out, &format!("adv-{}", sc), vec!["peersync"]);
    let start = sim.chain.ancestor_at(main, rng.gen_range(1..=(main_len - depth) as u64)).unwrap();
    // staged: the deviating peer first shows a flawless prefix of its branch and moves on to the flawed part while
    // its answers are outstanding ("my tip is different" answers whose new last header is the flawed block)
    let staged = rng.gen_bool(0.5);
    let adv_first = if staged {
        // a block of the main branch above the fork point: the requested last header is then not on the chain the
        // peer serves later, which makes it answer "my tip is different" with the header of its (flawed) branch
        let lo = sim.chain.blocks[fork_at].num + 1;
        let hi = sim.chain.blocks[main].num;
        sim.chain.ancestor_at(main, rng.gen_range(lo..=hi)).unwrap()
    } else {
        adv
    };
    let mut env = Env::new(&sim, &[(adv_first, adv), (start, main)]);
    sim.reset(json!({"mode": "adv", "flaw": if unmined { "unmined" } else { "unrooted" }}));
    for _ in 0..14 {
        let i = rng.gen_range(0..2usize);
        match rng.gen_range(0..10) {
            0..=2 => {
                if !env.peers[i].connected {
                    env.connect(&mut sim, i);
                }
                env.send_last_state(&mut sim, i);
                env.enforce_bans(&mut sim);
            }
            3..=6 => {
                if env.peers[i].connected {
                    env.answer_proof(&mut sim, i);
                    env.enforce_bans(&mut sim);
                }
            }
            7 => {
                env.grow(&sim, 1, 3);
                env.grow(&sim, 0, rng.gen_range(1..=2));
            }
            8 => env.refresh(&mut sim),
            _ => {
                sim.advance(1);
                env.refresh(&mut sim);
            }
        }
    }
    let lines = sim.lines;
    let panics = sim.panics.clone();
    let out = std::mem::replace(&mut sim.out, Box::new(std::io::sink()));
    (out, lines, panics)
}

fn packed_msg(sim: &Sim, plan: &crate::verif::honest::ProofPlan) -> ckb_network::bytes::Bytes {
    use ckb_types::prelude::*;
    ckb_types::packed::LightClientMessage::new_builder()
        .set(crate::verif::honest::HonestPeer::encode_plan(&sim.chain, plan))
        .build()
        .as_bytes()
}


/// Specification -> implementation: the environment events of one behaviour of MC_PeerSyncR (TLC -simulate) are
/// executed on the real client.  The world has the shape of the model's world (block ids are the same): main
/// chain 1..7, a fork 8, 9 on block 5 whose tip is heavier, a forged child 10 of block 7, an unmined sibling 11
/// of block 7, the child 12 of the fork tip.  The client draws its own requests; an honest answer "from tip t"
/// is what the honest server with that tip answers to the request the client really sent; an answer that fails
/// check f is a mutant of that class of the honest answer.  Events the real state does not offer (no request
/// outstanding) are counted and skipped, never forced.  The recorded trace is judged by Trace_PeerSync.
fn replay_world(rng: &mut StdRng) -> SimChain {
    use crate::verif::world::WBlock;
    let p = ChainParams { pow: "dummy".to_owned(), epoch_len: (3, 3), vary_difficulty: false };
    let mut chain = SimChain::new("dummy", &gen::default_scripts());
    let main = gen::extend(&mut chain, 0, 6, &p, rng); // ids 1..6 (model 2..7)
    assert_eq!(main, 6);
    let f1 = gen::extend(&mut chain, 4, 1, &p, rng); // id 7 (model 8): sibling of model 6
    assert_eq!(f1, 7);
    // id 8 (model 9): heavier than the main tip
    let (epoch, diff) = gen::next_epoch(&chain, f1, &p, rng);
    let new_epoch = epoch.1 == 0;
    let f2 = chain.add_block(&WBlock { parent: f1 as i64, diff: if new_epoch { diff * 2 } else { diff }, epoch, pow: true, root: true, txs: vec![] });
    assert_eq!(f2, 8);
    // id 9 (model 10): forged child of the main tip with an inflated chain root
    let claimed = ckb_types::U256::from(1u64 << 20);
    let forged = chain.forge_child(main, claimed);
    assert_eq!(forged, 9);
    // id 10 (model 11): unmined sibling of the main tip
    let (epoch, diff) = gen::next_epoch(&chain, 5, &p, rng);
    let um = chain.add_block(&WBlock { parent: 5, diff, epoch, pow: false, root: true, txs: vec![] });
    assert_eq!(um, 10);
    let f3 = gen::extend(&mut chain, f2, 1, &p, rng); // id 11 (model 12)
    assert_eq!(f3, 11);
    chain
}

fn replay_scenario(events: &[serde_json::Value], sc: usize, out: Box<dyn std::io::Write>, skipped: &mut u64) -> (Box<dyn std::io::Write>, u64, Vec<String>) {
    use crate::verif::client::Proto;
    use crate::verif::mutate::last_state_proof_mutants;
    use ckb_types::prelude::*;
    let mut rng = StdRng::seed_from_u64(4242);
    let chain = replay_world(&mut rng);
    let cfg = Config { last_n: 2, max_outbound: 2, ..Default::default() };
    let mut sim: Sim = new_sim(chain, cfg, 2, out, &format!("replay-{}", sc), vec!["peersync"]);
    let mut env = Env::new(&sim, &[(6, 6), (6, 6)]);
    sim.reset(json!({"mode": "replay"}));
    // the last honest proof message delivered per peer (re-delivered as an answer nobody asked for)
    let mut last_proof: Vec<Option<(ckb_network::bytes::Bytes, serde_json::Value)>> = vec![None, None];
    for e in events {
        let k = e["k"].as_str().unwrap_or("");
        let i = match e["p"].as_str().unwrap_or("") { "p1" => 0usize, "p2" => 1usize, _ => 0usize };
        let b = e["b"].as_u64().unwrap_or(0) as usize;
        let x = e["x"].as_str().unwrap_or("");
        match k {
            "Connect" => {
                if !env.peers[i].connected { env.connect(&mut sim, i) } else { *skipped += 1 }
            }
            "Disconnect" => {
                if env.peers[i].connected { env.disconnect(&mut sim, i) } else { *skipped += 1 }
            }
            "Advance" => sim.advance(b as u64),
            "Refresh" => {
                env.refresh(&mut sim);
                // the network layer closes the sessions the client asked to close
                let dropped = sim.last_drops.clone();
                for j in 0..2 {
                    if dropped.contains(&env.peers[j].idx) && env.peers[j].connected {
                        env.disconnect(&mut sim, j);
                    }
                }
            }
            "LastState" => {
                if env.peers[i].connected && b >= 1 && b <= sim.chain.blocks.len() {
                    env.send_last_state_of(&mut sim, i, b - 1);
                    env.enforce_bans(&mut sim);
                } else {
                    *skipped += 1
                }
            }
            "Proof" => {
                if !env.peers[i].connected {
                    *skipped += 1;
                    continue;
                }
                let p = env.peers[i].idx;
                if x == "honest" {
                    env.peers[i].server.tip = b - 1;
                    // (remember the answer: the same bytes may come again later)
                    let req = sim.inbox.iter().find(|s| s.peer == p).and_then(crate::verif::sim::as_get_last_state_proof);
                    if let Some(req) = req {
                        if let Ok(Some(plan)) = env.peers[i].server.plan_last_state_proof(&sim.chain, &req) {
                            let msg = packed_msg(&sim, &plan);
                            let args = Env::plan_args(&sim, p, &plan, "honest", crate::verif::env::true_attrs());
                            last_proof[i] = Some((msg, args));
                        }
                    }
                    if !env.answer_proof(&mut sim, i) { *skipped += 1 }
                    env.enforce_bans(&mut sim);
                } else if x == "unsolicited" {
                    // an earlier (then honest) answer again, while the client has no request outstanding
                    let no_req = sim.client().peers.get_state(&p).map(|st| st.get_prove_request().is_none()).unwrap_or(false);
                    match (&last_proof[i], no_req) {
                        (Some((msg, args)), true) => {
                            let (msg, args) = (msg.clone(), args.clone());
                            sim.step("Proof", args, |c| c.deliver(Proto::Lc, p, msg));
                            env.enforce_bans(&mut sim);
                        }
                        _ => *skipped += 1,
                    }
                } else {
                    // a mutant of class x of the honest answer to the outstanding request
                    match sim.take_request(p, crate::verif::sim::as_get_last_state_proof) {
                        Some(req) => {
                            let last = sim.chain.id_of(&req.last_hash());
                            let mut server = env.peers[i].server.clone();
                            if let Some(l) = last { server.tip = l }
                            match server.plan_last_state_proof(&sim.chain, &req) {
                                Ok(Some(plan)) => {
                                    let muts = last_state_proof_mutants(&sim.chain, &req, &plan, None);
                                    let cand: Vec<_> = muts.into_iter().filter(|m| m.attr == x).collect();
                                    if cand.is_empty() {
                                        *skipped += 1;
                                    } else {
                                        let m = &cand[(sc + b) % cand.len()];
                                        let mut attrs = json!({"match": "ok", "root": "ok", "pow": "ok", "cont": "ok", "mmr": "ok", "tau": "ok", "td": "ok"});
                                        attrs[m.attr] = json!("bad");
                                        let mut args = Env::plan_args(&sim, p, &plan, &m.label, attrs);
                                        args["reorg"] = json!([]);
                                        args["samples"] = json!([]);
                                        args["lastn"] = json!([]);
                                        let bytes = m.msg.as_bytes();
                                        sim.step("Proof", args, |c| c.deliver(Proto::Lc, p, bytes));
                                        env.enforce_bans(&mut sim);
                                    }
                                }
                                _ => *skipped += 1,
                            }
                        }
                        None => *skipped += 1,
                    }
                }
            }
            "Restart" => env.restart(&mut sim),
            _ => *skipped += 1,
        }
        if !sim.panics.is_empty() {
            break;
        }
    }
    let lines = sim.lines;
    let panics = sim.panics.clone();
    let out = std::mem::replace(&mut sim.out, Box::new(std::io::sink()));
    (out, lines, panics)
}

/// mode=replay file=<REPLAY lines of tlc -simulate on MC_PeerSyncR, one JSON array per line>
fn run_replay(kv: &HashMap<String, String>) -> i32 {
    let path = arg_str(kv, "out", "/dev/stdout");
    let file = arg_str(kv, "file", "");
    let n = arg_u64(kv, "n", 100) as usize;
    let seed = arg_u64(kv, "seed", 1) as usize;
    let text = std::fs::read_to_string(&file).expect("read scenario file");
    let lines: Vec<&str> = text.lines().filter(|l| l.starts_with('[')).collect();
    let mut out: Box<dyn std::io::Write> = Box::new(BufWriter::new(File::create(&path).expect("open out")));
    let (mut total, mut skipped, mut done) = (0u64, 0u64, 0usize);
    let mut panics = Vec::new();
    // a seeded slice of the scenario file
    let m = lines.len().max(1);
    for k in 0..n.min(lines.len()) {
        let idx = (seed * 7919 + k * (m / n.max(1)).max(1)) % m;
        let events: Vec<serde_json::Value> = match serde_json::from_str(lines[idx]) {
            Ok(v) => v,
            Err(_) => continue,
        };
        let (o, l, p) = replay_scenario(&events, idx, out, &mut skipped);
        out = o;
        total += l;
        done += 1;
        panics.extend(p);
    }
    out.flush().ok();
    eprintln!("peersync mode=replay scenarios={} lines={} skipped_events={} panics={}", done, total, skipped, panics.len());
    0
}

pub fn run(kv: &HashMap<String, String>) -> i32 {
    if arg_str(kv, "mode", "honest") == "replay" {
        return run_replay(kv);
    }
    let seed = arg_u64(kv, "seed", 1);
    let n = arg_u64(kv, "n", 5) as usize;
    let mode = arg_str(kv, "mode", "honest");
    let path = arg_str(kv, "out", "/dev/stdout");
    let mut out: Box<dyn std::io::Write> = Box::new(BufWriter::new(File::create(&path).expect("open out")));
    let mut total = 0;
    let mut panics = Vec::new();
    for sc in 0..n {
        let mut rng = StdRng::seed_from_u64(seed.wrapping_mul(1_000_003).wrapping_add(sc as u64));
        let (o, lines, p) = match mode.as_str() {
            "honest" => honest_scenario(&mut rng, sc, out, kv),
            "tip" => tip_scenario(&mut rng, sc, out, kv),
            "tipeq" => tipeq_scenario(&mut rng, sc, out, kv),
            "mut" => mut_scenario(&mut rng, sc, out, kv),
            "adv" => adv_scenario(&mut rng, sc, out, kv),
            _ => {
                eprintln!("unknown mode {}", mode);
                return 2;
            }
        };
        out = o;
        total += lines;
        panics.extend(p);
    }
    out.flush().ok();
    eprintln!("peersync mode={} scenarios={} lines={} panics={}", mode, n, total, panics.len());
    0
}
