//! Driver for the per-peer sync state machine / tip properties (C01, C05, C11, C12, C15).
//! mode=honest : honest peers only, random event orders, growth, restarts, shallow forks
use crate::verif::client::Config;
use crate::verif::env::Env;
use crate::verif::gen::{self, ChainParams};
use crate::verif::sim::{new_sim, Sim};
use crate::verif::world::SimChain;
use crate::verif::{arg_str, arg_u64};
use rand::{rngs::StdRng, Rng, SeedableRng};
use serde_json::json;
use std::collections::HashMap;
use std::fs::File;
use std::io::BufWriter;

pub struct Built {
    pub chain: SimChain,
    /// leaves of the honest branches, main chain first
    pub leaves: Vec<usize>,
}

/// A main chain with `forks` side branches forking at most `max_depth` below the main tip region.
pub fn build_world(
    rng: &mut StdRng,
    pow: &str,
    main_len: usize,
    forks: usize,
    max_depth: usize,
    vary: bool,
) -> Built {
    let p = ChainParams {
        pow: pow.to_owned(),
        epoch_len: (2, if main_len > 200 { 40 } else { 6 }),
        vary_difficulty: vary,
    };
    let mut chain = SimChain::new(pow, &gen::default_scripts());
    let main = gen::extend(&mut chain, 0, main_len, &p, rng);
    let mut leaves = vec![main];
    for _ in 0..forks {
        let depth = rng.gen_range(1..=max_depth.max(1)).min(main_len.saturating_sub(1)).max(1);
        let main_num = chain.blocks[main].num;
        let fork_at = chain.ancestor_at(main, main_num - depth as u64).unwrap();
        let extra = rng.gen_range(0..=2usize);
        let leaf = gen::extend(&mut chain, fork_at, depth + extra, &p, rng);
        leaves.push(leaf);
    }
    Built { chain, leaves }
}

fn honest_scenario(rng: &mut StdRng, sc: usize, out: Box<dyn std::io::Write>, kv: &HashMap<String, String>) -> (Box<dyn std::io::Write>, u64, Vec<String>) {
    let pow = if rng.gen_bool(0.3) { "eaglesong" } else { "dummy" };
    let max_len = arg_u64(kv, "maxlen", 60) as usize;
    let main_len = rng.gen_range(1..=max_len);
    let last_n = *[1u64, 2, 3, 5, 10][..].get(rng.gen_range(0..5)).unwrap();
    let npeers = rng.gen_range(1..=3usize);
    // C05 is about forks shallower than last-N: every block above the lowest fork point must be
    // within last_n of it, whichever branch the client currently follows.
    let mut built;
    let mut tries = 0;
    loop {
        let forks = if main_len > 3 && last_n >= 2 { rng.gen_range(0..=2usize) } else { 0 };
        let forks = if tries > 20 { 0 } else { forks };
        built = build_world(rng, pow, main_len, forks, ((last_n as usize) / 2).max(1), true);
        tries += 1;
        let c = &built.chain;
        let lowest_fork = (0..c.blocks.len())
            .filter(|b| c.children_of(*b).len() > 1)
            .map(|b| c.blocks[b].num)
            .min();
        match lowest_fork {
            None => break,
            Some(g) => {
                if built.leaves.iter().all(|l| c.blocks[*l].num - g <= last_n) {
                    break;
                }
            }
        }
    }
    let cfg = Config {
        last_n,
        max_outbound: npeers as u32,
        ..Default::default()
    };
    let leaves = built.leaves.clone();
    let mut sim: Sim = new_sim(built.chain, cfg, npeers, out, &format!("honest-{}", sc), vec!["peersync"]);
    // each peer follows one branch and starts somewhere below its leaf
    let tips: Vec<(usize, usize)> = (0..npeers)
        .map(|_| {
            let leaf = leaves[rng.gen_range(0..leaves.len())];
            let n = sim.chain.blocks[leaf].num;
            let start = rng.gen_range(1..=n);
            (sim.chain.ancestor_at(leaf, start).unwrap(), leaf)
        })
        .collect();
    let mut env = Env::new(&sim, &tips);
    sim.reset(json!({"mode": "honest"}));
    let steps = arg_u64(kv, "steps", 40);
    for _ in 0..steps {
        let i = rng.gen_range(0..npeers);
        match rng.gen_range(0..100) {
            0..=14 => {
                if !env.peers[i].connected {
                    env.connect(&mut sim, i)
                }
            }
            15..=17 => {
                if env.peers[i].connected {
                    env.disconnect(&mut sim, i)
                }
            }
            18..=37 => {
                if env.peers[i].connected {
                    env.send_last_state(&mut sim, i);
                    env.enforce_bans(&mut sim);
                }
            }
            38..=62 => {
                if env.peers[i].connected {
                    env.answer_proof(&mut sim, i);
                    env.enforce_bans(&mut sim);
                }
            }
            63..=77 => env.refresh(&mut sim),
            78..=87 => {
                sim.advance(1);
            }
            88..=95 => {
                let k = rng.gen_range(1..=3);
                env.grow(&sim, i, k);
            }
            96..=97 => sim.advance(3),
            _ => env.restart(&mut sim),
        }
    }
    // convergence phase: everybody grows to its leaf and answers everything
    for i in 0..npeers {
        env.grow(&sim, i, u64::MAX / 2);
    }
    let rounds = 4 * npeers + 6;
    let mut quiet = 0;
    let mut conv_bans = 0usize;
    for _ in 0..rounds {
        for i in 0..npeers {
            if !env.peers[i].connected {
                env.connect(&mut sim, i);
            }
            env.send_last_state(&mut sim, i);
        }
        // the refresh timer (8 s) fires well within one tick (30 s) of the announcements
        env.refresh(&mut sim);
        let mut any = false;
        for _ in 0..4 {
            for i in 0..npeers {
                while env.peers[i].connected && env.answer_proof(&mut sim, i) {
                    any = true;
                    conv_bans += sim.last_bans.len();
                    env.enforce_bans(&mut sim);
                }
            }
        }
        sim.advance(1);
        env.refresh(&mut sim);
        // a peer the client asked to drop is disconnected by the network layer
        let dropped = sim.last_drops.clone();
        for i in 0..npeers {
            if dropped.contains(&env.peers[i].idx) && env.peers[i].connected {
                env.disconnect(&mut sim, i);
                any = true;
            }
        }
        let _ = (any, &mut quiet);
    }
    // Quiescent: the stored tip must be a heaviest announced tip
    let tips_now: Vec<usize> = env.peers.iter().map(|p| p.server.tip + 1).collect();
    sim.step("Quiescent", json!({"tips": tips_now, "bans": conv_bans}), |_| Ok(()));
    let lines = sim.lines;
    let panics = sim.panics.clone();
    let out = std::mem::replace(&mut sim.out, Box::new(std::io::sink()));
    (out, lines, panics)
}

/// C12: after an honest sync the peer announces a self-made child of the proven tip whose chain
/// root claims an arbitrary total difficulty; then honest peers continue.
fn tip_scenario(rng: &mut StdRng, sc: usize, out: Box<dyn std::io::Write>, _kv: &HashMap<String, String>) -> (Box<dyn std::io::Write>, u64, Vec<String>) {
    let pow = if rng.gen_bool(0.5) { "eaglesong" } else { "dummy" };
    let main_len = rng.gen_range(4..=30usize);
    let last_n = *[2u64, 3, 5][..].get(rng.gen_range(0..3)).unwrap();
    let built = build_world(rng, pow, main_len, 0, 1, true);
    let cfg = Config { last_n, max_outbound: 2, ..Default::default() };
    let leaf = built.leaves[0];
    let mut sim: Sim = new_sim(built.chain, cfg, 2, out, &format!("tip-{}", sc), vec!["peersync"]);
    // peer 1 (deviating) and peer 2 (honest) both start a few blocks below the leaf
    let n = sim.chain.blocks[leaf].num;
    let start = sim.chain.ancestor_at(leaf, n.saturating_sub(rng.gen_range(1..=3)).max(1)).unwrap();
    // register the forged children before Reset so that the world in the trace contains them
    let honest_td = sim.chain.blocks[start].td.clone();
    let variants: Vec<ckb_types::U256> = vec![
        &honest_td - 1u32,
        &honest_td + 1u32,
        &honest_td * 2u32,
        ckb_types::U256::from(1u64 << 30),
    ];
    let claimed = variants[rng.gen_range(0..variants.len())].clone();
    let forged = sim.chain.forge_child(start, claimed);
    let mut env = Env::new(&sim, &[(start, leaf), (start, leaf)]);
    sim.reset(json!({"mode": "tip"}));
    // honest sync of both peers to `start`
    for i in 0..2 {
        env.connect(&mut sim, i);
        env.send_last_state(&mut sim, i);
        while env.answer_proof(&mut sim, i) {}
    }
    if rng.gen_bool(0.3) {
        env.restart(&mut sim);
        for i in 0..2 {
            env.connect(&mut sim, i);
            env.send_last_state(&mut sim, i);
            while env.answer_proof(&mut sim, i) {}
        }
    }
    // the deviating peer announces the forged child
    env.send_last_state_of(&mut sim, 0, forged);
    env.enforce_bans(&mut sim);
    if rng.gen_bool(0.5) {
        env.restart(&mut sim);
    }
    // the honest peer goes on
    for _ in 0..6 {
        if !env.peers[1].connected {
            env.connect(&mut sim, 1);
        }
        env.grow(&sim, 1, 2);
        env.send_last_state(&mut sim, 1);
        env.refresh(&mut sim);
        while env.peers[1].connected && env.answer_proof(&mut sim, 1) {
            env.enforce_bans(&mut sim);
        }
        sim.advance(1);
    }
    let tips_now: Vec<usize> = vec![env.peers[1].server.tip + 1];
    sim.step("Quiescent", json!({"tips": tips_now, "bans": 0}), |_| Ok(()));
    let lines = sim.lines;
    let panics = sim.panics.clone();
    let out = std::mem::replace(&mut sim.out, Box::new(std::io::sink()));
    (out, lines, panics)
}

pub fn run(kv: &HashMap<String, String>) -> i32 {
    let seed = arg_u64(kv, "seed", 1);
    let n = arg_u64(kv, "n", 5) as usize;
    let mode = arg_str(kv, "mode", "honest");
    let path = arg_str(kv, "out", "/dev/stdout");
    let mut out: Box<dyn std::io::Write> = Box::new(BufWriter::new(File::create(&path).expect("open out")));
    let mut total = 0;
    let mut panics = Vec::new();
    for sc in 0..n {
        let mut rng = StdRng::seed_from_u64(seed.wrapping_mul(1_000_003).wrapping_add(sc as u64));
        let (o, lines, p) = match mode.as_str() {
            "honest" => honest_scenario(&mut rng, sc, out, kv),
            "tip" => tip_scenario(&mut rng, sc, out, kv),
            _ => {
                eprintln!("unknown mode {}", mode);
                return 2;
            }
        };
        out = o;
        total += lines;
        panics.extend(p);
    }
    out.flush().ok();
    eprintln!("peersync mode={} scenarios={} lines={} panics={}", mode, n, total, panics.len());
    0
}
