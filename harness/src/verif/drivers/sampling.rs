//! C15 driver: calls the real `build_prove_request_content(_from_genesis)` over a grid of
//! (blocks, lastN) rows with 2^64-scale numbers and 256-bit difficulties.
use crate::protocols::{LastState, LightClientProtocol, Peers, ProveRequest, ProveState};
use crate::storage::Storage;
use crate::verif::client::{fresh_dir, guard_val};
use crate::verif::world::load_consensus;
use crate::verif::{arg_str, arg_u64};
use ckb_network::PeerIndex;
use ckb_types::{
    core::{EpochNumberWithFraction, HeaderBuilder, HeaderView},
    packed,
    prelude::*,
    utilities::{difficulty_to_compact, merkle_mountain_range::VerifiableHeader},
    U256,
};
use rand::{rngs::StdRng, Rng, SeedableRng};
use serde_json::json;
use std::collections::HashMap;
use std::fs::File;
use std::io::{BufWriter, Write};
use std::sync::Arc;

fn rand_u256(rng: &mut StdRng, bits: u32) -> U256 {
    let mut v = U256::zero();
    for i in 0..4 {
        v.0[i] = rng.gen::<u64>();
    }
    if bits >= 256 {
        v
    } else {
        let shift = 256 - bits;
        let v = v >> shift;
        if v.is_zero() {
            U256::one()
        } else {
            v
        }
    }
}

fn header(number: u64, seed: u64) -> HeaderView {
    HeaderBuilder::default()
        .number(number.pack())
        .epoch(EpochNumberWithFraction::new((number / 1000) % (1 << 20), number % 1000, 1000).pack())
        .compact_target(difficulty_to_compact(U256::one()).pack())
        .timestamp(seed.pack())
        .build()
}

/// A verifiable header whose total difficulty is exactly `td` (td >= 1).
fn verifiable(number: u64, td: &U256, seed: u64) -> VerifiableHeader {
    let h = header(number, seed);
    let parent_td = td - 1u32;
    let root = packed::HeaderDigest::new_builder()
        .total_difficulty(parent_td.pack())
        .end_number(number.saturating_sub(1).pack())
        .build();
    VerifiableHeader::new(h, Default::default(), None, root)
}

pub fn run(kv: &HashMap<String, String>) -> i32 {
    let seed = arg_u64(kv, "seed", 1);
    let reps = arg_u64(kv, "n", 4);
    let path = arg_str(kv, "out", "/dev/stdout");
    let rows_path = concat!(env!("CARGO_MANIFEST_DIR"), "/../spec/sampling_rows.json");
    let rows: Vec<(u128, u128)> = {
        let v: serde_json::Value = serde_json::from_reader(File::open(rows_path).expect("rows")).unwrap();
        v.as_array()
            .unwrap()
            .iter()
            .map(|r| (r[0].as_u64().map(|x| x as u128).unwrap_or_else(|| r[0].as_f64().unwrap() as u128),
                      r[1].as_u64().unwrap() as u128))
            .collect()
    };
    let mut out = BufWriter::new(File::create(&path).expect("open out"));
    let mut rng = StdRng::seed_from_u64(seed);
    let consensus = load_consensus("dummy");
    let dir = fresh_dir("sampling");
    let storage = Storage::new(dir.to_str().unwrap());
    storage.init_genesis_block(consensus.genesis_block().data());
    let peers = Arc::new(Peers::new(1, 2000, storage.get_last_check_point()));
    let mut protocol = LightClientProtocol::new(storage.clone(), Arc::clone(&peers), consensus);
    let peer = PeerIndex::new(1);
    let mut lines = 0u64;
    let mut emit = |v: serde_json::Value, out: &mut BufWriter<File>| {
        writeln!(out, "{}", v).unwrap();
    };
    for (ri, (blocks, last_n)) in rows.iter().enumerate() {
        let (blocks, last_n) = (*blocks as u64, *last_n as u64);
        protocol.set_last_n_blocks(last_n);
        for rep in 0..reps {
            // numbers
            let start_num: u64 = match rng.gen_range(0..4) {
                0 => 1,
                1 => rng.gen_range(1..100_000),
                2 => rng.gen_range(1..(1u64 << 40)),
                _ => (1u64 << 63) - 5,
            };
            let last_num = match start_num.checked_add(blocks) {
                Some(v) => v,
                None => continue,
            };
            let small = last_num < (1 << 30) && last_n < (1 << 30);
            // difficulties
            let b1 = [8, 64, 128, 250][rng.gen_range(0..4)];
            let start_td = rand_u256(&mut rng, b1);
            let b2 = [40, 64, 128, 250][rng.gen_range(0..4)];
            let range = rand_u256(&mut rng, b2) + U256::from(blocks.min(1 << 62));
            let last_td = match start_td.checked_add(&range) {
                Some(v) => v,
                None => continue,
            };
            let with_prove_state = rng.gen_bool(0.5);
            let start_vh = verifiable(start_num, &start_td, rep);
            let last_vh = verifiable(last_num, &last_td, rep + 1000);
            // stored last-N headers (numbers below the start), only meaningful without overflow
            let stored: Vec<HeaderView> = if small && rng.gen_bool(0.7) {
                let k = rng.gen_range(0..=std::cmp::min(last_n, 6));
                (0..k)
                    .filter_map(|j| start_num.checked_sub(k - j))
                    .filter(|n| *n > 0)
                    .map(|n| header(n, 77))
                    .collect()
            } else {
                vec![]
            };
            storage.update_last_state(&start_td, &start_vh.header().data(), &stored);
            peers.add_peer(peer);
            let state = if with_prove_state {
                peers.mock_prove_state(peer, start_vh.clone()).expect("mock prove state");
                peers.get_state(&peer).unwrap()
            } else {
                peers.request_last_state(peer).unwrap();
                peers.update_last_state(peer, LastState::new(last_vh.clone())).unwrap();
                peers.get_state(&peer).unwrap()
            };
            let from_genesis = !with_prove_state && rng.gen_bool(0.2);
            // the from-genesis request (second turn of the long-fork detection) for a last header whose NUMBER is the
            // row's block count: it spans exactly the row's blocks from the genesis block and is judged like any other
            let last_vh_g = verifiable(blocks, &last_td, rep + 2000);
            let res = guard_val(|| {
                if from_genesis {
                    protocol.build_prove_request_content_from_genesis(&last_vh_g)
                } else {
                    protocol.build_prove_request_content(&state, &last_vh)
                }
            });
            let content = match res {
                Ok(c) => c,
                Err(msg) => {
                    emit(json!({"ev": "Panic", "sc": format!("sampling-{}", ri), "a": {"row": ri + 1, "msg": msg}}), &mut out);
                    lines += 1;
                    continue;
                }
            };
            let (exp_start_num, exp_start_td, exp_hash) = if from_genesis {
                (0u64, U256::zero(), storage.get_genesis_block().calc_header_hash())
            } else {
                (start_num, start_td.clone(), start_vh.header().hash())
            };
            let a = match content {
                None => json!({"row": ri + 1, "refuse": false, "none": true}),
                Some(c) => {
                    let bnd: U256 = c.difficulty_boundary().unpack();
                    let ds: Vec<U256> = c.difficulties().into_iter().map(|d| d.unpack()).collect();
                    // ranks of all values involved
                    let mut all: Vec<U256> = vec![exp_start_td.clone(), last_td.clone(), bnd.clone()];
                    all.extend(ds.iter().cloned());
                    all.sort();
                    all.dedup();
                    let rank = |v: &U256| all.binary_search(v).unwrap() as u64 + 1;
                    let req_start_num: u64 = c.start_number().unpack();
                    let idx: i64 = if c.start_hash() == exp_hash {
                        0
                    } else {
                        stored
                            .iter()
                            .position(|h| h.hash() == c.start_hash())
                            .map(|i| i as i64 + 1)
                            .unwrap_or(-1)
                    };
                    let num_ok = if idx > 0 {
                        req_start_num == stored[idx as usize - 1].number()
                    } else {
                        req_start_num == exp_start_num
                    };
                    // the from-genesis request on row (blocks, lastN) spans last_num blocks: only rows where
                    // that is the row's block count are judged by the table (start_num = 0 never drawn) -> skip
                    json!({
                        "row": ri + 1, "refuse": false, "none": false,
                        "startTd": rank(&exp_start_td), "lastTd": rank(&last_td), "bnd": rank(&bnd),
                        "ds": ds.iter().map(|d| rank(d)).collect::<Vec<_>>(),
                        "small": small && !from_genesis,
                        "startNum": if from_genesis { 0 } else if small { start_num } else { 0 }, "lastNum": if from_genesis { 0 } else if small { last_num } else { 0 },
                        "lastN": if small { last_n } else { 0 },
                        "stored": if from_genesis { vec![] } else { stored.iter().map(|h| h.number()).collect::<Vec<_>>() },
                        "reqStartIdx": idx, "reqStartNumOk": num_ok,
                        "tight": bnd == &exp_start_td + 1u32,
                        "genesis": from_genesis,
                    })
                }
            };
            emit(json!({"ev": "Req", "sc": format!("sampling-{}", ri), "a": a}), &mut out);
            lines += 1;
            // the must-refuse cases for the same parameters: start above last in difficulty / not below in number
            if rep == 0 {
                let higher = verifiable(start_num, &(&last_td + 1u32), 5);
                peers.add_peer(peer);
                peers.mock_prove_state(peer, higher).unwrap();
                let st = peers.get_state(&peer).unwrap();
                let r1 = guard_val(|| protocol.build_prove_request_content(&st, &last_vh));
                if let Ok(c) = r1 {
                    emit(json!({"ev": "Req", "sc": format!("sampling-{}", ri), "a": {"row": ri + 1, "refuse": true, "none": c.is_none(), "why": "start td above last td"}}), &mut out);
                    lines += 1;
                }
                let same_num = verifiable(last_num, &start_td, 6);
                peers.add_peer(peer);
                peers.mock_prove_state(peer, same_num).unwrap();
                let st = peers.get_state(&peer).unwrap();
                let r2 = guard_val(|| protocol.build_prove_request_content(&st, &last_vh));
                if let Ok(c) = r2 {
                    emit(json!({"ev": "Req", "sc": format!("sampling-{}", ri), "a": {"row": ri + 1, "refuse": true, "none": c.is_none(), "why": "start number not below last number"}}), &mut out);
                    lines += 1;
                }
            }
        }
    }
    out.flush().ok();
    drop(protocol);
    drop(storage);
    let _ = std::fs::remove_dir_all(dir);
    eprintln!("sampling rows={} lines={}", rows.len(), lines);
    let _ = (ProveRequest::new, ProveState::new_from_request);
    0
}
