//! C18: send_transaction / estimate_cycles admit only verifiable transactions; the pending pool is bounded
//! (oldest evicted first), reported as pending, and every pending hash is announced once per peer.
//!
//! A generated chain with always_success-locked cells is synchronised honestly; then transactions are
//! built on the cells the client knows (indexed cells, outputs of pending transactions): valid ones, chains
//! of dependent ones, and one-rule mutants (capacity, duplicated / unknown / out-of-range inputs, unknown
//! deps, immature since, a lock whose code is not there, no outputs).  Submissions (also repeated),
//! estimates, get_transaction, relay connects / disconnects / ticks and GetRelayTransactions are
//! interleaved at random; every call is one event with the projected pool (members and the peers each
//! hash was announced to), judged by Trace_TxPool.
use crate::service::{ChainRpc, Status as TxStatusKind, TransactionRpc};
use crate::verif::client::{guard, guard_val, Config, Proto};
use crate::verif::env::Env;
use crate::verif::gen;
use crate::verif::project::pname;
use crate::verif::sim::{new_sim, Sim};
use crate::verif::world::{SimChain, WScript, CODE_ALWAYS_SUCCESS};
use crate::verif::{arg_str, arg_u64};
use ckb_network::{multiaddr::Multiaddr, CKBProtocolHandler, PeerId, PeerIndex, SupportProtocols};
use ckb_types::{
    core::{Capacity, DepType, TransactionBuilder, TransactionView},
    packed::{self, CellDep, CellInput, CellOutput, OutPoint},
    prelude::*,
};
use rand::{rngs::StdRng, Rng, SeedableRng};
use serde_json::{json, Value};
use std::collections::HashMap;
use std::fs::File;
use std::io::{BufWriter, Write};

const CKB: u64 = 100_000_000;

struct NewTx {
    view: TransactionView,
    desc: Value,
}

struct Ctx18 {
    as_script: packed::Script,
    as_dep: OutPoint,
    world_ntx: usize,
    news: Vec<NewTx>,
    /// (current session, identity, name): a peer that reconnects gets a new session index but keeps its identity,
    /// and "announced to a given peer at most once" is about the identity
    relay_peers: Vec<(PeerIndex, PeerId, String)>,
}

fn refid(sim: &Sim, c: &Ctx18, h: &packed::Byte32) -> i64 {
    if let Some(i) = sim.chain.tx_id_of(h) {
        return i as i64 + 1;
    }
    if let Some(k) = c.news.iter().position(|n| &n.view.hash() == h) {
        return (c.world_ntx + k + 1) as i64;
    }
    0
}

/// A spendable always_success cell the client knows: (out point, capacity in CKB).
fn spendable(sim: &Sim, c: &Ctx18, rng: &mut StdRng, live: &[(usize, usize)]) -> Option<(OutPoint, u64)> {
    let mut cands: Vec<(OutPoint, u64)> = Vec::new();
    for (tid, o) in live {
        let tx = &sim.chain.txs[*tid].view;
        let out = tx.outputs().get(*o).unwrap();
        if out.lock().as_slice() == c.as_script.as_slice() && out.type_().is_none() {
            let cap: Capacity = out.capacity().unpack();
            cands.push((OutPoint::new(tx.hash(), *o as u32), cap.as_u64() / CKB));
        }
    }
    for n in c.news.iter() {
        for (o, out) in n.view.outputs().into_iter().enumerate() {
            if out.lock().as_slice() == c.as_script.as_slice() {
                let cap: Capacity = out.capacity().unpack();
                cands.push((OutPoint::new(n.view.hash(), o as u32), cap.as_u64() / CKB));
            }
        }
    }
    if cands.is_empty() {
        None
    } else {
        Some(cands[rng.gen_range(0..cands.len())].clone())
    }
}

fn build_new(sim: &Sim, c: &Ctx18, rng: &mut StdRng, live: &[(usize, usize)]) -> Option<NewTx> {
    let cls = match rng.gen_range(0..100) {
        0..=54 => "valid",
        55..=61 => "capacity",
        62..=66 => "dupinput",
        67..=72 => "unknown-input",
        73..=76 => "unknown-dep",
        77..=81 => "since",
        82..=87 => "script",
        88..=91 => "structure",
        92..=95 => "index",
        _ => "no-dep",
    };
    let nin = rng.gen_range(1..=2);
    let mut ins: Vec<(OutPoint, u64)> = Vec::new();
    for _ in 0..nin {
        if let Some(x) = spendable(sim, c, rng, live) {
            if !ins.iter().any(|(o, _)| o.as_slice() == x.0.as_slice()) {
                ins.push(x);
            }
        }
    }
    if ins.is_empty() {
        return None;
    }
    let total: u64 = ins.iter().map(|(_, c)| *c).sum();
    let mut b = TransactionBuilder::default();
    let mut desc_ins: Vec<Value> = Vec::new();
    for (op, _) in ins.iter() {
        let since: u64 = if cls == "since" { 1_000_000 } else { 0 }; // absolute block number far ahead
        b = b.input(CellInput::new(op.clone(), since));
        desc_ins.push(json!([refid(sim, c, &op.tx_hash()), Unpack::<u32>::unpack(&op.index())]));
    }
    match cls {
        "dupinput" => {
            let op = ins[0].0.clone();
            b = b.input(CellInput::new(op.clone(), 0));
            desc_ins.push(json!([refid(sim, c, &op.tx_hash()), Unpack::<u32>::unpack(&op.index())]));
        }
        "unknown-input" => {
            let mut h = [0u8; 32];
            rng.fill(&mut h);
            b = b.input(CellInput::new(OutPoint::new(h.pack(), 0), 0));
            desc_ins.push(json!([0, 0]));
        }
        "index" => {
            let op = OutPoint::new(ins[0].0.tx_hash(), 57);
            b = b.input(CellInput::new(op, 0));
            desc_ins.push(json!([refid(sim, c, &ins[0].0.tx_hash()), 57]));
        }
        "script" => {
            // a cell of a world script whose code is nowhere
            let other = live.iter().find(|(tid, o)| {
                let out = sim.chain.txs[*tid].view.outputs().get(*o).unwrap();
                out.lock().as_slice() != c.as_script.as_slice()
            });
            match other {
                Some((tid, o)) => {
                    let tx = &sim.chain.txs[*tid].view;
                    b = b.input(CellInput::new(OutPoint::new(tx.hash(), *o as u32), 0));
                    desc_ins.push(json!([*tid + 1, *o]));
                }
                None => return None,
            }
        }
        _ => {}
    }
    let mut desc_deps: Vec<Value> = Vec::new();
    match cls {
        "no-dep" => {}
        "unknown-dep" => {
            let mut h = [0u8; 32];
            rng.fill(&mut h);
            b = b.cell_dep(CellDep::new_builder().out_point(OutPoint::new(h.pack(), 0)).dep_type(DepType::Code.into()).build());
            desc_deps.push(json!([0, 0]));
        }
        _ => {
            b = b.cell_dep(CellDep::new_builder().out_point(c.as_dep.clone()).dep_type(DepType::Code.into()).build());
            desc_deps.push(json!([refid(sim, c, &c.as_dep.tx_hash()), Unpack::<u32>::unpack(&c.as_dep.index())]));
        }
    }
    // (capacity: one output that exceeds the inputs -- with two, the second could fall below the 62 CKB minimum
    //  and be left out, which made the rest fit the inputs again)
    let nout = if cls == "structure" { 0 } else if cls == "capacity" { let _ = rng.gen_range(1..=2usize); 1 } else { rng.gen_range(1..=2usize) };
    let mut left = if cls == "capacity" { total + rng.gen_range(1..50) } else { total };
    for k in 0..nout {
        let cap = if k + 1 == nout { left } else { (left / 2).max(62) };
        if cap < 62 || cap > left {
            break;
        }
        left -= cap;
        let out = CellOutput::new_builder().capacity(Capacity::bytes(cap as usize).unwrap().pack()).lock(c.as_script.clone()).build();
        b = b.output(out).output_data(packed::Bytes::default());
    }
    // uniqueness
    let tag: u64 = rng.gen();
    b = b.witness(tag.to_le_bytes().to_vec().pack());
    let view = b.build();
    let groups = 1; // one lock script group: always_success with the same args
    let desc = json!({"ins": desc_ins, "deps": desc_deps,
        "cls": match cls { "unknown-input" | "unknown-dep" | "index" => "valid", "no-dep" => "script", x => x },
        "why": cls, "nouts": view.outputs().len(), "groups": groups});
    Some(NewTx { view, desc })
}

/// The set of peers a pending hash has been announced to is keyed by whatever the implementation keys it by.
trait AnnKey {
    fn is_peer(&self, session: PeerIndex, id: &PeerId) -> bool;
}
impl AnnKey for PeerId {
    fn is_peer(&self, _session: PeerIndex, id: &PeerId) -> bool {
        self == id
    }
}
impl AnnKey for PeerIndex {
    fn is_peer(&self, session: PeerIndex, _id: &PeerId) -> bool {
        *self == session
    }
}

fn name_of(c: &Ctx18, session: PeerIndex) -> String {
    c.relay_peers.iter().find(|(p, _, _)| *p == session).map(|(_, _, n)| n.clone()).unwrap_or_else(|| pname(session))
}

fn pool_state(sim: &Sim, c: &Ctx18) -> Value {
    let pending = sim.client().pending.read().unwrap();
    let mut members = Vec::new();
    let mut ann = serde_json::Map::new();
    for (k, n) in c.news.iter().enumerate() {
        if let Some((_, _, peers)) = pending.get(&n.view.hash()) {
            let id = c.world_ntx + k + 1;
            members.push(id);
            let names: Vec<String> = c.relay_peers.iter().filter(|(p, pid, _)| peers.iter().any(|k| k.is_peer(*p, pid))).map(|(_, _, n)| n.clone()).collect();
            ann.insert(id.to_string(), json!(names));
        }
    }
    json!({"members": members, "ann": Value::Object(ann)})
}

fn relay_sent(sim: &mut Sim, c: &Ctx18) -> Value {
    // what the client sent on the relay protocol in this step
    let sent = sim.client().net.take_sent();
    let mut out = Vec::new();
    for s in sent {
        if s.proto != SupportProtocols::RelayV2.protocol_id() {
            continue;
        }
        if let Ok(msg) = packed::RelayMessageReader::from_compatible_slice(&s.data) {
            match msg.to_enum() {
                packed::RelayMessageUnionReader::RelayTransactionHashes(r) => {
                    let ids: Vec<i64> = r.tx_hashes().iter().map(|h| refid(sim, c, &h.to_entity())).collect();
                    out.push(json!({"to": name_of(c, s.peer), "kind": "hashes", "ts": ids}));
                }
                packed::RelayMessageUnionReader::RelayTransactions(r) => {
                    let ids: Vec<i64> = r.transactions().iter().map(|t| refid(sim, c, &t.transaction().to_entity().calc_tx_hash())).collect();
                    out.push(json!({"to": name_of(c, s.peer), "kind": "txs", "ts": ids}));
                }
                _ => out.push(json!({"to": name_of(c, s.peer), "kind": "other", "ts": []})),
            }
        }
    }
    json!(out)
}

fn scenario(rng: &mut StdRng, sc: usize, real_out: &mut dyn Write, kv: &HashMap<String, String>) -> (u64, Vec<String>) {
    let main_len = rng.gen_range(6..=arg_u64(kv, "maxlen", 12) as usize);
    let interval = 4u64;
    // world scripts: the usual ones plus always_success (twice as likely as a lock)
    let mut scripts = gen::default_scripts();
    scripts.push(WScript { code: CODE_ALWAYS_SUCCESS, hash_type: 0, args: vec![] });
    let p = gen::ChainParams { pow: "dummy".to_owned(), epoch_len: (3, 8), vary_difficulty: true };
    let mut chain = SimChain::new("dummy", &scripts);
    let mut tg = gen::TxGen::new(scripts.len(), 4);
    let leaf = gen::extend_with_txs(&mut chain, 0, main_len, &p, rng, &mut tg);
    let live: Vec<(usize, usize)> = tg.live_after.get(&leaf).cloned().unwrap_or_default();
    let limit = rng.gen_range(1..=4usize);
    let cfg = Config { last_n: 3, max_outbound: 1, interval, blocks_in_transit: 4, pending_limit: limit, ..Default::default() };
    let name = format!("txpool-{}", sc);
    let mut sim: Sim = new_sim(chain, cfg, 1, Box::new(std::io::sink()), &name, vec!["peersync", "filter"]);
    let mut env = Env::new(&sim, &[(leaf, leaf)]);
    sim.reset(json!({"mode": "txpool"}));
    let nscripts = sim.chain.scripts.len();
    let list: Vec<(usize, bool, u64)> = (0..nscripts).map(|s| (s, false, 0)).collect();
    env.set_scripts(&mut sim, "all", &list);
    for _ in 0..(main_len + 10) {
        super::filtersync::pump(&mut sim, &mut env, rng, interval);
    }
    // the genesis always_success cell
    let as_script = sim.chain.scripts[nscripts - 1].clone();
    let genesis_cb = sim.chain.txs[0].view.clone();
    let as_index = genesis_cb
        .outputs_data()
        .into_iter()
        .position(|d| d.raw_data().as_ref() == crate::verif::world::always_success_data())
        .expect("always_success cell in genesis");
    let relay_peers: Vec<(PeerIndex, PeerId, String)> = (0..3).map(|k| (PeerIndex::new(11 + k), PeerId::random(), pname(PeerIndex::new(11 + k)))).collect();
    let mut next_session = 20usize;
    for (p, pid, _) in relay_peers.iter() {
        let addr: Multiaddr = format!("/ip4/127.0.0.1/tcp/{}/p2p/{}", 9000 + p.value(), pid.to_base58()).parse().expect("multiaddr");
        sim.client().net.set_addr(*p, addr);
    }
    let mut c = Ctx18 {
        as_script,
        as_dep: OutPoint::new(genesis_cb.hash(), as_index as u32),
        world_ntx: sim.chain.txs.len(),
        news: Vec::new(),
        relay_peers,
    };
    // what the store holds: tx id -> number of outputs
    let st = sim.state();
    if std::env::var("VERIF_DEBUG").is_ok() {
        eprintln!("minF={} tip={} scripts={} leafnum={} txblocks={:?}", st["minF"], st["tip"], st["scripts"], sim.chain.blocks[leaf].num,
            sim.chain.txs.iter().map(|t| (t.id + 1, t.block)).collect::<Vec<_>>());
    }
    let mut stored = serde_json::Map::new();
    for e in st["txs"].as_array().unwrap() {
        let t = e[0].as_i64().unwrap();
        if t >= 1 {
            stored.insert(t.to_string(), json!(sim.chain.txs[t as usize - 1].view.outputs().len()));
        }
    }
    // genesis transactions are stored by the initialisation (number -1 in the projection's third column or not listed)
    for (i, t) in sim.chain.txs.iter().enumerate() {
        if t.block == 0 {
            stored.insert((i + 1).to_string(), json!(t.view.outputs().len()));
        }
    }
    let mut lines = 0u64;
    let mut panics: Vec<String> = Vec::new();
    let mut emit = |v: Value, lines: &mut u64| {
        let mut v = v;
        v["sc"] = json!(name.clone());
        writeln!(real_out, "{}", v).unwrap();
        *lines += 1;
    };
    let _ = sim.client().net.take_sent();
    emit(json!({"ev": "Reset", "limit": limit, "stored": Value::Object(stored), "peers": c.relay_peers.iter().map(|(_, _, n)| n.clone()).collect::<Vec<_>>(),
        "pool": pool_state(&sim, &c)}), &mut lines);
    let mut opened: Vec<PeerIndex> = Vec::new();
    let steps = arg_u64(kv, "steps", 120);
    for _ in 0..steps {
        if !panics.is_empty() {
            break;
        }
        let r = rng.gen_range(0..100);
        if r < 45 {
            // submit: a new transaction, or one seen before
            let k = if !c.news.is_empty() && rng.gen_bool(0.3) {
                rng.gen_range(0..c.news.len())
            } else {
                match build_new(&sim, &c, rng, &live) {
                    Some(n) => {
                        // (the hash does not cover the witnesses: the same cells spent the same way are the same transaction)
                        match c.news.iter().position(|x| x.view.hash() == n.view.hash()) {
                            Some(k) => k,
                            None => {
                                c.news.push(n);
                                c.news.len() - 1
                            }
                        }
                    }
                    None => continue,
                }
            };
            let tx = c.news[k].view.clone();
            let id = c.world_ntx + k + 1;
            let estimate = rng.gen_bool(0.25);
            let mut errmsg = String::new();
            let jtx: ckb_jsonrpc_types::Transaction = tx.data().into();
            let (res, cycles) = if estimate {
                let rpc = sim.client().rpc_chain();
                match guard_val(move || rpc.estimate_cycles(jtx)) {
                    Ok(Ok(e)) => ("ok", Into::<u64>::into(e.cycles)),
                    Ok(Err(e)) => {
                        errmsg = format!("{:?}", e);
                        ("err", 0)
                    }
                    Err(m) => {
                        panics.push(m);
                        ("panic", 0)
                    }
                }
            } else {
                let rpc = sim.client().rpc_tx();
                match guard_val(move || rpc.send_transaction(jtx)) {
                    Ok(Ok(_)) => ("ok", 0),
                    Ok(Err(e)) => {
                        errmsg = format!("{:?}", e);
                        ("err", 0)
                    }
                    Err(m) => {
                        panics.push(m);
                        ("panic", 0)
                    }
                }
            };
            if std::env::var("VERIF_DEBUG").is_ok() && res == "ok" && c.news[k].desc["cls"] == "capacity" {
                let outs: Vec<u64> = tx.outputs().into_iter().map(|o| Unpack::<Capacity>::unpack(&o.capacity()).as_u64()).collect();
                let mut ins: Vec<String> = Vec::new();
                for op in tx.input_pts_iter() {
                    let idx: u32 = op.index().unpack();
                    let src = c.news.iter().find(|n| n.view.hash() == op.tx_hash()).map(|n| n.view.clone())
                        .or_else(|| sim.chain.txs.iter().find(|t| t.view.hash() == op.tx_hash()).map(|t| t.view.clone()));
                    let cap = src.and_then(|v| v.outputs().get(idx as usize)).map(|o| Unpack::<Capacity>::unpack(&o.capacity()).as_u64());
                    ins.push(format!("{}#{}={:?}", refid(&sim, &c, &op.tx_hash()), idx, cap));
                }
                eprintln!("DEBUG capacity tx accepted: id {} ins {:?} outs {:?}", id, ins, outs);
            }
            let sent = relay_sent(&mut sim, &c);
            emit(json!({"ev": "Submit", "a": {"t": id, "kind": if estimate { "estimate" } else { "send" }, "desc": c.news[k].desc},
                "res": res, "cycles": cycles, "sent": sent, "pool": pool_state(&sim, &c), "err": errmsg.chars().take(160).collect::<String>()}), &mut lines);
        } else if r < 60 {
            // get_transaction of a submitted or a world transaction
            let (id, hash) = if !c.news.is_empty() && rng.gen_bool(0.8) {
                let k = rng.gen_range(0..c.news.len());
                (c.world_ntx + k + 1, c.news[k].view.hash())
            } else {
                let k = rng.gen_range(0..sim.chain.txs.len());
                (k + 1, sim.chain.txs[k].view.hash())
            };
            let rpc = sim.client().rpc_tx();
            let h: ckb_types::H256 = hash.unpack();
            // one call in three is made from another thread while this thread holds the WRITE lock of the pending pool
            // (what the relayer's announcement tick and a concurrent send_transaction do): the answer must still be
            // the pool's, the caller has to wait for the lock (seed C18-7)
            let locked = rng.gen_bool(0.33);
            let answer = if locked {
                let pend = std::sync::Arc::clone(&sim.client().pending);
                let g = pend.write().unwrap();
                let (txc, rxc) = std::sync::mpsc::channel();
                let th = std::thread::spawn(move || {
                    let _ = txc.send(guard_val(move || rpc.get_transaction(h)));
                });
                std::thread::sleep(std::time::Duration::from_millis(60));
                drop(g);
                let r = rxc.recv_timeout(std::time::Duration::from_secs(20));
                let _ = th.join();
                match r {
                    Ok(x) => x,
                    Err(_) => Err("get_transaction did not return after the pool lock was released".to_string()),
                }
            } else {
                guard_val(move || rpc.get_transaction(h))
            };
            match answer {
                Ok(Ok(tws)) => {
                    let status = match tws.tx_status.status {
                        TxStatusKind::Committed => "committed",
                        TxStatusKind::Pending => "pending",
                        _ => "unknown",
                    };
                    let cycles: u64 = tws.cycles.map(Into::into).unwrap_or(0);
                    emit(json!({"ev": "GetTx", "a": {"t": id}, "status": status, "cycles": cycles, "hasTx": tws.transaction.is_some(), "pool": pool_state(&sim, &c)}), &mut lines);
                }
                Ok(Err(_)) => emit(json!({"ev": "GetTx", "a": {"t": id}, "status": "error", "cycles": 0, "hasTx": false, "pool": pool_state(&sim, &c)}), &mut lines),
                Err(m) => panics.push(m),
            }
        } else if r < 72 {
            // a relay peer opens / closes the protocol
            let which = rng.gen_range(0..c.relay_peers.len());
            let (p, pid, name) = c.relay_peers[which].clone();
            if opened.contains(&p) {
                let cl = sim.client_mut();
                let nc = std::sync::Arc::clone(&cl.nc_relay);
                let r = guard(|| crate::verif::ctx::block_on(cl.relay.disconnected(nc, p)));
                if let Err(m) = r {
                    panics.push(m);
                }
                opened.retain(|q| *q != p);
                let sent = relay_sent(&mut sim, &c);
                emit(json!({"ev": "RelayDisconnect", "a": {"p": name}, "sent": sent, "pool": pool_state(&sim, &c)}), &mut lines);
            } else {
                // every other time the peer comes back on a NEW session (same identity)
                let p = if rng.gen_bool(0.5) {
                    let np = PeerIndex::new(next_session);
                    next_session += 1;
                    let addr: Multiaddr = format!("/ip4/127.0.0.1/tcp/{}/p2p/{}", 9000 + np.value(), pid.to_base58()).parse().expect("multiaddr");
                    sim.client().net.set_addr(np, addr);
                    c.relay_peers[which].0 = np;
                    np
                } else {
                    p
                };
                let cl = sim.client_mut();
                let nc = std::sync::Arc::clone(&cl.nc_relay);
                let r = guard(|| crate::verif::ctx::block_on(cl.relay.connected(nc, p, "verif")));
                if let Err(m) = r {
                    panics.push(m);
                }
                opened.push(p);
                let sent = relay_sent(&mut sim, &c);
                emit(json!({"ev": "RelayConnect", "a": {"p": name}, "sent": sent, "pool": pool_state(&sim, &c)}), &mut lines);
            }
        } else if r < 90 {
            if opened.is_empty() {
                continue; // with nobody opened the tick asks the network layer to open the protocol (not simulated)
            }
            let r = sim.client_mut().notify(Proto::Relay, 0);
            if let Err(m) = r {
                panics.push(m);
            }
            let sent = relay_sent(&mut sim, &c);
            emit(json!({"ev": "RelayTick", "a": {}, "sent": sent, "pool": pool_state(&sim, &c)}), &mut lines);
        } else {
            // GetRelayTransactions for some hashes
            if c.news.is_empty() {
                continue;
            }
            let (p, _, _) = c.relay_peers[rng.gen_range(0..c.relay_peers.len())].clone();
            let ks: Vec<usize> = (0..rng.gen_range(1..=3)).map(|_| rng.gen_range(0..c.news.len())).collect();
            let hashes: Vec<packed::Byte32> = ks.iter().map(|k| c.news[*k].view.hash()).collect();
            let content = packed::GetRelayTransactions::new_builder().tx_hashes(hashes.pack()).build();
            let msg = packed::RelayMessage::new_builder().set(content).build();
            let r = sim.client_mut().deliver(Proto::Relay, p, msg.as_bytes());
            if let Err(m) = r {
                panics.push(m);
            }
            let sent = relay_sent(&mut sim, &c);
            emit(json!({"ev": "GetRelayTxs", "a": {"p": name_of(&c, p), "ts": ks.iter().map(|k| c.world_ntx + k + 1).collect::<Vec<_>>()},
                "sent": sent, "pool": pool_state(&sim, &c)}), &mut lines);
        }
    }
    for m in panics.iter() {
        emit(json!({"ev": "Panic", "a": {"msg": m}}), &mut lines);
    }
    (lines, panics)
}

pub fn run(kv: &HashMap<String, String>) -> i32 {
    let seed = arg_u64(kv, "seed", 1);
    let n = arg_u64(kv, "n", 5) as usize;
    let path = arg_str(kv, "out", "/dev/stdout");
    let mut out = BufWriter::new(File::create(&path).expect("open out"));
    let mut total = 0;
    let mut panics = Vec::new();
    for sc in 0..n {
        let mut rng = StdRng::seed_from_u64(seed.wrapping_mul(1_000_003).wrapping_add(sc as u64));
        let (lines, p) = scenario(&mut rng, sc, &mut out, kv);
        total += lines;
        panics.extend(p);
    }
    out.flush().ok();
    eprintln!("txpool scenarios={} lines={} panics={}", n, total, panics.len());
    for p in panics.iter().take(10) {
        eprintln!("  panic: {}", p.chars().take(200).collect::<String>());
    }
    0
}
