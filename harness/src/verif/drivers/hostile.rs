//! C10: no message from a peer can terminate the client.
//!
//! An honest, fine-grained random history brings the client into some reachable state (peers with no state,
//! announced, requested, proved, with and without pending proof / filter / block / fetch requests); then byte
//! strings are delivered on the four protocols: random bytes, every kind of truncation / extension / union tag
//! swap / boundary-value window of honest messages (answers to the requests that are outstanding right now,
//! messages seen earlier, fresh announcements), and re-sealed headers whose numeric fields and parent chain root
//! carry boundary values (accepted as last state under the Dummy PoW, so that the next ticks and proofs work on
//! them).  Every delivery and tick is one event of the trace; a panic is logged as a Panic event.
use crate::verif::client::{Config, Proto};
use crate::verif::env::Env;
use crate::verif::honest::HonestPeer;
use crate::verif::project::pname;
use crate::verif::sim::{self, new_sim, Sim};
use crate::verif::{arg_str, arg_u64};
use ckb_network::{bytes::Bytes as P2pBytes, PeerIndex, SupportProtocols};
use ckb_types::{core::EpochNumberWithFraction, packed, prelude::*, U256};
use rand::{rngs::StdRng, Rng, SeedableRng};
use serde_json::json;
use std::collections::HashMap;
use std::fs::File;
use std::io::BufWriter;

fn proto_name(p: Proto) -> &'static str {
    match p {
        Proto::Lc => "lc",
        Proto::Filter => "filter",
        Proto::Sync => "sync",
        Proto::Relay => "relay",
    }
}

fn proto_of(id: ckb_network::ProtocolId) -> Option<Proto> {
    if id == SupportProtocols::LightClient.protocol_id() {
        Some(Proto::Lc)
    } else if id == SupportProtocols::Filter.protocol_id() {
        Some(Proto::Filter)
    } else if id == SupportProtocols::Sync.protocol_id() {
        Some(Proto::Sync)
    } else if id == SupportProtocols::RelayV2.protocol_id() {
        Some(Proto::Relay)
    } else {
        None
    }
}

const U64_BOUNDS: [u64; 7] = [0, 1, 2, u32::MAX as u64, u32::MAX as u64 + 1, u64::MAX - 1, u64::MAX];

fn u256_bound(rng: &mut StdRng) -> U256 {
    match rng.gen_range(0..6) {
        0 => U256::zero(),
        1 => U256::one(),
        2 => U256::from(u64::MAX),
        3 => U256::max_value(),
        4 => U256::max_value() - U256::one(),
        _ => U256::one() << 255u8,
    }
}

fn epoch_bound(rng: &mut StdRng) -> u64 {
    match rng.gen_range(0..8) {
        0 => 0,
        1 => u64::MAX,
        2 => EpochNumberWithFraction::new_unchecked(0, 0, 0).full_value(),
        3 => EpochNumberWithFraction::new_unchecked(1, 5, 0).full_value(),
        4 => EpochNumberWithFraction::new_unchecked(1, 9, 3).full_value(), // index >= length
        5 => EpochNumberWithFraction::new_unchecked(0xFF_FFFF, 0xFFFF, 0xFFFF).full_value(),
        6 => EpochNumberWithFraction::new_unchecked(rng.gen_range(0..5), 0, 1).full_value(),
        _ => EpochNumberWithFraction::new_unchecked(rng.gen_range(0..0xFF_FFFF), rng.gen_range(0..10), rng.gen_range(1..10)).full_value(),
    }
}

fn compact_bound(rng: &mut StdRng) -> u32 {
    *[0u32, 1, 0x0100_0000, 0x2001_0000, 0x20ff_ffff, 0x1d00_ffff, 0xff00_0001, u32::MAX][..]
        .get(rng.gen_range(0..8))
        .unwrap()
}

/// A header with boundary values in some numeric fields, its parent chain root likewise, re-sealed: the
/// extension commits to the (altered) chain root and the extra hash to the extension, so that the header
/// passes `is_valid` (and the PoW check of the Dummy engine).
pub fn resealed(vh: &packed::VerifiableHeader, rng: &mut StdRng, fields: usize) -> packed::VerifiableHeader {
    let mut raw = vh.header().raw().as_builder();
    let mut root = vh.parent_chain_root().as_builder();
    for _ in 0..fields {
        match rng.gen_range(0..14) {
            0 => raw = raw.number(U64_BOUNDS[rng.gen_range(0..U64_BOUNDS.len())].pack()),
            1 => raw = raw.epoch(epoch_bound(rng).pack()),
            2 => raw = raw.compact_target(compact_bound(rng).pack()),
            3 => raw = raw.timestamp(U64_BOUNDS[rng.gen_range(0..U64_BOUNDS.len())].pack()),
            4 => raw = raw.version(([0u32, 1, u32::MAX][rng.gen_range(0..3)]).pack()),
            5 => root = root.total_difficulty(u256_bound(rng).pack()),
            6 => root = root.start_number(U64_BOUNDS[rng.gen_range(0..U64_BOUNDS.len())].pack()),
            7 => root = root.end_number(U64_BOUNDS[rng.gen_range(0..U64_BOUNDS.len())].pack()),
            8 => root = root.start_epoch(epoch_bound(rng).pack()),
            9 => root = root.end_epoch(epoch_bound(rng).pack()),
            10 => root = root.start_compact_target(compact_bound(rng).pack()),
            11 => root = root.end_compact_target(compact_bound(rng).pack()),
            12 => root = root.start_timestamp(U64_BOUNDS[rng.gen_range(0..U64_BOUNDS.len())].pack()),
            _ => root = root.end_timestamp(U64_BOUNDS[rng.gen_range(0..U64_BOUNDS.len())].pack()),
        }
    }
    let root = root.build();
    // extension = hash of the chain root (+ whatever followed it)
    let old_ext = vh.extension().to_opt().map(|b| b.raw_data().to_vec()).unwrap_or_default();
    let mut ext = root.calc_mmr_hash().as_slice().to_vec();
    if old_ext.len() > 32 {
        ext.extend_from_slice(&old_ext[32..]);
    }
    let ext_bytes: packed::Bytes = ext.pack();
    let extra_hash = {
        let uncles_hash = vh.uncles_hash();
        let ext_hash = ext_bytes.calc_raw_data_hash();
        let mut buf = [0u8; 64];
        buf[..32].copy_from_slice(uncles_hash.as_slice());
        buf[32..].copy_from_slice(ext_hash.as_slice());
        ckb_hash::blake2b_256(buf)
    };
    let raw = raw.extra_hash(extra_hash.pack()).build();
    let header = vh.header().as_builder().raw(raw).build();
    vh.clone()
        .as_builder()
        .header(header)
        .extension(packed::BytesOpt::new_builder().set(Some(ext_bytes)).build())
        .parent_chain_root(root)
        .build()
}

fn window(bytes: &[u8], rng: &mut StdRng) -> Vec<u8> {
    let mut v = bytes.to_vec();
    if v.is_empty() {
        return v;
    }
    let w = *[1usize, 2, 4, 8, 16, 32][..].get(rng.gen_range(0..6)).unwrap();
    let w = w.min(v.len());
    // aligned to 4 most of the time: molecule offsets and fixed-size fields
    let mut pos = rng.gen_range(0..=(v.len() - w));
    if rng.gen_bool(0.7) {
        pos -= pos % 4;
    }
    let pat = rng.gen_range(0..6);
    for k in 0..w {
        v[pos + k] = match pat {
            0 => 0,
            1 => 0xFF,
            2 => {
                if k == 0 {
                    1
                } else {
                    0
                }
            }
            3 => {
                if k < 4 {
                    0xFF
                } else {
                    0
                }
            }
            4 => {
                if k + 1 == w {
                    0x80
                } else {
                    0
                }
            }
            _ => rng.gen(),
        };
    }
    v
}

/// A molecule table with `extras` appended as additional fields (total size and offsets rewritten).
fn table_with_extra_fields(table: &[u8], extras: &[Vec<u8>]) -> Vec<u8> {
    let rd = |i: usize| u32::from_le_bytes([table[i], table[i + 1], table[i + 2], table[i + 3]]) as usize;
    let first = rd(4);
    let n = first / 4 - 1;
    let mut offsets: Vec<usize> = (0..n).map(|k| rd(4 + 4 * k)).collect();
    let body = &table[first..];
    let shift = 4 * extras.len();
    for o in offsets.iter_mut() {
        *o += shift;
    }
    let mut end = table.len() + shift;
    let mut tail = Vec::new();
    for e in extras {
        offsets.push(end);
        end += e.len();
        tail.extend_from_slice(e);
    }
    let mut out = Vec::with_capacity(end);
    out.extend_from_slice(&(end as u32).to_le_bytes());
    for o in offsets {
        out.extend_from_slice(&(o as u32).to_le_bytes());
    }
    out.extend_from_slice(body);
    out.extend_from_slice(&tail);
    out
}

fn mutate_bytes(bytes: &[u8], rng: &mut StdRng) -> (String, Vec<u8>) {
    match rng.gen_range(0..100) {
        0..=9 => {
            let cut = if bytes.is_empty() { 0 } else { rng.gen_range(0..bytes.len()) };
            (format!("trunc@{}", cut), bytes[..cut].to_vec())
        }
        10..=14 => {
            let mut v = bytes.to_vec();
            let extra = rng.gen_range(1..40);
            for _ in 0..extra {
                v.push(rng.gen());
            }
            ("extend".into(), v)
        }
        15..=21 => {
            // union item id
            let mut v = bytes.to_vec();
            if v.len() >= 4 {
                let id: u32 = if rng.gen_bool(0.8) { rng.gen_range(0..12) } else { u32::MAX };
                v[..4].copy_from_slice(&id.to_le_bytes());
            }
            ("tag".into(), v)
        }
        22..=26 => {
            // drop a slice from the middle
            let mut v = bytes.to_vec();
            if v.len() > 8 {
                let a = rng.gen_range(4..v.len() - 1);
                let b = rng.gen_range(a..v.len()).min(a + 64);
                v.drain(a..b);
            }
            ("cut-middle".into(), v)
        }
        27..=30 => {
            // the leading total-size field of the union's item
            let mut v = bytes.to_vec();
            if v.len() >= 8 {
                let sz: u32 = *[0u32, 4, 8, v.len() as u32, v.len() as u32 - 4, v.len() as u32 + 1, u32::MAX][..].get(rng.gen_range(0..7)).unwrap();
                v[4..8].copy_from_slice(&sz.to_le_bytes());
            }
            ("size".into(), v)
        }
        _ => {
            let mut v = window(bytes, rng);
            if rng.gen_bool(0.3) {
                v = window(&v, rng);
            }
            ("window".into(), v)
        }
    }
}

/// Honest answer to the oldest outstanding request of peer i (the request stays outstanding).
fn live_answer(sim: &Sim, env: &Env, i: usize, interval: u64) -> Option<(Proto, &'static str, Vec<u8>)> {
    let p = env.peers[i].idx;
    let server: &HonestPeer = &env.peers[i].server;
    for s in sim.inbox.iter().filter(|s| s.peer == p) {
        if let Some(req) = sim::as_get_last_state_proof(s) {
            if let Ok(Some(plan)) = server.plan_last_state_proof(&sim.chain, &req) {
                let msg = packed::LightClientMessage::new_builder()
                    .set(HonestPeer::encode_plan(&sim.chain, &plan))
                    .build();
                return Some((Proto::Lc, "SendLastStateProof", msg.as_slice().to_vec()));
            }
        }
        if let Some(req) = sim::as_get_blocks_proof(s) {
            let msg = server.blocks_proof(&sim.chain, &req);
            return Some((Proto::Lc, "SendBlocksProof", msg.as_slice().to_vec()));
        }
        if let Some(req) = sim::as_get_txs_proof(s) {
            let msg = server.txs_proof(&sim.chain, &req);
            return Some((Proto::Lc, "SendTransactionsProof", msg.as_slice().to_vec()));
        }
        if let Some(req) = sim::as_get_blocks(s) {
            if let Some(m) = server.blocks(&sim.chain, &req).into_iter().next() {
                return Some((Proto::Sync, "SendBlock", m.as_slice().to_vec()));
            }
        }
        if let Some((kind, start)) = sim::filter_request(s) {
            let msg = match kind {
                "filters" => server.block_filters(&sim.chain, start),
                "hashes" => server.block_filter_hashes(&sim.chain, start),
                _ => server.block_filter_check_points(&sim.chain, start, interval),
            };
            if let Some(m) = msg {
                let name = match kind {
                    "filters" => "BlockFilters",
                    "hashes" => "BlockFilterHashes",
                    _ => "BlockFilterCheckPoints",
                };
                return Some((Proto::Filter, name, m.as_slice().to_vec()));
            }
        }
    }
    None
}

/// The honest answer with some verifiable headers re-sealed around boundary values: the chain root check (and
/// the Dummy PoW) still pass, the arithmetic behind them sees the numbers.
fn reseal_live(bytes: &[u8], rng: &mut StdRng, reorg_hint: Option<(u64, u64)>) -> Vec<u8> {
    let msg = match packed::LightClientMessage::from_slice(bytes) {
        Ok(m) => m,
        Err(_) => return bytes.to_vec(),
    };
    let out: packed::LightClientMessage = match msg.to_enum() {
        packed::LightClientMessageUnion::SendLastStateProof(c) => {
            let mut hs: Vec<packed::VerifiableHeader> = c.headers().into_iter().collect();
            let k = rng.gen_range(1..=2usize);
            for _ in 0..k {
                if !hs.is_empty() {
                    let j = rng.gen_range(0..hs.len());
                    hs[j] = resealed_keep_number(&hs[j], rng);
                }
            }
            // now and then: a well-shaped "reorg section" (the last-N numbers below the requested start) whose
            // headers carry a total difficulty that is not below the requested boundary
            if let Some((start_number, last_n)) = reorg_hint {
                if rng.gen_bool(0.5) && !hs.is_empty() && start_number >= 2 {
                    hs.retain(|h| Unpack::<u64>::unpack(&h.header().raw().number()) >= start_number);
                    if !hs.is_empty() {
                        let td = c.last_header().parent_chain_root().total_difficulty();
                        let lo = if start_number > last_n { start_number - last_n } else { 1 };
                        let src = hs[0].clone();
                        let mut forged_all = Vec::new();
                        for n in lo..start_number {
                            let raw = src.header().raw().as_builder().number(n.pack()).build();
                            let header = src.header().as_builder().raw(raw).build();
                            let root = src.parent_chain_root().as_builder().total_difficulty(td.clone()).build();
                            let forged = src.clone().as_builder().header(header).parent_chain_root(root).build();
                            forged_all.push(resealed(&forged, rng, 0));
                        }
                        forged_all.extend(hs.drain(..));
                        hs = forged_all;
                    }
                }
            }
            let mut b = c.clone().as_builder().headers(packed::VerifiableHeaderVec::new_builder().set(hs).build());
            if rng.gen_bool(0.2) {
                b = b.last_header(resealed_keep_number(&c.last_header(), rng));
            }
            packed::LightClientMessage::new_builder().set(b.build()).build()
        }
        packed::LightClientMessageUnion::SendBlocksProof(c) => {
            let b = c.clone().as_builder().last_header(resealed_keep_number(&c.last_header(), rng)).build();
            packed::LightClientMessage::new_builder().set(b).build()
        }
        packed::LightClientMessageUnion::SendTransactionsProof(c) => {
            let b = c.clone().as_builder().last_header(resealed_keep_number(&c.last_header(), rng)).build();
            packed::LightClientMessage::new_builder().set(b).build()
        }
        _ => msg,
    };
    out.as_slice().to_vec()
}

/// Like `resealed`, but the block number stays (the response still matches the request's structure).
fn resealed_keep_number(vh: &packed::VerifiableHeader, rng: &mut StdRng) -> packed::VerifiableHeader {
    let n = vh.header().raw().number();
    loop {
        let r = resealed(vh, rng, 1);
        if r.header().raw().number().as_slice() == n.as_slice() {
            return r;
        }
    }
}

fn last_state_of(sim: &Sim, env: &Env, i: usize) -> packed::VerifiableHeader {
    let tip = env.peers[i].server.tip;
    sim.chain.verifiable(tip)
}

fn relay_message(sim: &Sim, rng: &mut StdRng) -> Vec<u8> {
    let hashes: Vec<packed::Byte32> = (0..rng.gen_range(0..5))
        .map(|_| {
            if !sim.chain.txs.is_empty() && rng.gen_bool(0.5) {
                sim.chain.txs[rng.gen_range(0..sim.chain.txs.len())].view.hash()
            } else {
                let mut b = [0u8; 32];
                rng.fill(&mut b);
                b.pack()
            }
        })
        .collect();
    match rng.gen_range(0..3) {
        0 => {
            let c = packed::GetRelayTransactions::new_builder().tx_hashes(hashes.pack()).build();
            packed::RelayMessage::new_builder().set(c).build().as_slice().to_vec()
        }
        1 => {
            let c = packed::RelayTransactionHashes::new_builder().tx_hashes(hashes.pack()).build();
            packed::RelayMessage::new_builder().set(c).build().as_slice().to_vec()
        }
        _ => {
            let c = packed::RelayTransactions::new_builder().build();
            packed::RelayMessage::new_builder().set(c).build().as_slice().to_vec()
        }
    }
}

fn honest_step(sim: &mut Sim, env: &mut Env, rng: &mut StdRng, interval: u64, ntx: usize) {
    let n = env.peers.len();
    let i = rng.gen_range(0..n);
    match rng.gen_range(0..100) {
        0..=9 => {
            if !env.peers[i].connected {
                env.connect(sim, i);
            }
        }
        10..=11 => {
            if env.peers[i].connected {
                env.disconnect(sim, i);
            }
        }
        12..=23 => {
            if env.peers[i].connected {
                env.send_last_state(sim, i);
            }
        }
        24..=35 => {
            if env.peers[i].connected {
                env.answer_proof(sim, i);
            }
        }
        36..=45 => env.refresh(sim),
        46..=57 => env.filter_tick(sim, rng.gen_range(0..3), rng.gen_bool(0.7)),
        58..=61 => env.idle_tick(sim),
        62..=65 => env.fetch_tick(sim),
        66..=77 => {
            if env.peers[i].connected {
                env.answer_filter(sim, i, interval);
            }
        }
        78..=83 => {
            if env.peers[i].connected {
                env.answer_blocks_proof(sim, i);
            }
        }
        84..=89 => {
            if env.peers[i].connected {
                env.answer_blocks(sim, i, rng.gen_bool(0.5));
            }
        }
        90..=92 => {
            if env.peers[i].connected {
                env.answer_txs_proof(sim, i);
            }
        }
        93..=95 => {
            if ntx > 0 {
                env.rpc_fetch_tx(sim, rng.gen_range(0..ntx));
            }
        }
        96..=97 => {
            let nb = sim.chain.blocks.len();
            env.rpc_fetch_header(sim, rng.gen_range(0..nb));
        }
        _ => {
            env.grow(sim, i, rng.gen_range(1..=3));
        }
    }
    env.enforce_bans(sim);
}

fn scenario(rng: &mut StdRng, sc: usize, out: Box<dyn std::io::Write>, kv: &HashMap<String, String>) -> (Box<dyn std::io::Write>, u64, Vec<String>) {
    let pow = if rng.gen_bool(0.25) { "eaglesong" } else { "dummy" };
    let main_len = rng.gen_range(6..=arg_u64(kv, "maxlen", 20) as usize);
    let last_n = *[2u64, 3, 5][..].get(rng.gen_range(0..3)).unwrap();
    let interval = *[3u64, 4, 5][..].get(rng.gen_range(0..3)).unwrap();
    let npeers = rng.gen_range(1..=3usize);
    let built = super::filtersync::build_tx_world(rng, pow, main_len, 0, 1, 3);
    let cfg = Config { last_n, max_outbound: npeers as u32, interval, blocks_in_transit: rng.gen_range(1..=4), ..Default::default() };
    let leaf = built.leaves[0];
    let mut sim: Sim = new_sim(built.chain, cfg, npeers, out, &format!("hostile-{}", sc), vec!["hostile"]);
    let nleaf = sim.chain.blocks[leaf].num;
    let tips: Vec<(usize, usize)> = (0..npeers)
        .map(|_| (sim.chain.ancestor_at(leaf, rng.gen_range((nleaf / 2).max(1)..=nleaf)).unwrap(), leaf))
        .collect();
    let mut env = Env::new(&sim, &tips);
    for ep in env.peers.iter_mut() {
        ep.server.filters_batch = rng.gen_range(1..=5);
        ep.server.hashes_batch = rng.gen_range(2..=8);
        ep.server.cp_batch = rng.gen_range(2..=6);
        ep.server.v1 = rng.gen_bool(0.7);
    }
    sim.reset(json!({"mode": "hostile", "pow": pow}));
    let nscripts = sim.chain.scripts.len();
    let list: Vec<(usize, bool, u64)> = (0..nscripts).filter(|_| rng.gen_bool(0.6)).map(|s| (s, false, 0)).collect();
    env.set_scripts(&mut sim, "all", &list);
    sim.client_mut().corpus = Some(Vec::new());
    let ntx = sim.chain.txs.len();
    // honest phase: stop anywhere
    let honest_steps = rng.gen_range(0..arg_u64(kv, "honest", 120));
    for _ in 0..honest_steps {
        honest_step(&mut sim, &mut env, rng, interval, ntx);
    }
    // hostile phase
    let msgs = arg_u64(kv, "msgs", 150);
    let stranger = PeerIndex::new(99);
    let mut garbage_last: Vec<packed::VerifiableHeader> = Vec::new();
    for _ in 0..msgs {
        if !sim.panics.is_empty() {
            break; // locks may be poisoned: whatever follows says nothing
        }
        let i = rng.gen_range(0..npeers);
        let r = rng.gen_range(0..100);
        if r < 12 {
            let (proto, token) = match rng.gen_range(0..6) {
                0 => (Proto::Lc, 0),
                1 => (Proto::Lc, 1),
                2 => (Proto::Lc, 2),
                3 => (Proto::Filter, 0),
                4 => (Proto::Filter, 1),
                _ => (Proto::Filter, 2),
            };
            if proto == Proto::Filter {
                *sim.client_mut().filter.last_ask_time.write().unwrap() = None;
            }
            sim.step("HostileTick", json!({"proto": proto_name(proto), "token": token}), |c| c.notify(proto, token));
            continue;
        }
        if r < 16 {
            if env.peers[i].connected {
                env.disconnect(&mut sim, i);
            } else {
                env.connect(&mut sim, i);
            }
            continue;
        }
        if r < 19 {
            sim.advance(rng.gen_range(1..=3));
            continue;
        }
        if r < 34 {
            honest_step(&mut sim, &mut env, rng, interval, ntx);
            continue;
        }
        if !env.peers[i].connected && rng.gen_bool(0.85) {
            env.connect(&mut sim, i);
        }
        // the base message
        // (compat=1: the message mix before the extra-fields generator was added, to re-run older seeds)
        let pick = rng.gen_range(0..100);
        let pick = if pick == 95 && arg_u64(kv, "compat", 0) == 1 { 96 } else { pick };
        let (proto, base, bytes): (Proto, String, Vec<u8>) = match pick {
            0..=44 => match live_answer(&sim, &env, i, interval) {
                Some((p, name, b)) => {
                    if p == Proto::Lc && rng.gen_bool(0.4) {
                        let hint = sim.inbox.iter().filter(|s| s.peer == env.peers[i].idx).find_map(|s| sim::as_get_last_state_proof(s)).map(|r| {
                            (Unpack::<u64>::unpack(&r.start_number()), Unpack::<u64>::unpack(&r.last_n_blocks()))
                        });
                        (p, format!("resealed-live:{}", name), reseal_live(&b, rng, hint))
                    } else {
                        (p, format!("live:{}", name), b)
                    }
                }
                None => {
                    let vh = last_state_of(&sim, &env, i);
                    let c = packed::SendLastState::new_builder().last_header(vh).build();
                    (Proto::Lc, "SendLastState".into(), packed::LightClientMessage::new_builder().set(c).build().as_slice().to_vec())
                }
            },
            45..=59 => {
                let corpus = sim.client().corpus.as_ref().unwrap();
                if corpus.is_empty() {
                    (Proto::Lc, "empty".into(), vec![])
                } else {
                    let (p, b) = &corpus[rng.gen_range(0..corpus.len())];
                    (*p, "corpus".into(), b.to_vec())
                }
            }
            60..=64 => (Proto::Relay, "relay".into(), relay_message(&sim, rng)),
            65..=69 => {
                // what the client itself sends, sent back to it
                if sim.inbox.is_empty() {
                    (Proto::Lc, "empty".into(), vec![])
                } else {
                    let s = &sim.inbox[rng.gen_range(0..sim.inbox.len())];
                    (proto_of(s.proto).unwrap_or(Proto::Lc), "echo".into(), s.data.to_vec())
                }
            }
            70..=89 => {
                // a re-sealed announcement with boundary values
                let nf = rng.gen_range(1..=3);
                let vh = resealed(&last_state_of(&sim, &env, i), rng, nf);
                garbage_last.push(vh.clone());
                let c = packed::SendLastState::new_builder().last_header(vh).build();
                (Proto::Lc, "resealed:SendLastState".into(), packed::LightClientMessage::new_builder().set(c).build().as_slice().to_vec())
            }
            90..=94 => {
                // a proof whose last header is a re-sealed one the client may hold, with the live answer's body
                let vh = if !garbage_last.is_empty() && rng.gen_bool(0.7) {
                    garbage_last[rng.gen_range(0..garbage_last.len())].clone()
                } else {
                    resealed(&last_state_of(&sim, &env, i), rng, 1)
                };
                let headers: Vec<packed::VerifiableHeader> = (0..rng.gen_range(0..6))
                    .map(|_| {
                        let b = rng.gen_range(0..sim.chain.blocks.len());
                        let h = sim.chain.verifiable(b);
                        if rng.gen_bool(0.5) {
                            resealed(&h, rng, 1)
                        } else {
                            h
                        }
                    })
                    .collect();
                let c = packed::SendLastStateProof::new_builder()
                    .last_header(vh)
                    .headers(packed::VerifiableHeaderVec::new_builder().set(headers).build())
                    .build();
                (Proto::Lc, "resealed:SendLastStateProof".into(), packed::LightClientMessage::new_builder().set(c).build().as_slice().to_vec())
            }
            95 => {
                // a SendBlock whose Block table carries extra fields (a compatible molecule table may): none, a
                // well-formed extension, an ill-formed one, several of them
                let b = rng.gen_range(0..sim.chain.blocks.len());
                let block = sim.chain.blocks[b].block.data();
                // the plain four-field table first
                let v0 = packed::Block::new_builder()
                    .header(block.header())
                    .uncles(block.uncles())
                    .transactions(block.transactions())
                    .proposals(block.proposals())
                    .build();
                let k = rng.gen_range(1..=3usize);
                let extras: Vec<Vec<u8>> = (0..k)
                    .map(|_| match rng.gen_range(0..4) {
                        0 => vec![],
                        1 => vec![0xff, 0xff, 0xff, 0xff],
                        2 => packed::Bytes::default().as_slice().to_vec(),
                        _ => {
                            let payload: Vec<u8> = (0..rng.gen_range(0..40)).map(|_| rng.gen()).collect();
                            Pack::<packed::Bytes>::pack(&payload[..]).as_slice().to_vec()
                        }
                    })
                    .collect();
                let blk = table_with_extra_fields(v0.as_slice(), &extras);
                // SendBlock { block }: a table with one field; SyncMessage: union item id + item
                let honest = packed::SyncMessage::new_builder().set(packed::SendBlock::new_builder().block(v0).build()).build();
                let mut msg = honest.as_slice()[..4].to_vec();
                msg.extend_from_slice(&((8 + blk.len()) as u32).to_le_bytes());
                msg.extend_from_slice(&8u32.to_le_bytes());
                msg.extend_from_slice(&blk);
                (Proto::Sync, "resealed:SendBlock-extra-fields".into(), msg)
            }
            96..=97 => {
                // well-formed filter-protocol messages with EMPTY vectors at the position the client expects
                let dump = sim.client().peers.verif_dump();
                let p = env.peers[i].idx;
                let cps_next = dump.peers.iter().find(|(q, _)| *q == p).map(|(_, d)| (d.check_points.0 as u64 + d.check_points.1.len() as u64 - 1) * interval).unwrap_or(0);
                let min_f = sim.client().storage.get_min_filtered_block_number();
                let m: packed::BlockFilterMessage = match rng.gen_range(0..9) {
                    0 => packed::BlockFilterMessage::new_builder().set(packed::BlockFilterCheckPoints::new_builder().start_number(cps_next.pack()).build()).build(),
                    1 => packed::BlockFilterMessage::new_builder().set(packed::BlockFilterHashes::new_builder().start_number((min_f + 1).pack()).build()).build(),
                    2 => packed::BlockFilterMessage::new_builder().set(packed::BlockFilters::new_builder().start_number((min_f + 1).pack()).build()).build(),
                    _ => {
                        // the genuine filters from the expected start on, followed by MORE filters than the client can
                        // have hashes for, the excess ones being truncated / random bytes (they must never be decoded)
                        let server = &env.peers[i].server;
                        let chain = sim.chain.chain_of(server.tip);
                        let tipn = sim.chain.blocks[server.tip].num;
                        let mut filters: Vec<packed::Bytes> = Vec::new();
                        let mut hashes: Vec<packed::Byte32> = Vec::new();
                        let k = rng.gen_range(0..=3u64);
                        for n in (min_f + 1)..=(min_f + k).min(tipn) {
                            filters.push(sim.chain.blocks[chain[n as usize]].filter.clone());
                            hashes.push(sim.chain.blocks[chain[n as usize]].header.hash());
                        }
                        for _ in 0..rng.gen_range(1..=40usize) {
                            let bad: Vec<u8> = match rng.gen_range(0..3) {
                                0 => vec![1],                                  // claims one element, no data
                                1 => vec![0xff; rng.gen_range(1..9)],
                                _ => (0..rng.gen_range(0..12)).map(|_| rng.gen()).collect(),
                            };
                            filters.push(Pack::<packed::Bytes>::pack(&bad[..]));
                            let mut h = [0u8; 32];
                            rng.fill(&mut h);
                            hashes.push(h.pack());
                        }
                        let c = packed::BlockFilters::new_builder()
                            .start_number((min_f + 1).pack())
                            .block_hashes(hashes.pack())
                            .filters(packed::BytesVec::new_builder().set(filters).build())
                            .build();
                        packed::BlockFilterMessage::new_builder().set(c).build()
                    }
                };
                (Proto::Filter, "resealed:empty-vectors".into(), m.as_slice().to_vec())
            }
            _ => {
                let len = rng.gen_range(0..80);
                let mut b = vec![0u8; len];
                rng.fill(&mut b[..]);
                let proto = [Proto::Lc, Proto::Filter, Proto::Sync, Proto::Relay][rng.gen_range(0..4)];
                (proto, "random".into(), b)
            }
        };
        let (gen, data) = if base.starts_with("resealed") || base == "random" || rng.gen_bool(0.08) {
            // (a re-sealed live answer is delivered as it is half of the time)
            if base.starts_with("resealed-live") && rng.gen_bool(0.5) {
                mutate_bytes(&bytes, rng)
            } else {
                ("as-is".to_string(), bytes)
            }
        } else if false {
            ("as-is".to_string(), bytes)
        } else {
            mutate_bytes(&bytes, rng)
        };
        // now and then on another protocol, or from a peer the client has never heard of
        let proto = if rng.gen_bool(0.05) { [Proto::Lc, Proto::Filter, Proto::Sync, Proto::Relay][rng.gen_range(0..4)] } else { proto };
        let p = if rng.gen_bool(0.04) { stranger } else { env.peers[i].idx };
        let args = json!({"proto": proto_name(proto), "p": pname(p), "base": base, "gen": gen, "len": data.len(),
            "hex": hex_of(&data)});
        let bytes = P2pBytes::from(data);
        sim.step("Hostile", args, |c| c.deliver(proto, p, bytes));
        // the requests the client sends in reply stay in the inbox: they are the next live answers' source
    }
    let lines = sim.lines;
    let panics = sim.panics.clone();
    let out = std::mem::replace(&mut sim.out, Box::new(std::io::sink()));
    (out, lines, panics)
}

fn hex_of(b: &[u8]) -> String {
    let mut s = String::with_capacity(b.len() * 2);
    for x in b.iter().take(4096) {
        s.push_str(&format!("{:02x}", x));
    }
    s
}

pub fn run(kv: &HashMap<String, String>) -> i32 {
    let seed = arg_u64(kv, "seed", 1);
    let n = arg_u64(kv, "n", 5) as usize;
    let path = arg_str(kv, "out", "/dev/stdout");
    let mut out: Box<dyn std::io::Write> = Box::new(BufWriter::new(File::create(&path).expect("open out")));
    let mut total = 0;
    let mut panics = Vec::new();
    for sc in 0..n {
        let mut rng = StdRng::seed_from_u64(seed.wrapping_mul(1_000_003).wrapping_add(sc as u64));
        let (o, lines, p) = scenario(&mut rng, sc, out, kv);
        out = o;
        total += lines;
        panics.extend(p);
    }
    out.flush().ok();
    eprintln!("hostile scenarios={} lines={} panics={}", n, total, panics.len());
    for p in panics.iter().take(20) {
        eprintln!("  panic: {}", p.chars().take(200).collect::<String>());
    }
    0
}
