//! C13: get_cells / get_transactions / get_cells_capacity are exact views of the index.
//!
//! A generated transaction graph is synchronised honestly into the real index (all world scripts registered);
//! then random search keys (exact scripts, shorter prefixes, extensions, foreign scripts; lock and type;
//! every filter incl. empty and inverted ranges; both orders; limits 1..) are paged through the real RPC
//! implementation.  Every page is one event (query, cursor, result, next cursor), judged by Trace_Query
//! against the logged index.
use crate::service::{
    BlockFilterRpc, Order, ScriptType as RpcScriptType, SearchKey, SearchKeyFilter,
};
use crate::storage::extract_raw_data;
use crate::verif::client::{guard_val, Config};
use crate::verif::env::Env;
use crate::verif::sim::{new_sim, Sim};
use crate::verif::{arg_str, arg_u64};
use ckb_jsonrpc_types::JsonBytes;
use ckb_types::{core::ScriptHashType, packed, prelude::*};
use rand::{rngs::StdRng, Rng, SeedableRng};
use serde_json::{json, Value};
use std::collections::HashMap;
use std::fs::File;
use std::io::{BufWriter, Write};

const CKB: u64 = 100_000_000;

#[derive(Clone)]
struct Q {
    script: packed::Script,
    is_type: bool,
    filter_script: Option<packed::Script>,
    slen: Option<[u64; 2]>,
    dlen: Option<[u64; 2]>,
    cap: Option<[u64; 2]>, // in CKB
    blocks: Option<[u64; 2]>,
    with_data: Option<bool>,
    group: bool,
}

fn bytes_json(b: &[u8]) -> Value {
    json!(b.iter().map(|x| *x as u64).collect::<Vec<_>>())
}

impl Q {
    fn key(&self, for_txs: bool) -> SearchKey {
        let filter = if self.filter_script.is_some() || self.slen.is_some() || self.dlen.is_some() || self.cap.is_some() || self.blocks.is_some() {
            Some(SearchKeyFilter {
                script: self.filter_script.clone().map(Into::into),
                script_len_range: if for_txs { None } else { self.slen.map(|r| [r[0].into(), r[1].into()]) },
                output_data_len_range: if for_txs { None } else { self.dlen.map(|r| [r[0].into(), r[1].into()]) },
                output_capacity_range: if for_txs { None } else { self.cap.map(|r| [(r[0] * CKB).into(), (r[1] * CKB).into()]) },
                block_range: self.blocks.map(|r| [r[0].into(), r[1].into()]),
            })
        } else {
            None
        };
        SearchKey {
            script: self.script.clone().into(),
            script_type: if self.is_type { RpcScriptType::Type } else { RpcScriptType::Lock },
            filter,
            with_data: self.with_data,
            group_by_transaction: if for_txs { Some(self.group) } else { None },
        }
    }
    fn json(&self, for_txs: bool) -> Value {
        let opt = |r: &Option<[u64; 2]>| r.map(|x| json!([x[0], x[1]])).unwrap_or(json!([]));
        json!({
            "script": bytes_json(&extract_raw_data(&self.script)),
            "stype": if self.is_type { 1 } else { 0 },
            "fscript": self.filter_script.as_ref().map(|s| bytes_json(&extract_raw_data(s))).unwrap_or(json!([])),
            "hasF": self.filter_script.is_some(),
            "slen": if for_txs { json!([]) } else { opt(&self.slen) },
            "dlen": if for_txs { json!([]) } else { opt(&self.dlen) },
            "cap": if for_txs { json!([]) } else { opt(&self.cap) },
            "blocks": opt(&self.blocks),
            "withData": self.with_data.unwrap_or(true),
            "group": self.group,
        })
    }
}

fn rand_script(sim: &Sim, rng: &mut StdRng) -> packed::Script {
    let ws = &sim.chain.scripts;
    let base = ws[rng.gen_range(0..ws.len())].clone();
    let args: Vec<u8> = base.args().raw_data().to_vec();
    let new_args: Vec<u8> = match rng.gen_range(0..10) {
        0..=4 => args,
        5 => args[..rng.gen_range(0..=args.len())].to_vec(),
        6 => [args, vec![0]].concat(),
        7 => [args, vec![0, 0]].concat(),
        8 => [args, vec![if rng.gen_bool(0.3) { 0xff } else { rng.gen_range(1..=9) }]].concat(),
        _ => vec![],
    };
    let mut s = base.as_builder().args(new_args.pack());
    if rng.gen_bool(0.05) {
        s = s.code_hash([0xEEu8; 32].pack());
    }
    if rng.gen_bool(0.03) {
        s = s.hash_type(ScriptHashType::Data1.into());
    }
    s.build()
}

fn rand_range(rng: &mut StdRng, lo: u64, hi: u64, values: &[u64]) -> Option<[u64; 2]> {
    if rng.gen_bool(0.85) {
        return None;
    }
    // the ends are mostly values that occur (and their neighbours): the boundaries are where filters go wrong
    let pick = |rng: &mut StdRng| -> u64 {
        if !values.is_empty() && rng.gen_bool(0.7) {
            let v = values[rng.gen_range(0..values.len())];
            match rng.gen_range(0..3) {
                0 => v.saturating_sub(1),
                1 => v,
                _ => v + 1,
            }
        } else {
            rng.gen_range(lo..=hi + 1)
        }
    };
    let (a, b) = (pick(rng), pick(rng));
    // mostly proper ranges; empty and inverted ones stay as they are
    if rng.gen_bool(0.8) {
        Some([a.min(b), a.max(b)])
    } else {
        Some([a, b])
    }
}

fn rand_query(sim: &Sim, rng: &mut StdRng, nleaf: u64, caps: &[u64]) -> Q {
    Q {
        script: rand_script(sim, rng),
        is_type: rng.gen_bool(0.35),
        filter_script: if rng.gen_bool(0.15) { Some(rand_script(sim, rng)) } else { None },
        slen: rand_range(rng, 0, 40, &[0, 33, 34, 35, 36]),
        dlen: rand_range(rng, 0, 21, &[0, 8, 9, 20]),
        cap: rand_range(rng, 0, 1100, caps),
        blocks: rand_range(rng, 0, nleaf + 1, &(0..=nleaf).collect::<Vec<_>>()),
        with_data: match rng.gen_range(0..3) {
            0 => None,
            1 => Some(true),
            _ => Some(false),
        },
        group: rng.gen_bool(0.4),
    }
}

/// Decodes an index key (cursor) into [script id (1-based, 0 unknown), number, tx index, io index, io type (-1 for cells)].
fn decode_cursor(sim: &Sim, key: &[u8], for_txs: bool) -> Value {
    if key.is_empty() {
        return json!([]);
    }
    let tail = if for_txs { 17 } else { 16 };
    if key.len() < 1 + tail {
        return json!([-1, 0, 0, 0, 0]);
    }
    let body = &key[1..key.len() - tail];
    let sid = sim
        .chain
        .scripts
        .iter()
        .position(|s| extract_raw_data(s).as_slice() == body)
        .map(|i| i as i64 + 1)
        .unwrap_or(0);
    let t = &key[key.len() - tail..];
    let num = u64::from_be_bytes(t[0..8].try_into().unwrap());
    let ti = u32::from_be_bytes(t[8..12].try_into().unwrap());
    let io = u32::from_be_bytes(t[12..16].try_into().unwrap());
    let iot: i64 = if for_txs { t[16] as i64 } else { -1 };
    // the key prefix byte says lock (0x40 / 0x80) or type (0x60 / 0xa0)
    json!([sid, num, ti, io, iot, key[0]])
}

fn txid(sim: &Sim, h: &ckb_types::H256) -> i64 {
    sim.chain.tx_id_of(&h.pack()).map(|i| i as i64 + 1).unwrap_or(-1)
}

fn hex_u64(v: &Value) -> u64 {
    u64::from_str_radix(v.as_str().unwrap_or("0x0").trim_start_matches("0x"), 16).unwrap_or(0)
}

fn page_cells(sim: &mut Sim, q: &Q, order_desc: bool, limit: u32, cursor: Option<Vec<u8>>) -> (Vec<Value>, Vec<u8>, bool) {
    let rpc = sim.client().rpc_filter();
    let key = q.key(false);
    let ord = if order_desc { Order::Desc } else { Order::Asc };
    let after = cursor.clone().map(JsonBytes::from_vec);
    let res = guard_val(move || rpc.get_cells(key, ord, limit.into(), after));
    match res {
        Ok(Ok(p)) => {
            let v = serde_json::to_value(&p).unwrap();
            let objs: Vec<Value> = v["objects"]
                .as_array()
                .unwrap()
                .iter()
                .map(|c| {
                    let h: ckb_types::H256 = serde_json::from_value(c["out_point"]["tx_hash"].clone()).unwrap();
                    json!([txid(sim, &h), hex_u64(&c["out_point"]["index"]), hex_u64(&c["block_number"]), hex_u64(&c["tx_index"]),
                        !c["output_data"].is_null()])
                })
                .collect();
            let next = p.last_cursor.as_bytes().to_vec();
            (objs, next, false)
        }
        Ok(Err(_)) => (vec![], vec![], true),
        Err(msg) => {
            sim.panics.push(msg);
            (vec![], vec![], true)
        }
    }
}

fn page_txs(sim: &mut Sim, q: &Q, order_desc: bool, limit: u32, cursor: Option<Vec<u8>>) -> (Vec<Value>, Vec<u8>, bool) {
    let rpc = sim.client().rpc_filter();
    let key = q.key(true);
    let ord = if order_desc { Order::Desc } else { Order::Asc };
    let after = cursor.clone().map(JsonBytes::from_vec);
    let res = guard_val(move || rpc.get_transactions(key, ord, limit.into(), after));
    match res {
        Ok(Ok(p)) => {
            let v = serde_json::to_value(&p).unwrap();
            let objs: Vec<Value> = v["objects"]
                .as_array()
                .unwrap()
                .iter()
                .map(|c| {
                    let h: ckb_types::H256 = serde_json::from_value(c["transaction"]["hash"].clone()).unwrap();
                    let iot = |x: &Value| if x == "input" { 0 } else { 1 };
                    if q.group {
                        let cells: Vec<Value> = c["cells"].as_array().unwrap().iter().map(|p| json!([iot(&p[0]), hex_u64(&p[1])])).collect();
                        json!([txid(sim, &h), hex_u64(&c["block_number"]), hex_u64(&c["tx_index"]), cells])
                    } else {
                        json!([txid(sim, &h), hex_u64(&c["block_number"]), hex_u64(&c["tx_index"]), hex_u64(&c["io_index"]), iot(&c["io_type"])])
                    }
                })
                .collect();
            let next = p.last_cursor.as_bytes().to_vec();
            (objs, next, false)
        }
        Ok(Err(_)) => (vec![], vec![], true),
        Err(msg) => {
            sim.panics.push(msg);
            (vec![], vec![], true)
        }
    }
}

fn scenario(rng: &mut StdRng, sc: usize, real_out: &mut dyn Write, kv: &HashMap<String, String>) -> (u64, Vec<String>) {
    let main_len = rng.gen_range(6..=arg_u64(kv, "maxlen", 16) as usize);
    let interval = 4u64;
    // the usual scripts plus some whose args end in 0xff (the byte after which a key prefix has no successor of the
    // same length: where "the first key after this prefix" computations go wrong)
    let mut scripts = crate::verif::gen::default_scripts();
    {
        use crate::verif::world::WScript;
        scripts.push(WScript { code: 1, hash_type: 0, args: vec![1, 0xff] });
        scripts.push(WScript { code: 1, hash_type: 0, args: vec![0xff] });
        scripts.push(WScript { code: 2, hash_type: 1, args: vec![0xff, 0xff] });
    }
    let built = super::filtersync::build_tx_world_with(rng, "dummy", main_len, 0, 1, arg_u64(kv, "maxtxs", 4) as usize, 0.0, scripts);
    let cfg = Config { last_n: 3, max_outbound: 1, interval, blocks_in_transit: 4, ..Default::default() };
    let leaf = built.leaves[0];
    let name = format!("query-{}", sc);
    let mut sim: Sim = new_sim(built.chain, cfg, 1, Box::new(std::io::sink()), &name, vec!["peersync", "filter"]);
    let nleaf = sim.chain.blocks[leaf].num;
    let mut env = Env::new(&sim, &[(leaf, leaf)]);
    sim.reset(json!({"mode": "query"}));
    // every world script, lock and type, from the start; now and then one of them only from a later block on
    let nscripts = sim.chain.scripts.len();
    let mut list: Vec<(usize, bool, u64)> = Vec::new();
    for s in 0..nscripts {
        list.push((s, false, if rng.gen_bool(0.15) { rng.gen_range(0..=nleaf / 2) } else { 0 }));
        list.push((s, true, 0));
    }
    env.set_scripts(&mut sim, "all", &list);
    for _ in 0..(main_len + 12) {
        super::filtersync::pump(&mut sim, &mut env, rng, interval);
    }
    // the index as the queries see it
    let st = sim.state();
    let mut lines = 0u64;
    let mut emit = |v: Value, lines: &mut u64| {
        let mut v = v;
        v["sc"] = json!(name.clone());
        writeln!(real_out, "{}", v).unwrap();
        *lines += 1;
    };
    let sbytes: Vec<Value> = sim.chain.scripts.iter().map(|s| bytes_json(&extract_raw_data(s))).collect();
    emit(json!({"ev": "QIndex", "world": sim.chain.world_json_full(), "sbytes": sbytes, "st": st}), &mut lines);
    let nq = arg_u64(kv, "queries", 60);
    let caps: Vec<u64> = sim
        .chain
        .txs
        .iter()
        .flat_map(|t| t.view.outputs().into_iter().map(|o| Unpack::<ckb_types::core::Capacity>::unpack(&o.capacity()).as_u64() / CKB).collect::<Vec<_>>())
        .filter(|c| *c < 5000)
        .collect();
    for _ in 0..nq {
        let q = rand_query(&sim, rng, nleaf, &caps);
        let kind = rng.gen_range(0..10);
        if kind < 5 {
            // cells: page through, asc or desc
            let desc = rng.gen_bool(0.4);
            let limit: u32 = if rng.gen_bool(0.2) { 100 } else { rng.gen_range(1..=4) };
            let mut cursor: Option<Vec<u8>> = None;
            let mut all: Vec<Value> = Vec::new();
            for _ in 0..300 {
                let (objs, next, err) = page_cells(&mut sim, &q, desc, limit, cursor.clone());
                emit(json!({"ev": "Cells", "a": {"q": q.json(false), "desc": desc, "limit": limit,
                    "cursor": cursor.as_ref().map(|c| decode_cursor(&sim, c, false)).unwrap_or(json!([]))},
                    "res": objs, "next": decode_cursor(&sim, &next, false), "err": err}), &mut lines);
                if objs.is_empty() {
                    break;
                }
                all.extend(objs);
                cursor = Some(next);
            }
            emit(json!({"ev": "CellsDone", "a": {"q": q.json(false), "desc": desc}, "all": all}), &mut lines);
            // the capacity of the same key
            if rng.gen_bool(0.5) {
                let rpc = sim.client().rpc_filter();
                let key = q.key(false);
                let res = guard_val(move || rpc.get_cells_capacity(key));
                match res {
                    Ok(Ok(c)) => {
                        let v = serde_json::to_value(&c).unwrap();
                        let h: ckb_types::H256 = serde_json::from_value(v["block_hash"].clone()).unwrap();
                        emit(json!({"ev": "Capacity", "a": {"q": q.json(false)}, "cap": hex_u64(&v["capacity"]) / CKB, "rem": hex_u64(&v["capacity"]) % CKB,
                            "tip": crate::verif::project::hid(&sim.chain, &h.pack()), "tipNum": hex_u64(&v["block_number"])}), &mut lines);
                    }
                    Ok(Err(_)) => emit(json!({"ev": "Capacity", "a": {"q": q.json(false)}, "cap": -1, "rem": 0, "tip": 0, "tipNum": 0}), &mut lines),
                    Err(msg) => {
                        sim.panics.push(msg.clone());
                        emit(json!({"ev": "Panic", "a": {"during": "Capacity", "msg": msg}}), &mut lines);
                    }
                }
            }
        } else {
            let desc = rng.gen_bool(0.4);
            let limit: u32 = if rng.gen_bool(0.2) { 100 } else { rng.gen_range(1..=4) };
            let mut cursor: Option<Vec<u8>> = None;
            let mut all: Vec<Value> = Vec::new();
            for _ in 0..300 {
                let (objs, next, err) = page_txs(&mut sim, &q, desc, limit, cursor.clone());
                emit(json!({"ev": "Txs", "a": {"q": q.json(true), "desc": desc, "limit": limit,
                    "cursor": cursor.as_ref().map(|c| decode_cursor(&sim, c, true)).unwrap_or(json!([]))},
                    "res": objs, "next": decode_cursor(&sim, &next, true), "err": err}), &mut lines);
                if objs.is_empty() {
                    break;
                }
                all.extend(objs);
                cursor = Some(next);
            }
            emit(json!({"ev": "TxsDone", "a": {"q": q.json(true), "desc": desc}, "all": all}), &mut lines);
        }
        if !sim.panics.is_empty() {
            break;
        }
    }
    (lines, sim.panics.clone())
}

pub fn run(kv: &HashMap<String, String>) -> i32 {
    let seed = arg_u64(kv, "seed", 1);
    let n = arg_u64(kv, "n", 5) as usize;
    let path = arg_str(kv, "out", "/dev/stdout");
    let mut out = BufWriter::new(File::create(&path).expect("open out"));
    let mut total = 0;
    let mut panics = Vec::new();
    for sc in 0..n {
        let mut rng = StdRng::seed_from_u64(seed.wrapping_mul(1_000_003).wrapping_add(sc as u64));
        let (lines, p) = scenario(&mut rng, sc, &mut out, kv);
        total += lines;
        panics.extend(p);
    }
    out.flush().ok();
    eprintln!("query scenarios={} lines={} panics={}", n, total, panics.len());
    for p in panics.iter().take(10) {
        eprintln!("  panic: {}", p.chars().take(200).collect::<String>());
    }
    0
}
