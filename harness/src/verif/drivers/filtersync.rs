//! Drivers for the filter pipeline / index (C03, C04, C06, C09, C02).
use crate::verif::client::Config;
use crate::verif::env::Env;
use crate::verif::gen::{self, ChainParams, TxGen};
use crate::verif::sim::{new_sim, Sim};
use crate::verif::world::SimChain;
use crate::verif::{arg_str, arg_u64};
use rand::{rngs::StdRng, Rng, SeedableRng};
use serde_json::json;
use std::collections::HashMap;
use std::fs::File;
use std::io::BufWriter;

pub struct FBuilt {
    pub chain: SimChain,
    pub leaves: Vec<usize>,
}

pub fn build_tx_world(rng: &mut StdRng, pow: &str, main_len: usize, forks: usize, max_depth: usize, max_txs: usize) -> FBuilt {
    build_tx_world_remine(rng, pow, main_len, forks, max_depth, max_txs, 0.0)
}

/// `remine`: probability that a transaction of an abandoned block is mined again on the fork branch (same bytes,
/// same hash, another block and possibly another position) -- what a real reorganisation does to most of them.
pub fn build_tx_world_remine(rng: &mut StdRng, pow: &str, main_len: usize, forks: usize, max_depth: usize, max_txs: usize, remine: f64) -> FBuilt {
    build_tx_world_with(rng, pow, main_len, forks, max_depth, max_txs, remine, gen::default_scripts())
}

#[allow(clippy::too_many_arguments)]
pub fn build_tx_world_with(rng: &mut StdRng, pow: &str, main_len: usize, forks: usize, max_depth: usize, max_txs: usize, remine: f64, scripts: Vec<crate::verif::world::WScript>) -> FBuilt {
    let p = ChainParams { pow: pow.to_owned(), epoch_len: (3, 8), vary_difficulty: true };
    let mut chain = SimChain::new(pow, &scripts);
    let mut tg = TxGen::new(scripts.len(), max_txs);
    tg.remine = remine;
    let main = gen::extend_with_txs(&mut chain, 0, main_len, &p, rng, &mut tg);
    let mut leaves = vec![main];
    for _ in 0..forks {
        let depth = rng.gen_range(1..=max_depth.max(1)).min(main_len.saturating_sub(1)).max(1);
        let main_num = chain.blocks[main].num;
        let fork_at = chain.ancestor_at(main, main_num - depth as u64).unwrap();
        let extra = rng.gen_range(1..=2usize);
        let leaf = gen::extend_with_txs(&mut chain, fork_at, depth + extra, &p, rng, &mut tg);
        leaves.push(leaf);
    }
    FBuilt { chain, leaves }
}

/// One full round of honest traffic: announcements, proofs, filter ticks and answers, block download.
pub fn pump(sim: &mut Sim, env: &mut Env, rng: &mut StdRng, interval: u64) {
    pump_opt(sim, env, rng, interval, true)
}

/// `advance = false`: the round takes no time (all ticks fire well inside every timeout).  Used by the
/// convergence phases: the world is finite, so the peers cannot keep announcing new blocks, and a peer whose
/// last state stays the same for too long is (rightly) disconnected and cannot be proven again.
pub fn pump_opt(sim: &mut Sim, env: &mut Env, rng: &mut StdRng, interval: u64, advance: bool) {
    let n = env.peers.len();
    for i in 0..n {
        if !env.peers[i].connected {
            env.connect(sim, i);
        }
        env.send_last_state(sim, i);
        env.enforce_bans(sim);
    }
    env.refresh(sim);
    for i in 0..n {
        while env.peers[i].connected && env.answer_proof(sim, i) {
            env.enforce_bans(sim);
        }
    }
    env.refresh(sim); // finalize check points with the new prove states
    for token in [2u64, 1, 0] {
        env.filter_tick(sim, token, true);
        drain(sim, env, rng, interval);
    }
    env.idle_tick(sim);
    drain(sim, env, rng, interval);
    if advance {
        sim.advance(1);
    }
    env.refresh(sim);
    let dropped = sim.last_drops.clone();
    for i in 0..n {
        if dropped.contains(&env.peers[i].idx) && env.peers[i].connected {
            env.disconnect(sim, i);
        }
    }
}

/// Answers every outstanding request of the filter / blocks-proof / sync protocols until none is left.
pub fn drain(sim: &mut Sim, env: &mut Env, rng: &mut StdRng, interval: u64) {
    let n = env.peers.len();
    for _ in 0..200 {
        let mut any = false;
        for i in 0..n {
            if !env.peers[i].connected {
                continue;
            }
            if env.answer_filter(sim, i, interval) {
                any = true;
                env.enforce_bans(sim);
            }
            if env.peers[i].connected && env.answer_blocks_proof(sim, i) {
                any = true;
                env.enforce_bans(sim);
            }
            if env.peers[i].connected && env.answer_blocks(sim, i, rng.gen_bool(0.5)) {
                any = true;
                env.enforce_bans(sim);
            }
        }
        if !any {
            break;
        }
    }
}

/// Like `drain`, but most answers are preceded or replaced by adversarial ones.
pub fn drain_adv(sim: &mut Sim, env: &mut Env, rng: &mut StdRng, interval: u64, with_subst: bool) {
    let n = env.peers.len();
    for _ in 0..200 {
        let mut any = false;
        for i in 0..n {
            if !env.peers[i].connected {
                continue;
            }
            // a whole check point interval of hashes over substituted filters, then those filters (C06)
            if rng.gen_bool(0.35) {
                if let Some(quiet) = env.forged_interval_hashes(sim, i, interval) {
                    env.enforce_bans(sim);
                    for _ in 0..6 {
                        if !env.peers[i].connected {
                            break;
                        }
                        env.filter_tick(sim, 0, true);
                        if !env.forged_filters(sim, i, quiet) {
                            break;
                        }
                        env.enforce_bans(sim);
                    }
                    any = true;
                    if !env.peers[i].connected {
                        continue;
                    }
                }
            }
            if rng.gen_bool(0.5) {
                env.mutate_filters(sim, i, rng, with_subst);
            }
            if rng.gen_bool(0.5) {
                env.mutate_hashes(sim, i, rng);
            }
            if env.answer_filter(sim, i, interval) {
                any = true;
                // the last hashes answer once more, late and shorter (seed C10-8)
                if rng.gen_bool(0.3) {
                    env.late_short_hashes(sim, i, rng);
                }
            }
            if rng.gen_bool(0.3) {
                // the block of a matched entry before anybody has proved it
                env.unproved_block(sim, i);
            }
            if rng.gen_bool(0.3) {
                if env.mutate_blocks_proof(sim, i, rng) {
                    any = true;
                }
            } else if env.answer_blocks_proof(sim, i) {
                any = true;
            }
            if rng.gen_bool(0.3) {
                if env.mutate_txs_proof(sim, i, rng) {
                    any = true;
                }
            } else if env.answer_txs_proof(sim, i) {
                any = true;
            }
            // blocks one by one, a forged body first for some of them
            let p = env.peers[i].idx;
            if let Some(req) = sim.take_request(p, crate::verif::sim::as_get_blocks) {
                any = true;
                let mut msgs = env.peers[i].server.blocks(&sim.chain, &req);
                if rng.gen_bool(0.5) {
                    msgs.reverse();
                }
                for m in msgs {
                    let bid = match m.to_enum() {
                        ckb_types::packed::SyncMessageUnion::SendBlock(sb) => sim.chain.id_of(&sb.block().header().calc_header_hash()),
                        _ => None,
                    };
                    if let Some(bid) = bid {
                        if rng.gen_bool(0.4) {
                            env.deliver_forged_block(sim, i, bid, rng.gen_range(0..3));
                        }
                    }
                    env.deliver_block(sim, i, m, "true");
                    // ... and, now and then, the same header AGAIN with another body after the genuine block has
                    // arrived (while the other blocks of the record are still on their way)
                    if let Some(bid) = bid {
                        if rng.gen_bool(0.25) {
                            env.deliver_forged_block(sim, i, bid, rng.gen_range(0..3));
                        }
                    }
                }
            }
        }
        if !any {
            break;
        }
    }
}

/// C06 / C02: an honest sync in which the answers of the proven peers are preceded or replaced by
/// mutated BlockFilters, SendBlocksProof, SendTransactionsProof and SendBlock messages.
fn adv_scenario(rng: &mut StdRng, sc: usize, out: Box<dyn std::io::Write>, kv: &HashMap<String, String>, with_subst: bool) -> (Box<dyn std::io::Write>, u64, Vec<String>) {
    let pow = if rng.gen_bool(0.2) { "eaglesong" } else { "dummy" };
    let main_len = rng.gen_range(8..=arg_u64(kv, "maxlen", 24) as usize);
    let last_n = *[2u64, 3, 5][..].get(rng.gen_range(0..3)).unwrap();
    let interval = *[3u64, 4, 5][..].get(rng.gen_range(0..3)).unwrap();
    let npeers = rng.gen_range(1..=3usize);
    let built = build_tx_world(rng, pow, main_len, 1, 2, 3);
    let cfg = Config { last_n, max_outbound: npeers as u32, interval, blocks_in_transit: rng.gen_range(1..=4), ..Default::default() };
    let leaf = built.leaves[0];
    let mut sim: Sim = new_sim(built.chain, cfg, npeers, out, &format!("{}-{}", if with_subst { "advsub" } else { "adv" }, sc), vec!["peersync", "filter"]);
    let nleaf = sim.chain.blocks[leaf].num;
    let tips: Vec<(usize, usize)> = (0..npeers)
        .map(|_| (sim.chain.ancestor_at(leaf, rng.gen_range((nleaf * 2 / 3).max(1)..=nleaf)).unwrap(), leaf))
        .collect();
    let mut env = Env::new(&sim, &tips);
    for ep in env.peers.iter_mut() {
        ep.server.filters_batch = rng.gen_range(2..=5);
        ep.server.hashes_batch = rng.gen_range(2..=8);
        ep.server.cp_batch = rng.gen_range(2..=6);
        ep.server.v1 = rng.gen_bool(0.7);
    }
    sim.reset(json!({"mode": "adv"}));
    let nscripts = sim.chain.scripts.len();
    let mut list = Vec::new();
    for sid in 0..nscripts {
        if rng.gen_bool(0.7) {
            list.push((sid, rng.gen_bool(0.25), rng.gen_range(0..=2)));
        }
    }
    if list.is_empty() {
        list.push((0, false, 0));
    }
    env.set_scripts(&mut sim, "all", &list);
    let ntx = sim.chain.txs.len();
    let rounds = main_len / 2 + 10;
    for r in 0..rounds {
        let n = env.peers.len();
        for i in 0..n {
            if !env.peers[i].connected {
                env.connect(&mut sim, i);
            }
            env.grow(&sim, i, rng.gen_range(0..=2));
            env.send_last_state(&mut sim, i);
        }
        env.refresh(&mut sim);
        for i in 0..n {
            while env.peers[i].connected && env.answer_proof(&mut sim, i) {}
        }
        env.refresh(&mut sim);
        if r % 3 == 1 {
            env.rpc_fetch_tx(&mut sim, rng.gen_range(0..ntx));
            // ... and one that is on no peer's chain (a transaction of the fork branch): the same request then
            // holds a transaction the peer finds and one it reports missing
            let off: Vec<usize> = sim.chain.txs.iter().filter(|t| t.index > 0 && !sim.chain.is_ancestor(t.block, leaf)).map(|t| t.id).collect();
            if !off.is_empty() && rng.gen_bool(0.7) {
                let t = off[rng.gen_range(0..off.len())];
                env.rpc_fetch_tx(&mut sim, t);
            }
            let nb = sim.chain.blocks.len();
            env.rpc_fetch_header(&mut sim, rng.gen_range(0..nb));
            // ... and, in the same request, a header every peer has together with one that no peer can prove: a block
            // at or above the peers' tips (their own next block, or a block of the other branch)
            let top = env.peers.iter().map(|p| sim.chain.blocks[p.server.tip].num).max().unwrap_or(0);
            let low = env.peers.iter().map(|p| sim.chain.blocks[p.server.tip].num).min().unwrap_or(0);
            let beyond: Vec<usize> = (0..nb).filter(|b| sim.chain.blocks[*b].num >= top && sim.chain.blocks[*b].pow && sim.chain.blocks[*b].root).collect();
            if low >= 2 && !beyond.is_empty() && rng.gen_bool(0.6) {
                let below = sim.chain.ancestor_at(leaf, rng.gen_range(1..low)).unwrap();
                env.rpc_fetch_header(&mut sim, below);
                env.rpc_fetch_header(&mut sim, beyond[rng.gen_range(0..beyond.len())]);
            }
            env.fetch_tick(&mut sim);
        }
        for token in [2u64, 1, 0] {
            env.filter_tick(&mut sim, token, true);
            drain_adv(&mut sim, &mut env, rng, interval, with_subst);
        }
        if rng.gen_bool(0.15) {
            let i = rng.gen_range(0..n);
            env.unsolicited_filters(&mut sim, i);
        }
        if rng.gen_bool(0.1) {
            env.restart(&mut sim);
            if rng.gen_bool(0.7) {
                // a stale batch right after the restart, before the matched blocks are recovered
                env.connect(&mut sim, 0);
                env.send_last_state(&mut sim, 0);
                while env.answer_proof(&mut sim, 0) {}
                env.unsolicited_filters(&mut sim, 0);
            }
        }
        env.idle_tick(&mut sim);
        drain_adv(&mut sim, &mut env, rng, interval, with_subst);
        env.fetch_tick(&mut sim);
        drain_adv(&mut sim, &mut env, rng, interval, with_subst);
        sim.advance(1);
        env.refresh(&mut sim);
        let dropped = sim.last_drops.clone();
        for i in 0..n {
            if dropped.contains(&env.peers[i].idx) && env.peers[i].connected {
                env.disconnect(&mut sim, i);
            }
        }
    }
    for i in 0..npeers {
        env.grow(&sim, i, u64::MAX / 2);
    }
    for _ in 0..(main_len / 2 + 8) {
        pump(&mut sim, &mut env, rng, interval);
        env.fetch_tick(&mut sim);
        for i in 0..npeers {
            while env.peers[i].connected && env.answer_txs_proof(&mut sim, i) {}
        }
    }
    let tips_now: Vec<usize> = env.peers.iter().map(|p| p.server.tip + 1).collect();
    sim.step("Quiescent", json!({"tips": tips_now, "bans": 0}), |_| Ok(()));
    let lines = sim.lines;
    let panics = sim.panics.clone();
    let out = std::mem::replace(&mut sim.out, Box::new(std::io::sink()));
    (out, lines, panics)
}

fn sync_scenario(rng: &mut StdRng, sc: usize, out: Box<dyn std::io::Write>, kv: &HashMap<String, String>) -> (Box<dyn std::io::Write>, u64, Vec<String>) {
    let pow = if rng.gen_bool(0.2) { "eaglesong" } else { "dummy" };
    let main_len = rng.gen_range(6..=arg_u64(kv, "maxlen", 30) as usize);
    let last_n = *[2u64, 3, 5, 10][..].get(rng.gen_range(0..4)).unwrap();
    let interval = *[3u64, 4, 5][..].get(rng.gen_range(0..3)).unwrap();
    let npeers = rng.gen_range(1..=3usize);
    let built = build_tx_world(rng, pow, main_len, 0, 1, 3);
    let cfg = Config { last_n, max_outbound: npeers as u32, interval, blocks_in_transit: rng.gen_range(1..=4), ..Default::default() };
    let leaf = built.leaves[0];
    let mut sim: Sim = new_sim(built.chain, cfg, npeers, out, &format!("sync-{}", sc), vec!["peersync", "filter"]);
    let nleaf = sim.chain.blocks[leaf].num;
    let tips: Vec<(usize, usize)> = (0..npeers)
        .map(|_| (sim.chain.ancestor_at(leaf, rng.gen_range((nleaf / 2).max(1)..=nleaf)).unwrap(), leaf))
        .collect();
    let mut env = Env::new(&sim, &tips);
    for ep in env.peers.iter_mut() {
        ep.server.filters_batch = rng.gen_range(1..=5);
        ep.server.hashes_batch = rng.gen_range(2..=8);
        ep.server.cp_batch = rng.gen_range(2..=6);
    }
    if nleaf >= 6 {
        env.set_reserve(&sim, 2);
    }
    sim.reset(json!({"mode": "sync"}));
    // register scripts
    let nscripts = sim.chain.scripts.len();
    let mut list = Vec::new();
    for sid in 0..nscripts {
        if rng.gen_bool(0.6) {
            list.push((sid, rng.gen_bool(0.25), rng.gen_range(0..=(nleaf / 2))));
        }
    }
    if list.is_empty() {
        list.push((0, false, 0));
    }
    env.set_scripts(&mut sim, "all", &list);
    let rounds = arg_u64(kv, "rounds", 12);
    for _ in 0..rounds {
        for i in 0..npeers {
            env.grow(&sim, i, rng.gen_range(0..=3));
        }
        pump(&mut sim, &mut env, rng, interval);
        // now and then the peers answer filter requests only for a while, so that several matched-blocks records
        // are pending, and the client restarts: the map has to be recovered from the earliest record (seed C08-8)
        if rng.gen_bool(0.12) {
            for _ in 0..rng.gen_range(2..=4) {
                env.filter_tick(&mut sim, 0, true);
                for i in 0..npeers {
                    if env.peers[i].connected {
                        env.answer_filter(&mut sim, i, interval);
                    }
                }
            }
            env.restart(&mut sim);
        }
    }
    env.reserve = 0;
    let bans0 = env.bans;
    // every session starts afresh (what the time-outs do to sessions that wait for an announcement that a
    // world without new blocks never makes), then the peers announce blocks the client does not know yet
    for i in 0..npeers {
        if env.peers[i].connected {
            env.disconnect(&mut sim, i);
        }
    }
    for i in 0..npeers {
        env.grow(&sim, i, u64::MAX / 2);
    }
    for _ in 0..(main_len / 2 + 8) {
        pump_opt(&mut sim, &mut env, rng, interval, false);
    }
    let tips_now: Vec<usize> = env.peers.iter().map(|p| p.server.tip + 1).collect();
    let must = sim.panics.is_empty() && env.bans == bans0;
    sim.step("Quiescent", json!({"tips": tips_now, "bans": env.bans - bans0, "must": must}), |_| Ok(()));
    let lines = sim.lines;
    let panics = sim.panics.clone();
    let out = std::mem::replace(&mut sim.out, Box::new(std::io::sink()));
    (out, lines, panics)
}

/// C07: several peers, every quorum size, honest and lying check point vectors of different lengths
/// and start indices, malformed BlockFilterCheckPoints, random order of messages and refresh ticks.
fn cp_scenario(rng: &mut StdRng, sc: usize, out: Box<dyn std::io::Write>, kv: &HashMap<String, String>) -> (Box<dyn std::io::Write>, u64, Vec<String>) {
    use crate::verif::env::CpLie;
    let interval = *[2u64, 3, 4][..].get(rng.gen_range(0..3)).unwrap();
    let main_len = rng.gen_range((4 * interval as usize)..=(arg_u64(kv, "maxlen", 36) as usize).max(4 * interval as usize + 1));
    let last_n = *[2u64, 3][..].get(rng.gen_range(0..2)).unwrap();
    let max_outbound = rng.gen_range(1..=5u32);
    let npeers = rng.gen_range(1..=((max_outbound as usize + 1).min(5)));
    let required = ((max_outbound + 1) / 2) as usize;
    let built = build_tx_world(rng, "dummy", main_len, 0, 1, 1);
    let cfg = Config { last_n, max_outbound, interval, blocks_in_transit: 2, ..Default::default() };
    let leaf = built.leaves[0];
    let mut sim: Sim = new_sim(built.chain, cfg, npeers, out, &format!("cp-{}", sc), vec!["peersync", "filter"]);
    let nleaf = sim.chain.blocks[leaf].num;
    let tips: Vec<(usize, usize)> = (0..npeers)
        .map(|_| (sim.chain.ancestor_at(leaf, rng.gen_range((nleaf / 2).max(1)..=nleaf)).unwrap(), leaf))
        .collect();
    let mut env = Env::new(&sim, &tips);
    for ep in env.peers.iter_mut() {
        ep.server.cp_batch = rng.gen_range(2..=6);
        ep.server.v1 = rng.gen_bool(0.7);
    }
    // who lies, from which index on, and with whom (same group = same invented values)
    let p_lie = *[0.0, 0.25, 0.5][..].get(rng.gen_range(0..3)).unwrap();
    let lies: Vec<Option<CpLie>> = (0..npeers)
        .map(|_| if rng.gen_bool(p_lie) { Some(CpLie { from: rng.gen_range(1..=(nleaf / interval).max(1)), group: rng.gen_range(0..2) }) } else { None })
        .collect();
    let liars: Vec<String> = (0..npeers).filter(|i| lies[*i].is_some()).map(|i| crate::verif::project::pname(sim.names[i])).collect();
    sim.reset(json!({"mode": "cp", "liars": liars, "required": required}));
    env.set_scripts(&mut sim, "all", &[(0, false, 0)]);
    let steps = arg_u64(kv, "steps", 160);
    for _ in 0..steps {
        let i = rng.gen_range(0..npeers);
        match rng.gen_range(0..100) {
            0..=7 => {
                if !env.peers[i].connected {
                    env.connect(&mut sim, i);
                }
            }
            8 => {
                if env.peers[i].connected && rng.gen_bool(0.5) {
                    env.disconnect(&mut sim, i);
                }
            }
            9..=20 => {
                if env.peers[i].connected {
                    env.send_last_state(&mut sim, i);
                    env.enforce_bans(&mut sim);
                }
            }
            21..=32 => {
                if env.peers[i].connected {
                    env.answer_proof(&mut sim, i);
                    env.enforce_bans(&mut sim);
                }
            }
            33..=46 => {
                env.refresh(&mut sim);
                env.enforce_bans(&mut sim);
            }
            47..=58 => env.filter_tick(&mut sim, 2, rng.gen_bool(0.7)),
            59..=80 => {
                if env.peers[i].connected {
                    env.answer_cp(&mut sim, i, interval, lies[i]);
                    env.enforce_bans(&mut sim);
                }
            }
            81..=88 => {
                // malformed or unsolicited messages; none of them carries an invented value that is accepted
                if env.peers[i].connected {
                    let dump = sim.client().peers.verif_dump();
                    let p = env.peers[i].idx;
                    if let Some((_, d)) = dump.peers.iter().find(|(q, _)| *q == p) {
                        let (cstart, cvals) = (d.check_points.0 as u64, d.check_points.1.clone());
                        let next = (cstart + cvals.len() as u64 - 1) * interval;
                        let good = env.cp_values(&sim, i, next, interval, rng.gen_range(2..=5), lies[i]);
                        match rng.gen_range(0..7) {
                            0 => env.send_check_points(&mut sim, i, next, vec![], "empty"),
                            1 => env.send_check_points(&mut sim, i, next + 1, good, "unaligned"),
                            2 => env.send_check_points(&mut sim, i, next + interval, good, "ahead"),
                            3 => env.send_check_points(&mut sim, i, next.saturating_sub(interval), good, "behind"),
                            4 => {
                                let mut v = good;
                                if !v.is_empty() {
                                    v[0] = crate::verif::env::fake_cp(7, next / interval);
                                }
                                env.send_check_points(&mut sim, i, next, v, "discontinuous")
                            }
                            5 => env.send_check_points(&mut sim, i, next, good.into_iter().take(1).collect(), "single"),
                            _ => env.send_check_points(&mut sim, i, next, good, "unsolicited"),
                        }
                        env.enforce_bans(&mut sim);
                    }
                }
            }
            89..=93 => {
                env.grow(&sim, i, rng.gen_range(1..=4));
            }
            94..=96 => sim.advance(rng.gen_range(1..=3)),
            97 => {
                if rng.gen_bool(0.3) {
                    env.restart(&mut sim);
                }
            }
            _ => {
                if env.peers[i].connected {
                    env.answer_filter(&mut sim, i, interval);
                    env.enforce_bans(&mut sim);
                }
            }
        }
    }
    // convergence: everybody at the leaf, all traffic answered (the liars keep lying)
    for i in 0..npeers {
        env.grow(&sim, i, u64::MAX / 2);
    }
    for _ in 0..(main_len / 2 + 10) {
        for i in 0..npeers {
            if !env.peers[i].connected {
                env.connect(&mut sim, i);
            }
            env.send_last_state(&mut sim, i);
            env.enforce_bans(&mut sim);
        }
        env.refresh(&mut sim);
        env.enforce_bans(&mut sim);
        for i in 0..npeers {
            while env.peers[i].connected && env.answer_proof(&mut sim, i) {
                env.enforce_bans(&mut sim);
            }
        }
        env.filter_tick(&mut sim, 2, true);
        for _ in 0..50 {
            let mut any = false;
            for i in 0..npeers {
                if env.peers[i].connected && env.answer_cp(&mut sim, i, interval, lies[i]) {
                    any = true;
                    env.enforce_bans(&mut sim);
                }
            }
            if !any {
                break;
            }
        }
        env.refresh(&mut sim);
        env.enforce_bans(&mut sim);
        sim.advance(1);
    }
    let honest: Vec<String> = (0..npeers).filter(|i| lies[*i].is_none() && env.peers[*i].connected).map(|i| crate::verif::project::pname(sim.names[i])).collect();
    sim.step("CpQuiescent", json!({"honest": honest, "leaf": leaf + 1}), |_| Ok(()));
    let lines = sim.lines;
    let panics = sim.panics.clone();
    let out = std::mem::replace(&mut sim.out, Box::new(std::io::sink()));
    (out, lines, panics)
}

/// Fine-grained random interleaving of every environment action: announcements, proofs, all ticks,
/// filter / blocks-proof / txs-proof answers, single block deliveries, set_scripts (all commands,
/// empty lists, duplicates), fetch RPCs, growth, restarts, and (profile fork) a switch of the
/// peers to a fork branch.
fn rand_scenario(rng: &mut StdRng, sc: usize, out: Box<dyn std::io::Write>, kv: &HashMap<String, String>, profile: &str) -> (Box<dyn std::io::Write>, u64, Vec<String>) {
    let pow = if rng.gen_bool(0.15) { "eaglesong" } else { "dummy" };
    let main_len = rng.gen_range(6..=arg_u64(kv, "maxlen", 24) as usize);
    let last_n = *[2u64, 3, 5, 10][..].get(rng.gen_range(0..4)).unwrap();
    let interval = if profile == "fork" { last_n.max(3) + rng.gen_range(0..=2) } else { *[3u64, 4, 5][..].get(rng.gen_range(0..3)).unwrap() };
    let npeers = rng.gen_range(1..=3usize);
    let forks = if profile == "fork" { 1 } else { 0 };
    // fork depth below, at and above last-N
    let depth = rng.gen_range(1..=(last_n as usize + 2)).min(main_len - 1);
    // (fork profile, two scenarios out of three: transactions of the abandoned blocks are mined again on the fork)
    let remine = if profile == "fork" && sc % 3 != 0 { 0.6 } else { 0.0 };
    let built = build_tx_world_remine(rng, pow, main_len, forks, depth, 3, remine);
    let cfg = Config { last_n, max_outbound: npeers as u32, interval, blocks_in_transit: rng.gen_range(1..=4), ..Default::default() };
    let leaves = built.leaves.clone();
    let leaf = leaves[0];
    let mut sim: Sim = new_sim(built.chain, cfg, npeers, out, &format!("{}-{}", profile, sc), vec!["peersync", "filter"]);
    let nleaf = sim.chain.blocks[leaf].num;
    let tips: Vec<(usize, usize)> = (0..npeers)
        .map(|_| (sim.chain.ancestor_at(leaf, rng.gen_range((nleaf / 2).max(1)..=nleaf)).unwrap(), leaf))
        .collect();
    let mut env = Env::new(&sim, &tips);
    for ep in env.peers.iter_mut() {
        ep.server.filters_batch = rng.gen_range(1..=5);
        ep.server.hashes_batch = rng.gen_range(2..=8);
        ep.server.cp_batch = rng.gen_range(2..=6);
        ep.server.v1 = rng.gen_bool(0.7);
    }
    if nleaf >= 6 {
        env.set_reserve(&sim, 2);
    }
    sim.reset(json!({"mode": profile}));
    let nscripts = sim.chain.scripts.len();
    let rand_list = |rng: &mut StdRng, maxn: u64, allow_empty: bool| -> Vec<(usize, bool, u64)> {
        let mut list = Vec::new();
        let k = if allow_empty && rng.gen_bool(0.25) { 0 } else { rng.gen_range(1..=3) };
        for _ in 0..k {
            list.push((rng.gen_range(0..nscripts), rng.gen_bool(0.25), rng.gen_range(0..=maxn)));
        }
        if !list.is_empty() && rng.gen_bool(0.15) {
            let mut d = list[0];
            d.2 = rng.gen_range(0..=maxn);
            list.push(d); // duplicate key
        }
        list
    };
    let l0 = rand_list(rng, nleaf / 2, false);
    env.set_scripts(&mut sim, "all", &l0);
    let steps = arg_u64(kv, "steps", 150);
    let w_scripts = if profile == "scripts" { 8 } else { 1 };
    let w_fetch = if profile == "fetch" || profile == "adv" { 10 } else if profile == "fork" { 6 } else if profile == "sync" { 3 } else { 1 };
    let switch_at = if profile == "fork" { rng.gen_range(steps / 4..steps * 3 / 4) } else { u64::MAX };
    let mut blocks_q: Vec<(usize, ckb_types::packed::SyncMessage)> = Vec::new();
    let ntx = sim.chain.txs.len();
    for step in 0..steps {
        // (an honest node only ever reorganises to a heavier chain)
        if step == switch_at && sim.chain.blocks[leaves[1]].ttd > sim.chain.blocks[leaves[0]].ttd {
            // every peer moves to the fork branch (its tip: somewhere above the fork point)
            let fleaf = leaves[1];
            for ep in env.peers.iter_mut() {
                ep.leaf = fleaf;
                ep.server.tip = fleaf;
            }
            blocks_q.clear();
        }
        let i = rng.gen_range(0..npeers);
        let total = 100 + w_scripts + w_fetch;
        let r = rng.gen_range(0..total);
        match r {
            0..=5 => {
                if !env.peers[i].connected {
                    env.connect(&mut sim, i);
                }
            }
            6 => {
                if env.peers[i].connected && rng.gen_bool(0.3) {
                    env.disconnect(&mut sim, i);
                    blocks_q.retain(|(j, _)| *j != i);
                }
            }
            7..=16 => {
                if env.peers[i].connected {
                    env.send_last_state(&mut sim, i);
                    env.enforce_bans(&mut sim);
                }
            }
            17..=26 => {
                if env.peers[i].connected {
                    env.answer_proof(&mut sim, i);
                    env.enforce_bans(&mut sim);
                }
            }
            27..=34 => env.refresh(&mut sim),
            35..=46 => {
                let token = rng.gen_range(0..3);
                env.filter_tick(&mut sim, token, rng.gen_bool(0.7));
            }
            47..=51 => env.idle_tick(&mut sim),
            52..=55 => env.fetch_tick(&mut sim),
            56..=69 => {
                if env.peers[i].connected {
                    if (profile == "adv" || profile == "advsub") && rng.gen_bool(0.35) {
                        // the bans are not enforced: the honest answer follows on the same session
                        env.mutate_filters(&mut sim, i, rng, profile == "advsub");
                    }
                    if profile == "adv" && rng.gen_bool(0.1) {
                        env.unsolicited_filters(&mut sim, i);
                    }
                    env.answer_filter(&mut sim, i, interval);
                    env.enforce_bans(&mut sim);
                }
            }
            70..=77 => {
                if env.peers[i].connected {
                    if profile == "adv" && rng.gen_bool(0.3) {
                        env.mutate_blocks_proof(&mut sim, i, rng);
                    } else {
                        env.answer_blocks_proof(&mut sim, i);
                    }
                    env.enforce_bans(&mut sim);
                }
            }
            78..=80 => {
                if env.peers[i].connected {
                    if profile == "adv" && rng.gen_bool(0.4) {
                        env.mutate_txs_proof(&mut sim, i, rng);
                    } else {
                        env.answer_txs_proof(&mut sim, i);
                    }
                    env.enforce_bans(&mut sim);
                }
            }
            81..=84 => {
                // turn one outstanding GetBlocks into queued single block deliveries
                if env.peers[i].connected {
                    let p = env.peers[i].idx;
                    if let Some(req) = sim.take_request(p, crate::verif::sim::as_get_blocks) {
                        let mut msgs = env.peers[i].server.blocks(&sim.chain, &req);
                        if rng.gen_bool(0.5) {
                            msgs.reverse();
                        }
                        for m in msgs {
                            blocks_q.push((i, m));
                        }
                    }
                }
            }
            85..=92 => {
                if !blocks_q.is_empty() {
                    let k = rng.gen_range(0..blocks_q.len());
                    let (j, m) = blocks_q.remove(k);
                    if env.peers[j].connected {
                        if profile == "adv" && rng.gen_bool(0.25) {
                            // first a forged body under the right header, then (maybe) the real block
                            let bid = match m.to_enum() {
                                ckb_types::packed::SyncMessageUnion::SendBlock(sb) => sim.chain.id_of(&sb.block().header().calc_header_hash()),
                                _ => None,
                            };
                            if let Some(bid) = bid {
                                env.deliver_forged_block(&mut sim, j, bid, rng.gen_range(0..3));
                            }
                        }
                        env.deliver_block(&mut sim, j, m, "true");
                    }
                }
            }
            93..=95 => {
                env.grow(&sim, i, rng.gen_range(1..=3));
            }
            96..=98 => sim.advance(1),
            99 => {
                env.restart(&mut sim);
                blocks_q.clear();
                if rng.gen_bool(0.5) {
                    // a batch right after the restart, before the tick recovers the matched blocks of the store
                    env.connect(&mut sim, i);
                    env.send_last_state(&mut sim, i);
                    while env.answer_proof(&mut sim, i) {}
                    env.unsolicited_filters(&mut sim, i);
                }
            }
            x if x < 100 + w_scripts => {
                let mut cmd = ["all", "partial", "delete"][rng.gen_range(0..3)];
                let maxn = nleaf;
                let mut list = rand_list(rng, maxn, true);
                // with matched blocks pending, often the documented no-op (partial / delete with an empty list): the
                // in-memory map is emptied, the records stay in the store
                let pending = sim.state()["mdb"].as_array().map(|a| !a.is_empty()).unwrap_or(false);
                let noop = pending && rng.gen_bool(0.6);
                if noop {
                    cmd = ["partial", "delete"][rng.gen_range(0..2)];
                    list.clear();
                }
                env.set_scripts(&mut sim, cmd, &list);
                if env.peers[i].connected && (noop || rng.gen_bool(0.4)) {
                    // the next batch arrives before any tick (set_scripts empties the in-memory map of matched
                    // blocks; with an empty list the records in the store stay)
                    env.unsolicited_filters(&mut sim, i);
                }
            }
            _ => {
                match rng.gen_range(0..4) {
                    0 | 1 => {
                        // (a transaction that is mined on two branches has two world ids: not asked for by hash)
                        let t = rng.gen_range(0..ntx);
                        if !sim.chain.has_twin(t) {
                            env.rpc_fetch_tx(&mut sim, t);
                        }
                    }
                    2 => {
                        let b = rng.gen_range(0..sim.chain.blocks.len());
                        env.rpc_fetch_header(&mut sim, b);
                    }
                    _ => {
                        let t = rng.gen_range(0..ntx);
                        if !sim.chain.has_twin(t) {
                            env.rpc_get_tx(&mut sim, t);
                        }
                    }
                }
            }
        }
    }
    // convergence with honest peers
    env.reserve = 0;
    let bans0 = env.bans;
    // every session starts afresh (what the time-outs do to sessions that wait for an announcement that a
    // world without new blocks never makes), then the peers announce blocks the client does not know yet
    for i in 0..npeers {
        if env.peers[i].connected {
            env.disconnect(&mut sim, i);
        }
    }
    for i in 0..npeers {
        env.grow(&sim, i, u64::MAX / 2);
    }
    for (j, m) in blocks_q.drain(..) {
        if env.peers[j].connected {
            env.deliver_block(&mut sim, j, m, "true");
        }
    }
    let rounds = sim.chain.blocks.len() / 2 + 10;
    for _ in 0..rounds {
        pump_opt(&mut sim, &mut env, rng, interval, false);
        env.fetch_tick(&mut sim);
        for i in 0..npeers {
            while env.peers[i].connected && env.answer_txs_proof(&mut sim, i) {}
        }
    }
    let tips_now: Vec<usize> = env.peers.iter().map(|p| p.server.tip + 1).collect();
    let must = sim.panics.is_empty() && env.bans == bans0;
    sim.step("Quiescent", json!({"tips": tips_now, "bans": env.bans - bans0, "must": must}), |_| Ok(()));
    let lines = sim.lines;
    let panics = sim.panics.clone();
    let out = std::mem::replace(&mut sim.out, Box::new(std::io::sink()));
    (out, lines, panics)
}

/// C04: sync on branch A (optionally leaving matched blocks pending / partly downloaded), then all
/// peers move to a heavier branch B forking `depth` blocks below A's tip (below, at and above
/// last-N), with or without a restart in between; then sync to quiescence.
fn fork_scenario(rng: &mut StdRng, sc: usize, out: Box<dyn std::io::Write>, kv: &HashMap<String, String>) -> (Box<dyn std::io::Write>, u64, Vec<String>) {
    let pow = if rng.gen_bool(0.15) { "eaglesong" } else { "dummy" };
    let last_n = *[2u64, 3, 5][..].get(rng.gen_range(0..3)).unwrap();
    // as in production (interval 2000 >> last-N 100) a fork within last-N never crosses a FINALIZED
    // check point: check points become final 2 intervals below the proved tip
    let interval = last_n.max(3) + rng.gen_range(0..=2);
    let npeers = rng.gen_range(1..=2usize);
    let a_len = rng.gen_range((last_n as usize + 4)..=arg_u64(kv, "maxlen", 22) as usize);
    let depth = rng.gen_range(1..=(last_n as usize + 2)).min(a_len - 2);
    // build A, then B forking `depth` below A's tip and made heavier than A
    let p = ChainParams { pow: pow.to_owned(), epoch_len: (3, 8), vary_difficulty: false };
    let scripts = gen::default_scripts();
    let mut chain = SimChain::new(pow, &scripts);
    let mut tg = TxGen::new(scripts.len(), 3);
    // (two scenarios out of three: transactions of the abandoned blocks are mined again on branch B)
    tg.remine = if sc % 3 != 0 { 0.6 } else { 0.0 };
    let a_tip = gen::extend_with_txs(&mut chain, 0, a_len, &p, rng, &mut tg);
    let fork_at = chain.ancestor_at(a_tip, (a_len - depth) as u64).unwrap();
    // (one scenario in three: the new branch ends more than last-N blocks above the abandoned tip, so that the last-N
    //  headers of the new proof do not reach down to the fork point -- only the reorg section tells of the fork)
    let ext = if rng.gen_bool(0.33) { last_n as usize + rng.gen_range(1..=3) } else { rng.gen_range(1..=3) };
    let b_tip = gen::extend_with_txs(&mut chain, fork_at, depth + ext, &p, rng, &mut tg);
    let cfg = Config { last_n, max_outbound: npeers as u32, interval, blocks_in_transit: rng.gen_range(1..=4), ..Default::default() };
    let mut sim: Sim = new_sim(chain, cfg, npeers, out, &format!("fork-{}", sc), vec!["peersync", "filter"]);
    let tips: Vec<(usize, usize)> = (0..npeers).map(|_| (a_tip, a_tip)).collect();
    let mut env = Env::new(&sim, &tips);
    for ep in env.peers.iter_mut() {
        ep.server.filters_batch = rng.gen_range(1..=5);
        ep.server.hashes_batch = rng.gen_range(2..=8);
        ep.server.cp_batch = rng.gen_range(2..=6);
    }
    sim.reset(json!({"mode": "fork", "depth": depth, "lastN": last_n}));
    let nscripts = sim.chain.scripts.len();
    let mut list = Vec::new();
    for sid in 0..nscripts {
        if rng.gen_bool(0.7) {
            list.push((sid, rng.gen_bool(0.2), rng.gen_range(0..=2)));
        }
    }
    if list.is_empty() {
        list.push((0, false, 0));
    }
    env.set_scripts(&mut sim, "all", &list);
    // phase 1: sync on A; stop after a random number of rounds (mid-sync) or fully
    let full = rng.gen_bool(0.6);
    let rounds = if full { a_len / 2 + 8 } else { rng.gen_range(2..=6) };
    // (in half of the scenarios phase 1 takes no time: on a chain that does not grow a session does not survive the
    //  time-outs, and a peer that comes back announces the stored tip and cannot be proven again -- the peers would
    //  nearly always meet the fork on a fresh session, without a prove state and without filter hashes of branch A)
    let timeless = rng.gen_bool(0.5);
    for _ in 0..rounds {
        pump_opt(&mut sim, &mut env, rng, interval, !timeless);
    }
    if !full || rng.gen_bool(0.3) {
        // leave requests unanswered / blocks partly downloaded: a few fine-grained steps
        for _ in 0..rng.gen_range(0..6) {
            let i = rng.gen_range(0..npeers);
            match rng.gen_range(0..4) {
                0 => env.filter_tick(&mut sim, 0, true),
                1 => {
                    env.answer_filter(&mut sim, i, interval);
                }
                2 => {
                    env.answer_blocks_proof(&mut sim, i);
                }
                _ => env.idle_tick(&mut sim),
            }
        }
    }
    // several matched-blocks records pile up: for a while the peers answer filter requests only (no proofs, no blocks);
    // with the restart below the in-memory map has to be recovered from the EARLIEST of them (seed C08-8)
    if rng.gen_bool(0.5) {
        for _ in 0..rng.gen_range(2..=4) {
            env.filter_tick(&mut sim, 0, true);
            for i in 0..npeers {
                env.answer_filter(&mut sim, i, interval);
            }
        }
    }
    // a registered script is registered AGAIN from a block below the fork point right before the switch: its stored
    // number is then below the rollback target while its entries reach above it (seed C03-7)
    if rng.gen_bool(0.4) {
        let (sid, is_type, _) = list[rng.gen_range(0..list.len())];
        let below = rng.gen_range(0..(a_len - depth).max(1)) as u64;
        env.set_scripts(&mut sim, "partial", &[(sid, is_type, below)]);
    }
    if rng.gen_bool(0.4) {
        env.restart(&mut sim);
    }
    // phase 2: everybody is on B now
    for ep in env.peers.iter_mut() {
        ep.leaf = b_tip;
        ep.server.tip = b_tip;
    }
    // (requests that were outstanding when the peers changed branch are answered late, from the new branch: a
    //  request that is lost for good only ends with the time-out of its session, and the convergence rounds
    //  take no time)
    let bans0 = env.bans;
    let rounds2 = sim.chain.blocks.len() / 2 + 10;
    for _ in 0..rounds2 {
        pump_opt(&mut sim, &mut env, rng, interval, false);
        if !sim.panics.is_empty() {
            break; // the documented long-fork abort ends the process
        }
    }
    let tips_now: Vec<usize> = env.peers.iter().map(|p| p.server.tip + 1).collect();
    if sim.panics.is_empty() {
        let must = env.bans == bans0;
        sim.step("Quiescent", json!({"tips": tips_now, "bans": env.bans - bans0, "must": must, "mustTip": must}), |_| Ok(()));
    }
    let lines = sim.lines;
    let panics = sim.panics.clone();
    let out = std::mem::replace(&mut sim.out, Box::new(std::io::sink()));
    (out, lines, panics)
}

/// C08: a deterministic-by-seed sync history (first-run initialisation, set_scripts, filter batches,
/// block download and indexing, a second set_scripts, check point finalisation, a shallow fork
/// switch with rollback) is run once to count the storage writes W, then once per crash point k:
/// the k-th write aborts the process, the store is reopened and honest syncing continues.
fn crash_history(seed: u64, sc: usize, k: Option<usize>, out: Box<dyn std::io::Write>, kv: &HashMap<String, String>) -> (Box<dyn std::io::Write>, u64, Vec<String>, usize, Vec<String>) {
    use std::sync::atomic::{AtomicUsize, Ordering};
    use std::sync::Arc;
    let mut rng = StdRng::seed_from_u64(seed);
    let rng = &mut rng;
    let last_n = 3u64;
    let interval = 4u64;
    let npeers = 1usize;
    let a_len = rng.gen_range(9..=arg_u64(kv, "maxlen", 14) as usize);
    let depth = rng.gen_range(1..=2usize);
    let p = ChainParams { pow: "dummy".to_owned(), epoch_len: (4, 8), vary_difficulty: false };
    let scripts = gen::default_scripts();
    let mut chain = SimChain::new("dummy", &scripts);
    let mut tg = TxGen::new(scripts.len(), 3);
    let a_tip = gen::extend_with_txs(&mut chain, 0, a_len, &p, rng, &mut tg);
    let fork_at = chain.ancestor_at(a_tip, (a_len - depth) as u64).unwrap();
    let b_tip = gen::extend_with_txs(&mut chain, fork_at, depth + 2, &p, rng, &mut tg);
    // the write counter / crash trigger
    let counter = Arc::new(AtomicUsize::new(0));
    let labels = Arc::new(std::sync::Mutex::new(Vec::<String>::new()));
    {
        let counter = Arc::clone(&counter);
        let labels = Arc::clone(&labels);
        let kk = k;
        crate::verif_hooks::set(Some(Arc::new(move |kind: &'static str, label: &str| {
            if kind != "write" {
                return;
            }
            let n = counter.fetch_add(1, Ordering::SeqCst) + 1;
            labels.lock().unwrap().push(label.to_owned());
            if Some(n) == kk {
                panic!("verif-crash:{}:{}", n, label);
            }
        })));
    }
    let cfg = Config { last_n, max_outbound: npeers as u32, interval, blocks_in_transit: 2, ..Default::default() };
    // first-run initialisation may itself be the crash point
    let dir = crate::verif::client::fresh_dir("crash");
    let consensus = chain.consensus.clone();
    let opened = {
        let (d, c, g) = (dir.clone(), consensus.clone(), cfg.clone());
        crate::verif::client::guard_val(move || crate::verif::client::Client::open(d, c, g))
    };
    let mut init_crashed = false;
    let client = match opened {
        Ok(c) => c,
        Err(msg) => {
            init_crashed = true;
            crate::verif_hooks::set(None);
            let (d, c, g) = (dir.clone(), consensus.clone(), cfg.clone());
            match crate::verif::client::guard_val(move || crate::verif::client::Client::open(d, c, g)) {
                Ok(c) => c,
                Err(m2) => {
                    // the store is bricked by a crash during first-run initialisation
                    let mut out = out;
                    use std::io::Write;
                    writeln!(out, "{}", json!({"ev": "DeadStore", "sc": format!("crash-{}-{}", sc, k.unwrap_or(0)),
                        "a": {"during": "Open", "label": msg, "msg": m2}})).unwrap();
                    let _ = std::fs::remove_dir_all(&dir);
                    return (out, 1, vec![m2], counter.load(Ordering::SeqCst), Vec::new());
                }
            }
        }
    };
    let mut sim = Sim {
        chain,
        client: Some(client),
        clock: crate::verif::client::Clock::new(),
        names: (1..=npeers).map(ckb_network::PeerIndex::new).collect(),
        inbox: Vec::new(),
        out,
        lines: 0,
        scenario: format!("crash-{}-{}", sc, k.unwrap_or(0)),
        parts: vec!["peersync", "filter"],
        panics: Vec::new(),
        last_drops: Vec::new(),
        last_bans: Vec::new(),
        crashed: false,
        dead: false,
        last_state: serde_json::Value::Null,
    };
    // (odd seeds: the peer is half way up first and reaches A's tip right before the second registration, so that
    //  there are filters left to process then)
    // variant (seed mod 4 unless given): 0, 2: the peer is at A's tip from the start, the second registration starts
    // low; 1: the peer is half way up first (matched blocks are pending at the second registration), which starts
    // above everything filtered; 3: half way up first AND a low start -- pending records while the scripts batch
    // itself lowers the filter position below them
    let variant = arg_u64(kv, "variant", seed % 4);
    let half = variant % 2 == 1;
    let low = variant % 2 == 0 || variant == 3;
    let first_tip = if !half { a_tip } else { sim.chain.ancestor_at(a_tip, (a_len as u64 / 2).max(2)).unwrap() };
    let mut env = Env::new(&sim, &[(first_tip, a_tip)]);
    env.peers[0].server.filters_batch = 3;
    env.peers[0].server.hashes_batch = 5;
    sim.reset(json!({"mode": "crash", "k": k.unwrap_or(0), "initCrashed": init_crashed}));
    let list1 = vec![(0usize, false, 0u64), (3usize, true, 1u64)];
    // the second registration starts either low (the scripts batch itself rewinds the filter position) or above
    // everything filtered so far (only the pending matched blocks make set_scripts rewind)
    let list2 = vec![(1usize, false, if low { 2u64 } else { a_len as u64 - 1 })];
    let retry = arg_u64(kv, "retry", 1) == 1;
    // the scripted history
    let mut phase = 0;
    let total_rounds = a_len / 2 + 12;
    let mut round = 0;
    while round < total_rounds && !sim.dead {
        if phase == 0 {
            env.set_scripts(&mut sim, "all", &list1);
            // after a crash the user either repeats the interrupted call or, seeing the scripts registered, does not
            if sim.crashed { sim.crashed = false; env.after_crash(); if retry { continue; } }
            phase = 1;
        }
        if phase == 1 && round == (if !half { 3 } else { 1 }) {
            // leave matched blocks pending (a filter batch accepted, nothing proved or downloaded yet): set_scripts
            // then has a record to discard and a filter position to rewind
            if env.grow(&sim, 0, u64::MAX / 2) {
                env.send_last_state(&mut sim, 0);
                if !sim.crashed && !sim.dead {
                    env.refresh(&mut sim);
                }
                while !sim.crashed && !sim.dead && env.answer_proof(&mut sim, 0) {}
                if !sim.crashed && !sim.dead {
                    env.refresh(&mut sim);
                }
            }
            for step in 0..16 {
                if sim.dead || sim.crashed {
                    break;
                }
                if sim.state()["mdb"].as_array().map(|a| !a.is_empty()).unwrap_or(false) {
                    break;
                }
                match step % 4 {
                    0 => env.filter_tick(&mut sim, 1, true),
                    2 => env.filter_tick(&mut sim, 0, true),
                    _ => {
                        env.answer_filter(&mut sim, 0, interval);
                    }
                }
            }
            if sim.crashed { sim.crashed = false; env.after_crash(); }
            if sim.dead {
                break;
            }
            env.set_scripts(&mut sim, "partial", &list2);
            if sim.crashed { sim.crashed = false; env.after_crash(); if retry { continue; } }
            phase = 2;
        }
        if phase == 2 && round == a_len / 2 + 4 {
            for ep in env.peers.iter_mut() {
                ep.leaf = b_tip;
                ep.server.tip = b_tip;
            }
            sim.inbox.clear();
            phase = 3;
        }
        pump(&mut sim, &mut env, rng, interval);
        if sim.crashed {
            sim.crashed = false;
            env.after_crash();
            // the first thing after the restart: the peer is proven again, the filter hashes are exchanged, and a
            // batch for the next range arrives BEFORE the filters tick has recovered the pending record (the late
            // answer to the request sent right before the process died, or an eager peer)
            if !sim.dead {
                env.connect(&mut sim, 0);
                // (a peer can only be proven again with a header above the stored tip)
                env.grow(&sim, 0, 1);
                env.send_last_state(&mut sim, 0);
                if !sim.crashed && !sim.dead { env.refresh(&mut sim); }
                while !sim.crashed && !sim.dead && env.answer_proof(&mut sim, 0) {}
                if !sim.crashed && !sim.dead { env.refresh(&mut sim); }
                // (check points, their finalization by the refresh tick, then the filter hashes)
                for token in [2u64, 1, 2, 1, 1] {
                    if sim.crashed || sim.dead { break; }
                    env.filter_tick(&mut sim, token, true);
                    for _ in 0..6 {
                        if sim.crashed || sim.dead || !env.answer_filter(&mut sim, 0, interval) { break; }
                    }
                    if token == 2 && !sim.crashed && !sim.dead { env.refresh(&mut sim); }
                }
                if !sim.crashed && !sim.dead {
                    // (single filters: a batch without any match is the interesting one, while the record that was
                    //  pending at the crash is still only in the store)
                    let keep = env.peers[0].server.filters_batch;
                    env.peers[0].server.filters_batch = 1;
                    env.unsolicited_filters(&mut sim, 0);
                    env.unsolicited_filters(&mut sim, 0);
                    env.peers[0].server.filters_batch = keep;
                }
                if sim.crashed { sim.crashed = false; env.after_crash(); }
            }
        }
        round += 1;
    }
    crate::verif_hooks::set(None);
    // convergence after the crash
    if !sim.dead {
        for _ in 0..(sim.chain.blocks.len() / 2 + 8) {
            pump(&mut sim, &mut env, rng, interval);
        }
        let tips_now: Vec<usize> = env.peers.iter().map(|p| p.server.tip + 1).collect();
        sim.step("Quiescent", json!({"tips": tips_now, "bans": 0}), |_| Ok(()));
    }
    let lines = sim.lines;
    let panics = sim.panics.clone();
    let out = std::mem::replace(&mut sim.out, Box::new(std::io::sink()));
    let w = counter.load(Ordering::SeqCst);
    let labels = labels.lock().unwrap().clone();
    (out, lines, panics, w, labels)
}

fn run_crash(kv: &HashMap<String, String>) -> i32 {
    let seed = arg_u64(kv, "seed", 1);
    let n = arg_u64(kv, "n", 1) as usize;
    let maxk = arg_u64(kv, "maxk", 40) as usize;
    let path = arg_str(kv, "out", "/dev/stdout");
    let mut out: Box<dyn std::io::Write> = Box::new(BufWriter::new(File::create(&path).expect("open out")));
    let mut total = 0;
    let mut points = 0;
    for sc in 0..n {
        let s = seed.wrapping_mul(7919).wrapping_add(sc as u64);
        let (o, lines, _p, w, labels) = crash_history(s, sc, None, out, kv);
        out = o;
        total += lines;
        // crash points: all of them, or a sample of at most maxk: the first and the last occurrence of every
        // distinct pair (previous write, this write) -- a crash point is a place BETWEEN two writes --, the rest
        // evenly spread
        let ks: Vec<usize> = if w <= maxk {
            (1..=w).collect()
        } else {
            let mut first: Vec<(String, usize)> = Vec::new();
            let mut last: HashMap<String, usize> = HashMap::new();
            for (i, l) in labels.iter().enumerate() {
                let key = format!("{}>{}", if i == 0 { "" } else { labels[i - 1].as_str() }, l);
                if !last.contains_key(&key) {
                    first.push((key.clone(), i + 1));
                }
                last.insert(key, i + 1);
            }
            let mut ks: Vec<usize> = first.iter().map(|(_, k)| *k).collect();
            for (key, _) in first.iter() {
                ks.push(last[key]);
            }
            ks.sort();
            ks.dedup();
            if ks.len() > maxk {
                // more pairs than the budget: the first occurrences only, evenly thinned
                let firsts: Vec<usize> = first.iter().map(|(_, k)| *k).collect();
                ks = (0..maxk).map(|i| firsts[i * firsts.len() / maxk]).collect();
            }
            let room = maxk.saturating_sub(ks.len());
            for i in 0..room {
                ks.push(1 + i * w / room.max(1));
            }
            ks.sort();
            ks.dedup();
            ks
        };
        for k in ks {
            let (o, lines, _p, _w, _l) = crash_history(s, sc, Some(k), out, kv);
            out = o;
            total += lines;
            points += 1;
        }
    }
    out.flush().ok();
    eprintln!("filtersync mode=crash histories={} crash_points={} lines={}", n, points, total);
    0
}


/// Specification -> implementation for the filter pipeline: the environment events of one behaviour of
/// MC_FilterForkR (TLC -simulate) executed on the real client.  The world has the shape of the model's world (same
/// block ids 1..10: main chain 1..7, the heavier branch 8..10 on block 5; script 1 has cells in blocks 3, 6, 8, 9,
/// script 2 one in block 4 that block 9 spends) plus a few blocks on top of either branch: a restarted client can
/// only prove a peer again that announces a header above the stored tip.
fn replay_world(rng: &mut StdRng) -> (SimChain, Vec<usize>, Vec<usize>) {
    use crate::verif::world::{WBlock, WCell, WTx};
    let p = ChainParams { pow: "dummy".to_owned(), epoch_len: (100, 100), vary_difficulty: false };
    let scripts = gen::default_scripts();
    let mut chain = SimChain::new("dummy", &scripts);
    let cell = |lock: usize, cap: u64| WCell { lock, type_: None, cap, data_len: 0 };
    let mut add = |chain: &mut SimChain, parent: usize, txs: Vec<WTx>, rng: &mut StdRng| -> usize {
        let (epoch, diff) = gen::next_epoch(chain, parent, &p, rng);
        chain.add_block(&WBlock { parent: parent as i64, diff, epoch, pow: true, root: true, txs })
    };
    let b2 = add(&mut chain, 0, vec![], rng);
    let b3 = add(&mut chain, b2, vec![WTx { inputs: vec![], outputs: vec![cell(0, 100)], same_as: None }], rng);
    let ta = chain.blocks[b3].tx_ids[1];
    let b4 = add(&mut chain, b3, vec![WTx { inputs: vec![(ta, 0)], outputs: vec![cell(1, 90)], same_as: None }], rng);
    let tb = chain.blocks[b4].tx_ids[1];
    let b5 = add(&mut chain, b4, vec![], rng);
    let b6 = add(&mut chain, b5, vec![WTx { inputs: vec![], outputs: vec![cell(0, 80)], same_as: None }], rng);
    let b7 = add(&mut chain, b6, vec![], rng);
    let b8 = add(&mut chain, b5, vec![WTx { inputs: vec![], outputs: vec![cell(0, 70)], same_as: None }], rng);
    let b9 = add(&mut chain, b8, vec![WTx { inputs: vec![(tb, 0)], outputs: vec![cell(0, 60)], same_as: None }], rng);
    let b10 = add(&mut chain, b9, vec![], rng);
    assert_eq!((b7, b8, b10), (6, 7, 9));
    // spare blocks: old branch 7 -> 11, 12;  new branch 10 -> 13, 14, 15, 16
    let mut old = vec![b7];
    let mut cur = b7;
    for _ in 0..2 {
        cur = add(&mut chain, cur, vec![], rng);
        old.push(cur);
    }
    let mut newb = vec![b10];
    cur = b10;
    for _ in 0..4 {
        cur = add(&mut chain, cur, vec![], rng);
        newb.push(cur);
    }
    (chain, old, newb)
}

fn replay_scenario(events: &[serde_json::Value], sc: usize, out: Box<dyn std::io::Write>, skipped: &mut u64) -> (Box<dyn std::io::Write>, u64, Vec<String>) {
    use ckb_types::prelude::*;
    let mut rng = StdRng::seed_from_u64(77);
    let (chain, old, newb) = replay_world(&mut rng);
    let interval = 100u64;
    // (last-N 5: the fork stays shallower than last-N also when the old branch has grown by the spare blocks)
    let cfg = Config { last_n: 5, max_outbound: 1, interval, blocks_in_transit: 8, ..Default::default() };
    let mut sim: Sim = new_sim(chain, cfg, 1, out, &format!("freplay-{}", sc), vec!["peersync", "filter"]);
    let mut env = Env::new(&sim, &[(old[0], old[0])]);
    env.peers[0].server.hashes_batch = 16;
    env.peers[0].server.filters_batch = 3;
    sim.reset(json!({"mode": "replay"}));
    let mut forked = false;
    let (mut old_k, mut new_k) = (0usize, 0usize);
    // the peer is proven and its filter hashes are known (as in the model's initial state)
    let prove = |sim: &mut Sim, env: &mut Env| {
        if !env.peers[0].connected {
            env.connect(sim, 0);
        }
        env.send_last_state(sim, 0);
        env.refresh(sim);
        while env.answer_proof(sim, 0) {}
        env.refresh(sim);
        for _ in 0..3 {
            env.filter_tick(sim, 1, true);
            let mut any = false;
            while env.answer_filter(sim, 0, interval) {
                any = true;
            }
            if !any {
                break;
            }
        }
    };
    prove(&mut sim, &mut env);
    for e in events {
        if !sim.panics.is_empty() || !env.peers[0].connected {
            break;
        }
        let k = e["k"].as_str().unwrap_or("");
        match k {
            "SetScripts" => {
                let list: Vec<(usize, bool, u64)> = e["l"].as_array().map(|a| a.iter().map(|x| {
                    let key = x[0].as_u64().unwrap_or(2) as usize;
                    (key / 2 - 1, key % 2 == 1, x[1].as_u64().unwrap_or(0))
                }).collect()).unwrap_or_default();
                env.set_scripts(&mut sim, e["x"].as_str().unwrap_or("all"), &list);
            }
            "Filters" => {
                env.peers[0].server.filters_batch = e["n"].as_u64().unwrap_or(1) as usize;
                env.unsolicited_filters(&mut sim, 0);
            }
            "BlocksProof" => {
                if !env.answer_blocks_proof(&mut sim, 0) {
                    env.idle_tick(&mut sim);
                    if !env.answer_blocks_proof(&mut sim, 0) {
                        *skipped += 1;
                    }
                }
            }
            "Block" => {
                let b = e["n"].as_u64().unwrap_or(1) as usize - 1;
                let h = sim.chain.blocks[b].header.hash();
                let asked = |sim: &Sim| sim.inbox.iter().any(|s| crate::verif::sim::as_get_blocks(s).map(|g| g.block_hashes().into_iter().any(|x| x == h)).unwrap_or(false));
                if !asked(&sim) {
                    env.idle_tick(&mut sim);
                }
                if asked(&sim) {
                    let content = ckb_types::packed::SendBlock::new_builder().block(sim.chain.blocks[b].block.data()).build();
                    let m = ckb_types::packed::SyncMessage::new_builder().set(content).build();
                    env.deliver_block(&mut sim, 0, m, "true");
                } else {
                    *skipped += 1;
                }
            }
            "Tick" => env.filter_tick(&mut sim, 0, true),
            "Restart" => {
                // the peer has one more block when the client comes back
                let can = if forked { new_k + 1 < newb.len() } else { old_k + 1 < old.len() };
                if !can {
                    *skipped += 1;
                    continue;
                }
                env.restart(&mut sim);
                if forked {
                    new_k += 1;
                    env.peers[0].server.tip = newb[new_k];
                } else {
                    old_k += 1;
                    env.peers[0].server.tip = old[old_k];
                }
                env.peers[0].leaf = env.peers[0].server.tip;
                prove(&mut sim, &mut env);
            }
            "Fork" => {
                if forked {
                    *skipped += 1;
                    continue;
                }
                forked = true;
                // the first block of the new branch that is higher than what the peer has announced so far
                let cur_num = sim.chain.blocks[old[old_k]].num;
                new_k = newb.iter().position(|b| sim.chain.blocks[*b].num > cur_num).unwrap_or(newb.len() - 1);
                env.peers[0].server.tip = newb[new_k];
                env.peers[0].leaf = newb[new_k];
                sim.inbox.clear();
                prove(&mut sim, &mut env);
            }
            _ => *skipped += 1,
        }
        env.enforce_bans(&mut sim);
    }
    let lines = sim.lines;
    let panics = sim.panics.clone();
    let out = std::mem::replace(&mut sim.out, Box::new(std::io::sink()));
    (out, lines, panics)
}


/// Specification -> implementation for the check point machinery (C07): the events of one behaviour of
/// MC_CheckPointsR on a real chain (interval 2, three peers, capacity 3: quorum 2, peer 3 reports invented values).
fn cpreplay_scenario(events: &[serde_json::Value], sc: usize, out: Box<dyn std::io::Write>, skipped: &mut u64) -> (Box<dyn std::io::Write>, u64, Vec<String>) {
    let mut rng = StdRng::seed_from_u64(99);
    let interval = 2u64;
    let built = build_tx_world(&mut rng, "dummy", 10, 0, 1, 1);
    let cfg = Config { last_n: 3, max_outbound: 3, interval, blocks_in_transit: 2, ..Default::default() };
    let leaf = built.leaves[0];
    let mut sim: Sim = new_sim(built.chain, cfg, 3, out, &format!("cpreplay-{}", sc), vec!["peersync", "filter"]);
    let mut env = Env::new(&sim, &[(leaf, leaf), (leaf, leaf), (leaf, leaf)]);
    sim.reset(json!({"mode": "cp", "liars": ["p3"], "required": 2}));
    env.set_scripts(&mut sim, "all", &[(0, false, 0)]);
    let chain_ids = sim.chain.chain_of(leaf);
    let tip_num = sim.chain.blocks[leaf].num;
    for e in events {
        if !sim.panics.is_empty() {
            break;
        }
        let i = match e["p"].as_str().unwrap_or("") { "p1" => 0usize, "p2" => 1, "p3" => 2, _ => 0 };
        match e["k"].as_str().unwrap_or("") {
            "Connect" => {
                if !env.peers[i].connected { env.connect(&mut sim, i) } else { *skipped += 1 }
            }
            "Disconnect" => {
                if env.peers[i].connected { env.disconnect(&mut sim, i) } else { *skipped += 1 }
            }
            "Prove" => {
                let proven = sim.client().peers.get_state(&env.peers[i].idx).map(|st| st.get_prove_state().is_some()).unwrap_or(false);
                if env.peers[i].connected && !proven {
                    env.send_last_state(&mut sim, i);
                    while env.peers[i].connected && env.answer_proof(&mut sim, i) {}
                } else {
                    *skipped += 1
                }
            }
            "Report" => {
                if !env.peers[i].connected {
                    *skipped += 1;
                    continue;
                }
                let start = e["s"].as_u64().unwrap_or(0);
                let mut vals = Vec::new();
                let mut lie = false;
                for (k, v) in e["v"].as_array().cloned().unwrap_or_default().iter().enumerate() {
                    let n = start + k as u64 * interval;
                    if v.as_u64() == Some(1) {
                        if n > tip_num {
                            break;
                        }
                        vals.push(sim.chain.blocks[chain_ids[n as usize]].filter_hash.clone());
                    } else {
                        lie = true;
                        vals.push(crate::verif::env::fake_cp(1, n / interval));
                    }
                }
                env.send_check_points(&mut sim, i, start, vals, if lie { "lie" } else { "honest" });
            }
            "Refresh" => env.refresh(&mut sim),
            "Restart" => env.restart(&mut sim),
            _ => *skipped += 1,
        }
        env.enforce_bans(&mut sim);
    }
    let lines = sim.lines;
    let panics = sim.panics.clone();
    let out = std::mem::replace(&mut sim.out, Box::new(std::io::sink()));
    (out, lines, panics)
}

/// Specification -> implementation for the fetch bookkeeping (C16): the events of one behaviour of MC_FetchR on the
/// world of `replay_world` with two peers that serve the old branch (block ids 1..7).  Header 3 / transaction of
/// block 4 are on the served chain; header 8 / the transaction of block 8 are on the other branch (reported missing).
fn fetchreplay_scenario(events: &[serde_json::Value], sc: usize, out: Box<dyn std::io::Write>, skipped: &mut u64) -> (Box<dyn std::io::Write>, u64, Vec<String>) {
    let mut rng = StdRng::seed_from_u64(78);
    let (chain, old, _newb) = replay_world(&mut rng);
    let interval = 100u64;
    let cfg = Config { last_n: 5, max_outbound: 2, interval, blocks_in_transit: 8, ..Default::default() };
    let mut sim: Sim = new_sim(chain, cfg, 2, out, &format!("fetchreplay-{}", sc), vec!["peersync", "filter"]);
    let mut env = Env::new(&sim, &[(old[0], old[0]), (old[0], old[0])]);
    sim.reset(json!({"mode": "fetchreplay"}));
    // model transaction id -> world transaction (the non-cellbase transaction of its block)
    let tx_of = |sim: &Sim, t: u64| -> usize {
        let b = match t { 1 => 2, 2 => 3, 3 => 5, 4 => 7, _ => 8 };
        sim.chain.blocks[b].tx_ids[1]
    };
    let proven = |sim: &Sim, env: &Env, i: usize| sim.client().peers.get_state(&env.peers[i].idx).map(|st| st.get_prove_state().is_some()).unwrap_or(false);
    let prove = |sim: &mut Sim, env: &mut Env, i: usize| {
        if !env.peers[i].connected {
            env.connect(sim, i);
        }
        env.send_last_state(sim, i);
        env.refresh(sim);
        while env.peers[i].connected && env.answer_proof(sim, i) {}
    };
    for i in 0..2 {
        prove(&mut sim, &mut env, i);
    }
    let mut grown = 0usize;
    for e in events {
        if !sim.panics.is_empty() {
            break;
        }
        let i = if e["p"].as_str() == Some("p2") { 1usize } else { 0 };
        let n = e["n"].as_u64().unwrap_or(0);
        match e["k"].as_str().unwrap_or("") {
            "CallH" => env.rpc_fetch_header(&mut sim, n as usize - 1),
            "CallT" => {
                let t = tx_of(&sim, n);
                env.rpc_fetch_tx(&mut sim, t)
            }
            "Tick" => env.fetch_tick(&mut sim),
            "AnswerH" => {
                if !(env.peers[i].connected && env.answer_blocks_proof(&mut sim, i)) {
                    *skipped += 1
                }
            }
            "AnswerT" => {
                if !(env.peers[i].connected && env.answer_txs_proof(&mut sim, i)) {
                    *skipped += 1
                }
            }
            "RejectH" => {
                if !(env.peers[i].connected && env.mutate_blocks_proof(&mut sim, i, &mut rng)) {
                    *skipped += 1
                }
            }
            "RejectT" => {
                if !(env.peers[i].connected && env.mutate_txs_proof(&mut sim, i, &mut rng)) {
                    *skipped += 1
                }
            }
            "Disc" => {
                if env.peers[i].connected { env.disconnect(&mut sim, i) } else { *skipped += 1 }
            }
            "Reconn" => {
                if env.peers[i].connected {
                    *skipped += 1;
                    continue;
                }
                prove(&mut sim, &mut env, i);
                if env.peers[i].connected && !proven(&sim, &env, i) && grown + 1 < old.len() {
                    // nobody holds a proof of the stored tip any more: the peers have one more block by now
                    grown += 1;
                    for j in 0..2 {
                        env.peers[j].server.tip = old[grown];
                        env.peers[j].leaf = old[grown];
                    }
                    for j in 0..2 {
                        if env.peers[j].connected {
                            prove(&mut sim, &mut env, j);
                        }
                    }
                }
            }
            _ => *skipped += 1,
        }
        env.enforce_bans(&mut sim);
    }
    let lines = sim.lines;
    let panics = sim.panics.clone();
    let out = std::mem::replace(&mut sim.out, Box::new(std::io::sink()));
    (out, lines, panics)
}

fn run_replay(kv: &HashMap<String, String>) -> i32 {
    let path = arg_str(kv, "out", "/dev/stdout");
    let file = arg_str(kv, "file", "");
    let n = arg_u64(kv, "n", 100) as usize;
    let seed = arg_u64(kv, "seed", 1) as usize;
    let text = std::fs::read_to_string(&file).expect("read scenario file");
    let lines: Vec<&str> = text.lines().filter(|l| l.starts_with('[')).collect();
    let mut out: Box<dyn std::io::Write> = Box::new(BufWriter::new(File::create(&path).expect("open out")));
    if arg_u64(kv, "wlog", 0) == 1 {
        crate::verif::sim::wlog_enable(&format!("{}.w", path));
    }
    let (mut total, mut skipped, mut done) = (0u64, 0u64, 0usize);
    let mut panics = Vec::new();
    let m = lines.len().max(1);
    for k in 0..n.min(lines.len()) {
        let idx = (seed * 7919 + k * (m / n.max(1)).max(1)) % m;
        let events: Vec<serde_json::Value> = match serde_json::from_str(lines[idx]) {
            Ok(v) => v,
            Err(_) => continue,
        };
        let (o, l, p) = if arg_str(kv, "mode", "replay") == "cpreplay" {
            cpreplay_scenario(&events, idx, out, &mut skipped)
        } else if arg_str(kv, "mode", "replay") == "fetchreplay" {
            fetchreplay_scenario(&events, idx, out, &mut skipped)
        } else {
            replay_scenario(&events, idx, out, &mut skipped)
        };
        out = o;
        total += l;
        done += 1;
        panics.extend(p);
    }
    out.flush().ok();
    crate::verif::sim::wlog_finish();
    eprintln!("filtersync mode=replay scenarios={} lines={} skipped_events={} panics={}", done, total, skipped, panics.len());
    0
}

pub fn run(kv: &HashMap<String, String>) -> i32 {
    if ["replay", "cpreplay", "fetchreplay"].contains(&arg_str(kv, "mode", "sync").as_str()) {
        return run_replay(kv);
    }
    if arg_str(kv, "mode", "sync") == "crash" {
        return run_crash(kv);
    }
    let seed = arg_u64(kv, "seed", 1);
    let n = arg_u64(kv, "n", 5) as usize;
    let mode = arg_str(kv, "mode", "sync");
    let path = arg_str(kv, "out", "/dev/stdout");
    let mut out: Box<dyn std::io::Write> = Box::new(BufWriter::new(File::create(&path).expect("open out")));
    if arg_u64(kv, "wlog", 0) == 1 {
        // write-level trace beside the event trace
        crate::verif::sim::wlog_enable(&format!("{}.w", path));
    }
    let mut total = 0;
    let mut panics = Vec::new();
    for sc in 0..n {
        let mut rng = StdRng::seed_from_u64(seed.wrapping_mul(1_000_003).wrapping_add(sc as u64));
        let (o, lines, p) = match mode.as_str() {
            "pump" => sync_scenario(&mut rng, sc, out, kv),
            "adv" => adv_scenario(&mut rng, sc, out, kv, false),
            "advsub" => adv_scenario(&mut rng, sc, out, kv, true),
            "sync" | "scripts" | "fetch" | "forkrand" => rand_scenario(&mut rng, sc, out, kv, if mode == "forkrand" { "fork" } else { &mode }),
            "fork" => fork_scenario(&mut rng, sc, out, kv),
            "cp" => cp_scenario(&mut rng, sc, out, kv),
            _ => {
                eprintln!("unknown mode {}", mode);
                return 2;
            }
        };
        out = o;
        total += lines;
        panics.extend(p);
    }
    out.flush().ok();
    crate::verif::sim::wlog_finish();
    eprintln!("filtersync mode={} scenarios={} lines={} panics={}", mode, n, total, panics.len());
    0
}
