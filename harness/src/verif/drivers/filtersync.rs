//! Drivers for the filter pipeline / index (C03, C04, C06, C09, C02).
use crate::verif::client::Config;
use crate::verif::env::Env;
use crate::verif::gen::{self, ChainParams, TxGen};
use crate::verif::sim::{new_sim, Sim};
use crate::verif::world::SimChain;
use crate::verif::{arg_str, arg_u64};
use rand::{rngs::StdRng, Rng, SeedableRng};
use serde_json::json;
use std::collections::HashMap;
use std::fs::File;
use std::io::BufWriter;

pub struct FBuilt {
    pub chain: SimChain,
    pub leaves: Vec<usize>,
}

pub fn build_tx_world(rng: &mut StdRng, pow: &str, main_len: usize, forks: usize, max_depth: usize, max_txs: usize) -> FBuilt {
    let p = ChainParams { pow: pow.to_owned(), epoch_len: (3, 8), vary_difficulty: true };
    let scripts = gen::default_scripts();
    let mut chain = SimChain::new(pow, &scripts);
    let mut tg = TxGen::new(scripts.len(), max_txs);
    let main = gen::extend_with_txs(&mut chain, 0, main_len, &p, rng, &mut tg);
    let mut leaves = vec![main];
    for _ in 0..forks {
        let depth = rng.gen_range(1..=max_depth.max(1)).min(main_len.saturating_sub(1)).max(1);
        let main_num = chain.blocks[main].num;
        let fork_at = chain.ancestor_at(main, main_num - depth as u64).unwrap();
        let extra = rng.gen_range(1..=2usize);
        let leaf = gen::extend_with_txs(&mut chain, fork_at, depth + extra, &p, rng, &mut tg);
        leaves.push(leaf);
    }
    FBuilt { chain, leaves }
}

/// One full round of honest traffic: announcements, proofs, filter ticks and answers, block download.
pub fn pump(sim: &mut Sim, env: &mut Env, rng: &mut StdRng, interval: u64) {
    let n = env.peers.len();
    for i in 0..n {
        if !env.peers[i].connected {
            env.connect(sim, i);
        }
        env.send_last_state(sim, i);
        env.enforce_bans(sim);
    }
    env.refresh(sim);
    for i in 0..n {
        while env.peers[i].connected && env.answer_proof(sim, i) {
            env.enforce_bans(sim);
        }
    }
    env.refresh(sim); // finalize check points with the new prove states
    for token in [2u64, 1, 0] {
        env.filter_tick(sim, token, true);
        drain(sim, env, rng, interval);
    }
    env.idle_tick(sim);
    drain(sim, env, rng, interval);
    sim.advance(1);
    env.refresh(sim);
    let dropped = sim.last_drops.clone();
    for i in 0..n {
        if dropped.contains(&env.peers[i].idx) && env.peers[i].connected {
            env.disconnect(sim, i);
        }
    }
}

/// Answers every outstanding request of the filter / blocks-proof / sync protocols until none is left.
pub fn drain(sim: &mut Sim, env: &mut Env, rng: &mut StdRng, interval: u64) {
    let n = env.peers.len();
    for _ in 0..200 {
        let mut any = false;
        for i in 0..n {
            if !env.peers[i].connected {
                continue;
            }
            if env.answer_filter(sim, i, interval) {
                any = true;
                env.enforce_bans(sim);
            }
            if env.peers[i].connected && env.answer_blocks_proof(sim, i) {
                any = true;
                env.enforce_bans(sim);
            }
            if env.peers[i].connected && env.answer_blocks(sim, i, rng.gen_bool(0.5)) {
                any = true;
                env.enforce_bans(sim);
            }
        }
        if !any {
            break;
        }
    }
}

fn sync_scenario(rng: &mut StdRng, sc: usize, out: Box<dyn std::io::Write>, kv: &HashMap<String, String>) -> (Box<dyn std::io::Write>, u64, Vec<String>) {
    let pow = if rng.gen_bool(0.2) { "eaglesong" } else { "dummy" };
    let main_len = rng.gen_range(6..=arg_u64(kv, "maxlen", 30) as usize);
    let last_n = *[2u64, 3, 5, 10][..].get(rng.gen_range(0..4)).unwrap();
    let interval = *[3u64, 4, 5][..].get(rng.gen_range(0..3)).unwrap();
    let npeers = rng.gen_range(1..=3usize);
    let built = build_tx_world(rng, pow, main_len, 0, 1, 3);
    let cfg = Config { last_n, max_outbound: npeers as u32, interval, blocks_in_transit: rng.gen_range(1..=4) };
    let leaf = built.leaves[0];
    let mut sim: Sim = new_sim(built.chain, cfg, npeers, out, &format!("sync-{}", sc), vec!["peersync", "filter"]);
    let nleaf = sim.chain.blocks[leaf].num;
    let tips: Vec<(usize, usize)> = (0..npeers)
        .map(|_| (sim.chain.ancestor_at(leaf, rng.gen_range((nleaf / 2).max(1)..=nleaf)).unwrap(), leaf))
        .collect();
    let mut env = Env::new(&sim, &tips);
    for ep in env.peers.iter_mut() {
        ep.server.filters_batch = rng.gen_range(1..=5);
        ep.server.hashes_batch = rng.gen_range(2..=8);
        ep.server.cp_batch = rng.gen_range(2..=6);
    }
    sim.reset(json!({"mode": "sync"}));
    // register scripts
    let nscripts = sim.chain.scripts.len();
    let mut list = Vec::new();
    for sid in 0..nscripts {
        if rng.gen_bool(0.6) {
            list.push((sid, rng.gen_bool(0.25), rng.gen_range(0..=(nleaf / 2))));
        }
    }
    if list.is_empty() {
        list.push((0, false, 0));
    }
    env.set_scripts(&mut sim, "all", &list);
    let rounds = arg_u64(kv, "rounds", 12);
    for _ in 0..rounds {
        for i in 0..npeers {
            env.grow(&sim, i, rng.gen_range(0..=3));
        }
        pump(&mut sim, &mut env, rng, interval);
    }
    for i in 0..npeers {
        env.grow(&sim, i, u64::MAX / 2);
    }
    for _ in 0..(main_len / 2 + 8) {
        pump(&mut sim, &mut env, rng, interval);
    }
    let tips_now: Vec<usize> = env.peers.iter().map(|p| p.server.tip + 1).collect();
    sim.step("Quiescent", json!({"tips": tips_now, "bans": 0}), |_| Ok(()));
    let lines = sim.lines;
    let panics = sim.panics.clone();
    let out = std::mem::replace(&mut sim.out, Box::new(std::io::sink()));
    (out, lines, panics)
}

pub fn run(kv: &HashMap<String, String>) -> i32 {
    let seed = arg_u64(kv, "seed", 1);
    let n = arg_u64(kv, "n", 5) as usize;
    let mode = arg_str(kv, "mode", "sync");
    let path = arg_str(kv, "out", "/dev/stdout");
    let mut out: Box<dyn std::io::Write> = Box::new(BufWriter::new(File::create(&path).expect("open out")));
    let mut total = 0;
    let mut panics = Vec::new();
    for sc in 0..n {
        let mut rng = StdRng::seed_from_u64(seed.wrapping_mul(1_000_003).wrapping_add(sc as u64));
        let (o, lines, p) = match mode.as_str() {
            "sync" => sync_scenario(&mut rng, sc, out, kv),
            _ => {
                eprintln!("unknown mode {}", mode);
                return 2;
            }
        };
        out = o;
        total += lines;
        panics.extend(p);
    }
    out.flush().ok();
    eprintln!("filtersync mode={} scenarios={} lines={} panics={}", mode, n, total, panics.len());
    0
}
