//! C14: the real verify_tau / verify_total_difficulty against Difficulty.tla.
//!
//! grid: inputs over a small grid (epochs of length 1..3, well-formed and malformed positions, epoch numbers in
//!       and out of order, block difficulties that survive the compact-target round trip, totals around every
//!       boundary) -- the trace specification recomputes the verdict with the transcription;
//! hist: random legal histories on the same scale, logged with the history as the witness of legality;
//! big:  legal histories with up to thousands of epochs and 256-bit-scale difficulties (must be accepted) and
//!       arbitrary numbers (must not abort).
use crate::protocols::light_client::verif_access::{verify_tau, verify_total_difficulty};
use crate::verif::client::guard_val;
use crate::verif::{arg_str, arg_u64};
use ckb_constant::consensus::TAU;
use ckb_types::{
    core::EpochNumberWithFraction,
    utilities::{compact_to_difficulty, difficulty_to_compact},
    U256,
};
use rand::{rngs::StdRng, Rng, SeedableRng};
use serde_json::{json, Value};
use std::collections::HashMap;
use std::fs::File;
use std::io::{BufWriter, Write};

const BASE: u64 = 10;

fn ep(e: (u64, u64, u64)) -> EpochNumberWithFraction {
    EpochNumberWithFraction::new_unchecked(e.0, e.1, e.2)
}

fn call_vtd(e1: EpochNumberWithFraction, c1: u32, t1: &U256, e2: EpochNumberWithFraction, c2: u32, t2: &U256) -> &'static str {
    match guard_val(|| verify_total_difficulty(e1, c1, t1, e2, c2, t2, TAU)) {
        Ok(Ok(())) => "ok",
        Ok(Err(_)) => "reject",
        Err(_) => "panic",
    }
}

fn call_vtau(e1: EpochNumberWithFraction, c1: u32, e2: EpochNumberWithFraction, c2: u32) -> &'static str {
    match guard_val(|| verify_tau(e1, c1, e2, c2, TAU)) {
        Ok(Ok(true)) => "ok",
        Ok(Ok(false)) => "fail",
        Ok(Err(_)) => "ban",
        Err(_) => "panic",
    }
}

/// Small block difficulties d with compact_to_difficulty(difficulty_to_compact(d)) == d.
fn exact_difficulties() -> Vec<(u64, u32)> {
    (1u64..=40)
        .filter_map(|d| {
            let c = difficulty_to_compact(U256::from(d));
            if compact_to_difficulty(c) == U256::from(d) {
                Some((d, c))
            } else {
                None
            }
        })
        .collect()
}

fn pow(b: u64, m: u64) -> u64 {
    (0..m).fold(1u64, |a, _| a.saturating_mul(b))
}

fn grid_event(rng: &mut StdRng, ds: &[(u64, u32)]) -> Value {
    let l1 = rng.gen_range(1..=3u64);
    let i1 = if rng.gen_bool(0.9) { rng.gen_range(0..l1) } else { rng.gen_range(l1..=l1 + 1) };
    let l2 = rng.gen_range(1..=3u64);
    let i2 = if rng.gen_bool(0.9) { rng.gen_range(0..l2) } else { rng.gen_range(l2..=l2 + 1) };
    // (one event in six: a steep trend -- many epoch switches with the epoch difficulty moving by almost tau at
    //  every one of them, up or down; the legal totals then lie far from "the start difficulty all the way")
    let steep = rng.gen_bool(0.17);
    let n: i64 = if steep { rng.gen_range(4..=6) } else { *[-1i64, 0, 0, 1, 1, 2, 2, 3, 3, 4, 5, 6][..].get(rng.gen_range(0..12)).unwrap() };
    let (l1, i1, l2, i2) = if steep { (1, 0, *[1u64, 2, 3][..].get(rng.gen_range(0..3)).unwrap(), 0) } else { (l1, i1, l2, i2) };
    let pick = |rng: &mut StdRng, want: u64| -> (u64, u32) {
        // the exact difficulty closest to `want`
        let mut best = ds[0];
        for x in ds.iter() {
            if (x.0 as i64 - want as i64).abs() < (best.0 as i64 - want as i64).abs() {
                best = *x;
            }
        }
        let _ = rng;
        best
    };
    let (d1, c1, d2, c2) = if steep {
        let k = (n as u64).saturating_sub(rng.gen_range(0..=1));
        if rng.gen_bool(0.5) {
            // growth: start small, end about start * 2^k
            let (d1, c1) = ds[rng.gen_range(0..2.min(ds.len()))];
            let (d2, c2) = pick(rng, (d1 * pow(2, k) / l2).max(1));
            (d1, c1, d2, c2)
        } else {
            // shrinkage: start large, end about start / 2^k
            let (d1, c1) = ds[ds.len() - 1 - rng.gen_range(0..3.min(ds.len()))];
            let (d2, c2) = pick(rng, (d1 / pow(2, k) / l2).max(1));
            (d1, c1, d2, c2)
        }
    } else {
        let (d1, c1) = ds[rng.gen_range(0..ds.len().min(8))];
        let (d2, c2) = if n == 0 && rng.gen_bool(0.8) { (d1, c1) } else { ds[rng.gen_range(0..ds.len().min(8))] };
        (d1, c1, d2, c2)
    };
    let e1 = (BASE, i1, l1);
    let e2 = ((BASE as i64 + n) as u64, i2, l2);
    let s = d1 * l1;
    let t = d2 * l2;
    let unaligned = d1 * (l1.saturating_sub(i1 + 1)) + d2 * (i2 + 1);
    let nn = n.max(0) as u64;
    // interesting totals: around the exact values and every bound the specification mentions
    let grow: u64 = (1..nn).map(|i| s * pow(2, i)).sum();
    let shrink: u64 = (1..nn).map(|i| s / pow(2, i)).sum();
    let tight_max: u64 = (1..nn).map(|i| (s * pow(2, i)).min(t * pow(2, nn - i))).sum();
    let tight_min: u64 = (1..nn)
        .map(|i| ((s + pow(2, i) - 1) / pow(2, i)).max((t + pow(2, nn - i) - 1) / pow(2, nn - i)))
        .sum();
    let same = d1 * i2.saturating_sub(i1);
    // "the start epoch difficulty for every full epoch in between"
    let flat = unaligned + s * nn.saturating_sub(1);
    let cands = [0, same, unaligned, unaligned + grow, unaligned + shrink, unaligned + tight_max, unaligned + tight_min,
        flat, (flat + unaligned + tight_min) / 2, (flat + unaligned + tight_max) / 2];
    let total = if rng.gen_bool(0.6) {
        let c = cands[rng.gen_range(0..cands.len())] as i64 + rng.gen_range(-2i64..=2);
        c.max(0) as u64
    } else {
        rng.gen_range(0..=(unaligned + grow + 3))
    };
    let t1: u64 = rng.gen_range(0..5);
    let t2: i64 = if rng.gen_bool(0.03) { t1 as i64 - 1 } else { (t1 + total) as i64 };
    let t2 = t2.max(0) as u64;
    let res = call_vtd(ep(e1), c1, &U256::from(t1), ep(e2), c2, &U256::from(t2));
    let tau = call_vtau(ep(e1), c1, ep(e2), c2);
    json!({"ev": "Check", "a": {"cls": "grid", "e1": [e1.0, e1.1, e1.2], "d1": d1, "t1": t1, "e2": [e2.0, e2.1, e2.2], "d2": d2, "t2": t2},
        "vtd": res, "vtau": tau})
}

/// A random legal history of small numbers; two positions in it.
fn hist_event(rng: &mut StdRng, ds: &[(u64, u32)]) -> Value {
    let n_epochs = rng.gen_range(1..=7usize);
    let mut hist: Vec<(u64, u64, u32)> = Vec::new(); // (length, d, compact)
    while hist.len() < n_epochs {
        let l = rng.gen_range(1..=3u64);
        let (d, c) = ds[rng.gen_range(0..ds.len())];
        if let Some((pl, pd, _)) = hist.last() {
            let (e0, e1) = (pl * pd, l * d);
            if !(e1 * 2 >= e0 && e1 <= e0 * 2) {
                continue;
            }
        }
        hist.push((l, d, c));
    }
    let pos = |rng: &mut StdRng, hist: &Vec<(u64, u64, u32)>| {
        let i = rng.gen_range(0..hist.len());
        (i, rng.gen_range(0..hist[i].0))
    };
    let (mut p, mut q) = (pos(rng, &hist), pos(rng, &hist));
    if q < p {
        std::mem::swap(&mut p, &mut q);
    }
    let td = |p: (usize, u64)| -> u64 { hist[..p.0].iter().map(|(l, d, _)| l * d).sum::<u64>() + hist[p.0].1 * (p.1 + 1) };
    let e1 = (BASE + p.0 as u64, p.1, hist[p.0].0);
    let e2 = (BASE + q.0 as u64, q.1, hist[q.0].0);
    let base: u64 = rng.gen_range(0..4);
    let (t1, t2) = (base + td(p), base + td(q));
    let res = call_vtd(ep(e1), hist[p.0].2, &U256::from(t1), ep(e2), hist[q.0].2, &U256::from(t2));
    let tau = call_vtau(ep(e1), hist[p.0].2, ep(e2), hist[q.0].2);
    json!({"ev": "Check", "a": {"cls": "legal", "e1": [e1.0, e1.1, e1.2], "d1": hist[p.0].1, "t1": t1, "e2": [e2.0, e2.1, e2.2], "d2": hist[q.0].1, "t2": t2,
        "hist": hist.iter().map(|(l, d, _)| json!([l, d])).collect::<Vec<_>>(), "p": [p.0 + 1, p.1], "q": [q.0 + 1, q.1], "base": base},
        "vtd": res, "vtau": tau})
}

fn rand_u256(rng: &mut StdRng, bits: u32) -> U256 {
    let mut b = [0u8; 32];
    rng.fill(&mut b);
    let v = U256::from_le_bytes(&b);
    if bits >= 256 {
        v
    } else {
        (v >> (256 - bits)) | (U256::one() << (bits - 1))
    }
}

/// A tame legal history (every epoch difficulty within [0.8, 1.25] of the previous one) of big numbers.
fn big_legal_event(rng: &mut StdRng) -> Value {
    let n_epochs = if rng.gen_bool(0.1) { rng.gen_range(100..=3000usize) } else { rng.gen_range(1..=30usize) };
    let bits = rng.gen_range(12..=200u32);
    let mut hist: Vec<(u64, U256, u32)> = Vec::new();
    let mut guard = 0;
    while hist.len() < n_epochs && guard < 100_000 {
        guard += 1;
        let l = rng.gen_range(1..=1800u64);
        let d = match hist.last() {
            None => rand_u256(rng, bits),
            Some((pl, pd, _)) => {
                // aim at an epoch difficulty within [0.85, 1.18] of the previous one
                let e0 = pd * U256::from(*pl);
                // (no drift: long histories stay on the scale they started at)
                let first = &hist[0].1 * U256::from(hist[0].0);
                let f = if e0 > first { rng.gen_range(850u64..=1050) } else { rng.gen_range(950u64..=1180) };
                (e0 / U256::from(1000u64) * U256::from(f)) / U256::from(l)
            }
        };
        if d.is_zero() {
            continue;
        }
        let c = difficulty_to_compact(d);
        let d = compact_to_difficulty(c);
        if d.is_zero() {
            continue;
        }
        if let Some((pl, pd, _)) = hist.last() {
            let e0 = pd * U256::from(*pl);
            let e1 = &d * U256::from(l);
            // within [0.8, 1.25]
            if !(&e1 * U256::from(5u64) >= &e0 * U256::from(4u64) && &e1 * U256::from(4u64) <= &e0 * U256::from(5u64)) {
                continue;
            }
        }
        hist.push((l, d, c));
    }
    let n_epochs = hist.len();
    let a = rng.gen_range(0..n_epochs);
    let b = rng.gen_range(a..n_epochs);
    let ia = rng.gen_range(0..hist[a].0);
    let ib = if a == b { rng.gen_range(ia..hist[b].0) } else { rng.gen_range(0..hist[b].0) };
    let td = |i: usize, idx: u64| -> U256 {
        let mut s = rand_u256(&mut StdRng::seed_from_u64(7), 40);
        for (l, d, _) in hist[..i].iter() {
            s = s + d * U256::from(*l);
        }
        s + &hist[i].1 * U256::from(idx + 1)
    };
    let base_epoch = rng.gen_range(0..1000u64);
    let e1 = ep((base_epoch + a as u64, ia, hist[a].0));
    let e2 = ep((base_epoch + b as u64, ib, hist[b].0));
    let (t1, t2) = (td(a, ia), td(b, ib));
    let res = call_vtd(e1, hist[a].2, &t1, e2, hist[b].2, &t2);
    let tau = call_vtau(e1, hist[a].2, e2, hist[b].2);
    json!({"ev": "Big", "a": {"cls": "legal-tame", "epochs": b - a, "bits": bits, "t1": format!("{:#x}", t1), "t2": format!("{:#x}", t2),
        "e1": format!("{:#}", e1), "e2": format!("{:#}", e2)}, "vtd": res, "vtau": tau})
}

fn big_garbage_event(rng: &mut StdRng) -> Value {
    let e = |rng: &mut StdRng| -> u64 {
        match rng.gen_range(0..6) {
            0 => 0,
            1 => u64::MAX,
            2 => EpochNumberWithFraction::new_unchecked(rng.gen_range(0..0xFF_FFFF), rng.gen_range(0..0xFFFF), 0).full_value(),
            3 => EpochNumberWithFraction::new_unchecked(rng.gen_range(0..5), rng.gen_range(0..2000), rng.gen_range(0..2000)).full_value(),
            4 => EpochNumberWithFraction::new_unchecked(0xFF_FFFF, 0xFFFF, 0xFFFF).full_value(),
            _ => rng.gen(),
        }
    };
    let c = |rng: &mut StdRng| -> u32 {
        match rng.gen_range(0..6) {
            0 => 0,
            1 => 1,
            2 => u32::MAX,
            3 => 0x0100_0001,
            4 => 0x2001_0000,
            _ => rng.gen(),
        }
    };
    let t = |rng: &mut StdRng| -> U256 {
        match rng.gen_range(0..5) {
            0 => U256::zero(),
            1 => U256::max_value(),
            2 => U256::one() << 255u8,
            _ => {
                let bits = rng.gen_range(1..=256);
                rand_u256(rng, bits)
            }
        }
    };
    let (e1, e2) = (EpochNumberWithFraction::from_full_value_unchecked(e(rng)), EpochNumberWithFraction::from_full_value_unchecked(e(rng)));
    let (c1, c2) = (c(rng), c(rng));
    let (t1, t2) = (t(rng), t(rng));
    let (t1, t2) = if rng.gen_bool(0.7) && t1 > t2 { (t2, t1) } else { (t1, t2) };
    let res = call_vtd(e1, c1, &t1, e2, c2, &t2);
    let tau = call_vtau(e1, c1, e2, c2);
    json!({"ev": "Big", "a": {"cls": "garbage", "e1": format!("{:#}", e1), "e2": format!("{:#}", e2), "c1": c1, "c2": c2,
        "t1": format!("{:#x}", t1), "t2": format!("{:#x}", t2)}, "vtd": res, "vtau": tau})
}

pub fn run(kv: &HashMap<String, String>) -> i32 {
    let seed = arg_u64(kv, "seed", 1);
    let n = arg_u64(kv, "n", 1000);
    let path = arg_str(kv, "out", "/dev/stdout");
    let mut out = BufWriter::new(File::create(&path).expect("open out"));
    let mut rng = StdRng::seed_from_u64(seed);
    let ds = exact_difficulties();
    writeln!(out, "{}", json!({"ev": "Reset", "sc": format!("difficulty-{}", seed), "exact": ds.iter().map(|(d, _)| *d).collect::<Vec<_>>()})).unwrap();
    let mut panics = 0;
    for k in 0..n {
        let mut v = match rng.gen_range(0..100) {
            0..=54 => grid_event(&mut rng, &ds),
            55..=79 => hist_event(&mut rng, &ds),
            80..=89 => big_legal_event(&mut rng),
            _ => big_garbage_event(&mut rng),
        };
        if v["vtd"] == "panic" || v["vtau"] == "panic" {
            panics += 1;
        }
        v["sc"] = json!(format!("difficulty-{}", seed));
        v["k"] = json!(k);
        writeln!(out, "{}", v).unwrap();
    }
    out.flush().ok();
    eprintln!("difficulty events={} panics={}", n, panics);
    0
}
