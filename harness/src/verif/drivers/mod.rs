pub mod filtersync;
pub mod peersync;
pub mod sampling;

use std::collections::HashMap;

pub fn run(driver: &str, kv: &HashMap<String, String>) -> i32 {
    match driver {
        "peersync" => peersync::run(kv),
        "filtersync" => filtersync::run(kv),
        "sampling" => sampling::run(kv),
        "mine-genesis" => mine_genesis(),
        _ => {
            eprintln!("unknown driver {}", driver);
            2
        }
    }
}

/// Prints a nonce that makes the eaglesong spec's genesis header PoW-valid (used once to write specs/eaglesong.toml).
fn mine_genesis() -> i32 {
    use ckb_types::prelude::*;
    let consensus = crate::verif::world::load_consensus("eaglesong");
    let header = consensus.genesis_block().header();
    let engine = consensus.pow_engine();
    let mut n: u128 = 0;
    loop {
        let h = header.as_advanced_builder().nonce(n.pack()).build();
        if engine.verify(&h.data()) {
            println!("nonce = 0x{:x}", n);
            return 0;
        }
        n += 1;
    }
}
