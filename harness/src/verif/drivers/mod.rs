pub mod concurrent;
pub mod difficulty;
pub mod filtersync;
pub mod hostile;
pub mod peersync;
pub mod query;
pub mod sampling;
pub mod txpool;

use std::collections::HashMap;

pub fn run(driver: &str, kv: &HashMap<String, String>) -> i32 {
    match driver {
        "peersync" => peersync::run(kv),
        "filtersync" => filtersync::run(kv),
        "sampling" => sampling::run(kv),
        "hostile" => hostile::run(kv),
        "difficulty" => difficulty::run(kv),
        "query" => query::run(kv),
        "txpool" => txpool::run(kv),
        "concurrent" => concurrent::run(kv),
        "mine-genesis" => mine_genesis(),
        "selftest-forged" => selftest_forged(),
        _ => {
            eprintln!("unknown driver {}", driver);
            2
        }
    }
}

/// Prints a nonce that makes the eaglesong spec's genesis header PoW-valid (used once to write specs/eaglesong.toml).
fn mine_genesis() -> i32 {
    use ckb_types::prelude::*;
    let consensus = crate::verif::world::load_consensus("eaglesong");
    let header = consensus.genesis_block().header();
    let engine = consensus.pow_engine();
    let mut n: u128 = 0;
    loop {
        let h = header.as_advanced_builder().nonce(n.pack()).build();
        if engine.verify(&h.data()) {
            println!("nonce = 0x{:x}", n);
            return 0;
        }
        n += 1;
    }
}

fn selftest_forged() -> i32 {
    use ckb_types::prelude::*;
    use rand::SeedableRng;
    let mut rng = rand::rngs::StdRng::seed_from_u64(1);
    let built = filtersync::build_tx_world(&mut rng, "dummy", 8, 0, 1, 3);
    for v in 0..3 {
        let f = crate::verif::mutate::forged_body(&built.chain, 5, v);
        println!("packed txs {} orig {}", f.transactions().len(), built.chain.blocks[5].block.transactions().len());
        let view = f.clone().into_view_without_reset_header();
        println!("variant {} txs {} root {:#x} calc {:#x} equal {}", v, view.transactions().len(), view.transactions_root(), view.calc_transactions_root(), view.transactions_root() == view.calc_transactions_root());
    }
    0
}
