//! An RFC 44/45 conformant server over a `SimChain` branch (DESIGN.md appendix A).
//! It answers the bytes the client really sent.
use super::world::SimChain;
use ckb_merkle_mountain_range::leaf_index_to_pos;
use ckb_types::{
    core::BlockNumber,
    packed::{self, Byte32},
    prelude::*,
    utilities::{merkle_root, CBMT},
    U256,
};
use std::collections::HashSet;

#[derive(Clone, Debug)]
pub struct HonestPeer {
    /// block id of the peer's tip
    pub tip: usize,
    /// answer blocks/txs proofs in the v1 encoding (with uncles hash and extension)
    pub v1: bool,
    pub filters_batch: usize,
    pub hashes_batch: usize,
    pub cp_batch: usize,
}

/// Structured form of a last-state proof answer, so that mutations can be applied before encoding.
#[derive(Clone, Debug)]
pub struct ProofPlan {
    pub last: usize,
    pub reorg: Vec<u64>,
    pub samples: Vec<u64>,
    pub last_n: Vec<u64>,
}

impl HonestPeer {
    pub fn new(tip: usize) -> Self {
        HonestPeer {
            tip,
            v1: true,
            filters_batch: 1000,
            hashes_batch: 2000,
            cp_batch: 2000,
        }
    }

    fn chain(&self, c: &SimChain) -> Vec<usize> {
        c.chain_of(self.tip)
    }

    pub fn on_chain(&self, c: &SimChain, hash: &Byte32) -> Option<usize> {
        c.id_of(hash).filter(|id| c.is_ancestor(*id, self.tip))
    }

    pub fn send_last_state(&self, c: &SimChain) -> packed::LightClientMessage {
        let content = packed::SendLastState::new_builder()
            .last_header(c.verifiable(self.tip))
            .build();
        packed::LightClientMessage::new_builder().set(content).build()
    }

    fn td_at(&self, c: &SimChain, chain: &[usize], num: u64) -> U256 {
        c.blocks[chain[num as usize]].td.clone()
    }

    /// Plans the answer to GetLastStateProof; `None` = "last hash is not on my chain" (tip state reply)
    /// `Err` = request the server rejects as invalid (an honest client never produces these).
    pub fn plan_last_state_proof(
        &self,
        c: &SimChain,
        req: &packed::GetLastStateProof,
    ) -> Result<Option<ProofPlan>, String> {
        let chain = self.chain(c);
        let last_id = match self.on_chain(c, &req.last_hash()) {
            Some(id) => id,
            None => return Ok(None),
        };
        let last_n: u64 = req.last_n_blocks().unpack();
        let start_number: u64 = req.start_number().unpack();
        let boundary: U256 = req.difficulty_boundary().unpack();
        let mut difficulties: Vec<U256> = req.difficulties().into_iter().map(|d| d.unpack()).collect();
        let last_number = c.blocks[last_id].num;
        let start_on_chain = start_number == 0
            || (start_number <= last_number
                && c.blocks[chain[start_number as usize]].header.hash() == req.start_hash());
        let reorg: Vec<u64> = if start_on_chain {
            vec![]
        } else {
            let min = start_number - std::cmp::min(start_number - 1, last_n);
            (min..start_number).collect()
        };
        if difficulties.windows(2).any(|d| d[0] >= d[1]) {
            return Err("difficulties not increasing".into());
        }
        if difficulties.last().map(|d| *d >= boundary).unwrap_or(false) {
            return Err("boundary not greater than all difficulties".into());
        }
        if let Some(first) = difficulties.first() {
            if start_number > 0 {
                if start_number - 1 > last_number {
                    return Err("start beyond last".into());
                }
                if self.td_at(c, &chain, start_number - 1) >= *first {
                    // With a start block of ANOTHER branch the comparison is made with the server's own block at that
                    // height, which can be heavier than the client's start: a well-formed request that this server
                    // cannot answer (it replies with an error status, nothing the client can use).
                    if !start_on_chain {
                        return Err("unanswerable: the start block is on another branch and lighter than this chain at its height".into());
                    }
                    return Err("first difficulty not above start".into());
                }
            }
        }
        if start_number > last_number {
            return Err("start beyond last".into());
        }
        let (samples, last_n_nums) = if last_number - start_number <= last_n {
            (vec![], (start_number..last_number).collect::<Vec<_>>())
        } else {
            // The server binary-searches (start, last] (it never returns `start` itself and it
            // does consider the last block); None only if even the last block is below the boundary.
            let mut bb = match ((start_number + 1)..=last_number)
                .find(|n| self.td_at(c, &chain, *n) >= boundary)
            {
                Some(n) => n,
                None => return Err("boundary not in range".into()),
            };
            if last_number - bb < last_n {
                bb = last_number - last_n;
            }
            let last_n_nums = (bb..last_number).collect::<Vec<_>>();
            if bb > 0 {
                let limit = self.td_at(c, &chain, bb - 1);
                difficulties.retain(|d| *d <= limit);
                let mut nums: Vec<u64> = Vec::new();
                for d in &difficulties {
                    if let Some(n) = (start_number..bb).find(|n| self.td_at(c, &chain, *n) >= *d) {
                        if nums.last() != Some(&n) {
                            nums.push(n);
                        }
                    } else {
                        return Err("difficulty without block".into());
                    }
                }
                (nums, last_n_nums)
            } else {
                (vec![], last_n_nums)
            }
        };
        Ok(Some(ProofPlan {
            last: last_id,
            reorg,
            samples,
            last_n: last_n_nums,
        }))
    }

    pub fn tip_state_proof(&self, c: &SimChain) -> packed::LightClientMessage {
        let content = packed::SendLastStateProof::new_builder()
            .last_header(c.verifiable(self.tip))
            .build();
        packed::LightClientMessage::new_builder().set(content).build()
    }

    /// Encodes a plan honestly (headers and proof taken from the chain of `plan.last`).
    pub fn encode_plan(c: &SimChain, plan: &ProofPlan) -> packed::SendLastStateProof {
        let chain = c.chain_of(plan.last);
        let nums: Vec<u64> = plan
            .reorg
            .iter()
            .chain(plan.samples.iter())
            .chain(plan.last_n.iter())
            .cloned()
            .collect();
        let headers: Vec<packed::VerifiableHeader> =
            nums.iter().map(|n| c.verifiable(chain[*n as usize])).collect();
        let last_num = c.blocks[plan.last].num;
        let proof = c.gen_proof(plan.last, last_num, &nums);
        packed::SendLastStateProof::new_builder()
            .last_header(c.verifiable(plan.last))
            .proof(proof)
            .headers(packed::VerifiableHeaderVec::new_builder().set(headers).build())
            .build()
    }

    pub fn last_state_proof(
        &self,
        c: &SimChain,
        req: &packed::GetLastStateProof,
    ) -> Result<packed::LightClientMessage, String> {
        match self.plan_last_state_proof(c, req)? {
            None => Ok(self.tip_state_proof(c)),
            Some(plan) => Ok(packed::LightClientMessage::new_builder()
                .set(Self::encode_plan(c, &plan))
                .build()),
        }
    }

    pub fn blocks_proof(
        &self,
        c: &SimChain,
        req: &packed::GetBlocksProof,
    ) -> packed::LightClientMessage {
        self.blocks_proof_inner(c, req, false).0
    }

    /// A lying answer: every requested block of the world that is NOT on the server's chain (or not below the last
    /// header) is returned as found as well; the MMR proof covers the genuinely found headers only.  None when the
    /// request names no such block.
    pub fn blocks_proof_lying(
        &self,
        c: &SimChain,
        req: &packed::GetBlocksProof,
    ) -> Option<packed::LightClientMessage> {
        let (m, lied) = self.blocks_proof_inner(c, req, true);
        if lied { Some(m) } else { None }
    }

    fn blocks_proof_inner(
        &self,
        c: &SimChain,
        req: &packed::GetBlocksProof,
        lie: bool,
    ) -> (packed::LightClientMessage, bool) {
        let (m, lied) = self.blocks_proof_inner2(c, req, lie);
        (m, lied)
    }

    fn blocks_proof_inner2(
        &self,
        c: &SimChain,
        req: &packed::GetBlocksProof,
        lie: bool,
    ) -> (packed::LightClientMessage, bool) {
        let mut lied = false;
        let last_id = match self.on_chain(c, &req.last_hash()) {
            Some(id) => id,
            None => {
                let content = packed::SendBlocksProof::new_builder()
                    .last_header(c.verifiable(self.tip))
                    .build();
                return (packed::LightClientMessage::new_builder().set(content).build(), false);
            }
        };
        let last_num = c.blocks[last_id].num;
        let mut found = Vec::new();
        let mut proved = Vec::new();
        let mut missing = Vec::new();
        for h in req.block_hashes().into_iter() {
            match c.id_of(&h) {
                Some(id) if c.is_ancestor(id, last_id) && c.blocks[id].num < last_num => {
                    found.push(id);
                    proved.push(id);
                }
                Some(id) if lie && id != 0 => {
                    found.push(id);
                    lied = true;
                }
                _ => missing.push(h),
            }
        }
        let nums: Vec<u64> = proved.iter().map(|id| c.blocks[*id].num).collect();
        let proof = c.gen_proof(last_id, last_num, &nums);
        let headers: Vec<packed::Header> =
            found.iter().map(|id| c.blocks[*id].header.data()).collect();
        let content = if self.v1 {
            let v1 = packed::SendBlocksProofV1::new_builder()
                .last_header(c.verifiable(last_id))
                .proof(proof)
                .headers(headers.pack())
                .missing_block_hashes(missing.pack())
                .blocks_uncles_hash(
                    found
                        .iter()
                        .map(|id| c.blocks[*id].uncles_hash.clone())
                        .collect::<Vec<_>>()
                        .pack(),
                )
                .blocks_extension(
                    packed::BytesOptVec::new_builder()
                        .set(
                            found
                                .iter()
                                .map(|id| Pack::pack(&c.blocks[*id].extension))
                                .collect(),
                        )
                        .build(),
                )
                .build();
            packed::SendBlocksProof::new_unchecked(v1.as_bytes())
        } else {
            packed::SendBlocksProof::new_builder()
                .last_header(c.verifiable(last_id))
                .proof(proof)
                .headers(headers.pack())
                .missing_block_hashes(missing.pack())
                .build()
        };
        (packed::LightClientMessage::new_builder().set(content).build(), lied)
    }

    pub fn txs_proof(
        &self,
        c: &SimChain,
        req: &packed::GetTransactionsProof,
    ) -> packed::LightClientMessage {
        let last_id = match self.on_chain(c, &req.last_hash()) {
            Some(id) => id,
            None => {
                let content = packed::SendTransactionsProof::new_builder()
                    .last_header(c.verifiable(self.tip))
                    .build();
                return packed::LightClientMessage::new_builder().set(content).build();
            }
        };
        let last_num = c.blocks[last_id].num;
        // group found transactions per block, in request order of first appearance
        let mut per_block: Vec<(usize, Vec<usize>)> = Vec::new();
        let mut missing = Vec::new();
        for h in req.tx_hashes().into_iter() {
            match c.tx_id_on(&h, last_id) {
                Some(tid)
                    if c.is_ancestor(c.txs[tid].block, last_id)
                        && c.blocks[c.txs[tid].block].num < last_num =>
                {
                    let b = c.txs[tid].block;
                    if let Some(entry) = per_block.iter_mut().find(|(bb, _)| *bb == b) {
                        entry.1.push(tid);
                    } else {
                        per_block.push((b, vec![tid]));
                    }
                }
                _ => missing.push(h),
            }
        }
        let nums: Vec<u64> = per_block.iter().map(|(b, _)| c.blocks[*b].num).collect();
        let proof = c.gen_proof(last_id, last_num, &nums);
        let mut filtered = Vec::new();
        for (b, tids) in &per_block {
            let block = &c.blocks[*b].block;
            let wanted: HashSet<usize> = tids.iter().map(|t| c.txs[*t].index).collect();
            let mut idxs: Vec<u32> = wanted.iter().map(|i| *i as u32).collect();
            idxs.sort();
            let leaves: Vec<Byte32> = block.transactions().iter().map(|tx| tx.hash()).collect();
            let mp = CBMT::build_merkle_proof(&leaves, &idxs).expect("merkle proof");
            let txs: Vec<packed::Transaction> = idxs
                .iter()
                .map(|i| block.transactions()[*i as usize].data())
                .collect();
            let fb = packed::FilteredBlock::new_builder()
                .header(block.header().data())
                .witnesses_root(block.calc_witnesses_root())
                .transactions(txs.pack())
                .proof(
                    packed::MerkleProof::new_builder()
                        .indices(mp.indices().to_owned().pack())
                        .lemmas(mp.lemmas().to_owned().pack())
                        .build(),
                )
                .build();
            // sanity: raw root reproduces the header's transactions root
            debug_assert_eq!(
                merkle_root(&[block.calc_raw_transactions_root(), block.calc_witnesses_root()]),
                block.transactions_root()
            );
            filtered.push(fb);
        }
        let filtered = packed::FilteredBlockVec::new_builder().set(filtered).build();
        let content = if self.v1 {
            let v1 = packed::SendTransactionsProofV1::new_builder()
                .last_header(c.verifiable(last_id))
                .proof(proof)
                .filtered_blocks(filtered)
                .missing_tx_hashes(missing.pack())
                .blocks_uncles_hash(
                    per_block
                        .iter()
                        .map(|(b, _)| c.blocks[*b].uncles_hash.clone())
                        .collect::<Vec<_>>()
                        .pack(),
                )
                .blocks_extension(
                    packed::BytesOptVec::new_builder()
                        .set(
                            per_block
                                .iter()
                                .map(|(b, _)| Pack::pack(&c.blocks[*b].extension))
                                .collect(),
                        )
                        .build(),
                )
                .build();
            packed::SendTransactionsProof::new_unchecked(v1.as_bytes())
        } else {
            packed::SendTransactionsProof::new_builder()
                .last_header(c.verifiable(last_id))
                .proof(proof)
                .filtered_blocks(filtered)
                .missing_tx_hashes(missing.pack())
                .build()
        };
        packed::LightClientMessage::new_builder().set(content).build()
    }

    pub fn blocks(&self, c: &SimChain, req: &packed::GetBlocks) -> Vec<packed::SyncMessage> {
        req.block_hashes()
            .into_iter()
            .filter_map(|h| c.id_of(&h))
            .map(|id| {
                let content = packed::SendBlock::new_builder()
                    .block(c.blocks[id].block.data())
                    .build();
                packed::SyncMessage::new_builder().set(content).build()
            })
            .collect()
    }

    pub fn block_filters(
        &self,
        c: &SimChain,
        start: BlockNumber,
    ) -> Option<packed::BlockFilterMessage> {
        let chain = self.chain(c);
        let tip_num = c.blocks[self.tip].num;
        if start > tip_num {
            return None;
        }
        let end = std::cmp::min(tip_num, start + self.filters_batch as u64 - 1);
        let ids: Vec<usize> = (start..=end).map(|n| chain[n as usize]).collect();
        let content = packed::BlockFilters::new_builder()
            .start_number(start.pack())
            .block_hashes(
                ids.iter()
                    .map(|id| c.blocks[*id].header.hash())
                    .collect::<Vec<_>>()
                    .pack(),
            )
            .filters(
                packed::BytesVec::new_builder()
                    .set(ids.iter().map(|id| c.blocks[*id].filter.clone()).collect())
                    .build(),
            )
            .build();
        Some(packed::BlockFilterMessage::new_builder().set(content).build())
    }

    pub fn block_filter_hashes(
        &self,
        c: &SimChain,
        start: BlockNumber,
    ) -> Option<packed::BlockFilterMessage> {
        let chain = self.chain(c);
        let tip_num = c.blocks[self.tip].num;
        if start > tip_num {
            return None;
        }
        let parent = if start == 0 {
            Byte32::zero()
        } else {
            c.blocks[chain[start as usize - 1]].filter_hash.clone()
        };
        let end = std::cmp::min(tip_num, start + self.hashes_batch as u64 - 1);
        let hashes: Vec<Byte32> = (start..=end)
            .map(|n| c.blocks[chain[n as usize]].filter_hash.clone())
            .collect();
        let content = packed::BlockFilterHashes::new_builder()
            .start_number(start.pack())
            .parent_block_filter_hash(parent)
            .block_filter_hashes(hashes.pack())
            .build();
        Some(packed::BlockFilterMessage::new_builder().set(content).build())
    }

    pub fn block_filter_check_points(
        &self,
        c: &SimChain,
        start: BlockNumber,
        interval: u64,
    ) -> Option<packed::BlockFilterMessage> {
        let chain = self.chain(c);
        let tip_num = c.blocks[self.tip].num;
        let mut hashes = Vec::new();
        let mut n = start;
        while n <= tip_num && hashes.len() < self.cp_batch {
            hashes.push(c.blocks[chain[n as usize]].filter_hash.clone());
            n += interval;
        }
        let content = packed::BlockFilterCheckPoints::new_builder()
            .start_number(start.pack())
            .block_filter_hashes(hashes.pack())
            .build();
        Some(packed::BlockFilterMessage::new_builder().set(content).build())
    }
}

pub fn positions(nums: &[u64]) -> Vec<u64> {
    nums.iter().map(|n| leaf_index_to_pos(*n)).collect()
}
