//! The real client, assembled the way `subcmds.rs` does it, on top of the harness network context.
use super::ctx::{block_on, Ctx, Net, Sent};
use crate::protocols::{
    FilterProtocol, LightClientProtocol, Peers, PendingTxs, RelayProtocol, SyncProtocol,
};
use crate::service::{BlockFilterRpcImpl, ChainRpcImpl, TransactionRpcImpl};
use crate::storage::{Storage, StorageWithChainData};
use ckb_chain_spec::consensus::Consensus;
use ckb_network::{bytes::Bytes as P2pBytes, CKBProtocolContext, CKBProtocolHandler, PeerIndex, SupportProtocols};
use ckb_systemtime::{faketime, FaketimeGuard};
use std::panic::{catch_unwind, AssertUnwindSafe};
use std::path::PathBuf;
use std::sync::{Arc, RwLock};

#[derive(Clone)]
pub struct Config {
    pub last_n: u64,
    pub max_outbound: u32,
    pub interval: u64,
    pub blocks_in_transit: usize,
    /// size limit of the pending transaction pool (the binary uses PendingTxs::default() = 64)
    pub pending_limit: usize,
    /// RFC 44 activation epoch (the binary: 8651 on mainnet, 5711 on testnet, 0 elsewhere)
    pub mmr_activated_epoch: u64,
}

impl Default for Config {
    fn default() -> Self {
        Config {
            last_n: 3,
            max_outbound: 1,
            interval: 4,
            blocks_in_transit: 16,
            pending_limit: 64,
            mmr_activated_epoch: 0,
        }
    }
}

pub struct Client {
    pub dir: PathBuf,
    pub cfg: Config,
    pub consensus: Consensus,
    pub storage: Storage,
    pub peers: Arc<Peers>,
    pub pending: Arc<RwLock<PendingTxs>>,
    pub lc: LightClientProtocol,
    pub filter: FilterProtocol,
    pub(crate) sync: SyncProtocol,
    pub(crate) relay: RelayProtocol,
    pub net: Arc<Net>,
    pub nc_lc: Arc<dyn CKBProtocolContext + Sync>,
    pub nc_filter: Arc<dyn CKBProtocolContext + Sync>,
    pub nc_sync: Arc<dyn CKBProtocolContext + Sync>,
    pub nc_relay: Arc<dyn CKBProtocolContext + Sync>,
    /// every message delivered so far (drivers for C10 mutate them); off unless Some
    pub corpus: Option<Vec<(Proto, P2pBytes)>>,
}

#[derive(Clone, Copy, Debug, PartialEq, Eq)]
pub enum Proto {
    Lc,
    Filter,
    Sync,
    Relay,
}

pub fn fresh_dir(tag: &str) -> PathBuf {
    use std::sync::atomic::{AtomicU64, Ordering};
    static N: AtomicU64 = AtomicU64::new(0);
    let base = std::env::var("VERIF_TMP").unwrap_or_else(|_| {
        concat!(env!("CARGO_MANIFEST_DIR"), "/../out/tmp").to_owned()
    });
    let p = PathBuf::from(base).join(format!(
        "{}-{}-{}",
        tag,
        std::process::id(),
        N.fetch_add(1, Ordering::SeqCst)
    ));
    let _ = std::fs::remove_dir_all(&p);
    std::fs::create_dir_all(&p).expect("create tmp dir");
    p
}

impl Client {
    pub fn open(dir: PathBuf, consensus: Consensus, cfg: Config) -> Self {
        let storage = Storage::new(dir.to_str().unwrap());
        storage.init_genesis_block(consensus.genesis_block().data());
        let pending = Arc::new(RwLock::new(PendingTxs::new(cfg.pending_limit)));
        let peers = Arc::new(Peers::new(
            cfg.max_outbound,
            cfg.interval,
            storage.get_last_check_point(),
        ));
        let mut lc =
            LightClientProtocol::new(storage.clone(), Arc::clone(&peers), consensus.clone());
        lc.set_last_n_blocks(cfg.last_n);
        lc.set_mmr_activated_epoch(cfg.mmr_activated_epoch);
        lc.set_init_blocks_in_transit_per_peer(cfg.blocks_in_transit);
        let filter = FilterProtocol::new(storage.clone(), Arc::clone(&peers));
        let sync = SyncProtocol::new(storage.clone(), Arc::clone(&peers));
        let relay = RelayProtocol::new(
            Arc::clone(&pending),
            Arc::clone(&peers),
            consensus.clone(),
            storage.clone(),
            false,
        );
        let net = Arc::new(Net::default());
        Client {
            dir,
            cfg,
            consensus,
            storage,
            peers,
            pending,
            lc,
            filter,
            sync,
            relay,
            nc_lc: Ctx::new(Arc::clone(&net), SupportProtocols::LightClient),
            nc_filter: Ctx::new(Arc::clone(&net), SupportProtocols::Filter),
            nc_sync: Ctx::new(Arc::clone(&net), SupportProtocols::Sync),
            nc_relay: Ctx::new(Arc::clone(&net), SupportProtocols::RelayV2),
            net,
            corpus: None,
        }
    }

    /// Process death + restart: every in-memory object is dropped, the store is reopened.
    pub fn restart(self) -> Self {
        let dir = self.dir.clone();
        let cfg = self.cfg.clone();
        let consensus = self.consensus.clone();
        // every holder of the Arc<DB> must be gone before the store is reopened
        drop(self);
        Client::open(dir, consensus, cfg)
    }

    pub fn swc(&self) -> StorageWithChainData {
        StorageWithChainData::new(
            self.storage.clone(),
            Arc::clone(&self.peers),
            Arc::clone(&self.pending),
        )
    }
    pub fn rpc_filter(&self) -> BlockFilterRpcImpl {
        BlockFilterRpcImpl { swc: self.swc() }
    }
    pub fn rpc_chain(&self) -> ChainRpcImpl {
        ChainRpcImpl {
            swc: self.swc(),
            consensus: Arc::new(self.consensus.clone()),
        }
    }
    pub fn rpc_tx(&self) -> TransactionRpcImpl {
        TransactionRpcImpl {
            swc: self.swc(),
            consensus: Arc::new(self.consensus.clone()),
        }
    }

    pub fn connect(&mut self, peer: PeerIndex) -> Result<(), String> {
        let nc = Arc::clone(&self.nc_lc);
        guard(|| block_on(self.lc.connected(nc, peer, "verif")))
    }
    pub fn disconnect(&mut self, peer: PeerIndex) -> Result<(), String> {
        let nc = Arc::clone(&self.nc_lc);
        guard(|| block_on(self.lc.disconnected(nc, peer)))
    }
    pub fn notify(&mut self, proto: Proto, token: u64) -> Result<(), String> {
        match proto {
            Proto::Lc => {
                let nc = Arc::clone(&self.nc_lc);
                guard(|| block_on(self.lc.notify(nc, token)))
            }
            Proto::Filter => {
                let nc = Arc::clone(&self.nc_filter);
                guard(|| block_on(self.filter.notify(nc, token)))
            }
            Proto::Sync => Ok(()),
            Proto::Relay => {
                let nc = Arc::clone(&self.nc_relay);
                guard(|| block_on(self.relay.notify(nc, token)))
            }
        }
    }
    pub fn deliver(&mut self, proto: Proto, peer: PeerIndex, data: P2pBytes) -> Result<(), String> {
        if let Some(c) = self.corpus.as_mut() {
            if c.len() < 400 {
                c.push((proto, data.clone()));
            }
        }
        match proto {
            Proto::Lc => {
                let nc = Arc::clone(&self.nc_lc);
                guard(|| block_on(self.lc.received(nc, peer, data)))
            }
            Proto::Filter => {
                let nc = Arc::clone(&self.nc_filter);
                guard(|| block_on(self.filter.received(nc, peer, data)))
            }
            Proto::Sync => {
                let nc = Arc::clone(&self.nc_sync);
                guard(|| block_on(self.sync.received(nc, peer, data)))
            }
            Proto::Relay => {
                let nc = Arc::clone(&self.nc_relay);
                guard(|| block_on(self.relay.received(nc, peer, data)))
            }
        }
    }
    pub fn take_sent(&self) -> Vec<Sent> {
        self.net.take_sent()
    }
}

/// Source location of the last panic (set by the panic hook).
pub static LAST_PANIC_LOC: std::sync::Mutex<String> = std::sync::Mutex::new(String::new());

/// Panics of the code under test are data.
pub fn guard<F: FnOnce()>(f: F) -> Result<(), String> {
    match catch_unwind(AssertUnwindSafe(f)) {
        Ok(()) => Ok(()),
        Err(e) => Err(panic_msg(e)),
    }
}

pub fn guard_val<T, F: FnOnce() -> T>(f: F) -> Result<T, String> {
    catch_unwind(AssertUnwindSafe(f)).map_err(panic_msg)
}

pub fn panic_msg(e: Box<dyn std::any::Any + Send>) -> String {
    if let Some(s) = e.downcast_ref::<&str>() {
        s.to_string()
    } else if let Some(s) = e.downcast_ref::<String>() {
        s.clone()
    } else {
        "panic".to_string()
    }
}

/// Process-global fake clock in abstract ticks.
pub struct Clock {
    guard: FaketimeGuard,
    pub now: u64,
}

impl Clock {
    pub fn new() -> Self {
        let guard = faketime();
        guard.set_faketime(super::world::T0);
        Clock { guard, now: 0 }
    }
    pub fn set(&mut self, tick: u64) {
        self.now = tick;
        self.guard
            .set_faketime(super::world::T0 + tick * super::world::TICK_MS);
    }
    pub fn advance(&mut self, d: u64) {
        self.set(self.now + d);
    }
}

pub fn ms_to_tick(ms: u64) -> i64 {
    if ms < super::world::T0 {
        -1
    } else {
        ((ms - super::world::T0) / super::world::TICK_MS) as i64
    }
}
