//! Projection of the concrete client state onto the abstract variables of the specification.
use super::client::{ms_to_tick, Client};
use super::ctx::Sent;
use super::world::SimChain;
use crate::protocols::PeerState;
use ckb_network::{PeerIndex, SupportProtocols};
use ckb_types::{core::HeaderView, packed, prelude::*, U256};
use serde_json::{json, Value};

pub fn pname(p: PeerIndex) -> String {
    format!("p{}", p.value())
}

pub fn hid(chain: &SimChain, hash: &packed::Byte32) -> i64 {
    chain.id_of(hash).map(|i| i as i64 + 1).unwrap_or(-1)
}

pub fn small(v: &U256) -> i64 {
    if v > &U256::from(i32::MAX as u64) {
        i32::MAX as i64
    } else {
        v.0[0] as i64
    }
}

fn ids(chain: &SimChain, hs: &[HeaderView]) -> Vec<i64> {
    hs.iter().map(|h| hid(chain, &h.hash())).collect()
}

pub fn req_json(chain: &SimChain, c: &packed::GetLastStateProof, skip: bool, fork: bool) -> Value {
    let ds: Vec<i64> = c
        .difficulties()
        .into_iter()
        .map(|d| small(&Unpack::<U256>::unpack(&d)))
        .collect();
    let start_number: u64 = c.start_number().unpack();
    json!({
        "on": true,
        "last": hid(chain, &c.last_hash()),
        "skip": skip,
        "fork": fork,
        "startNum": start_number,
        "start": hid(chain, &c.start_hash()),
        "bnd": small(&Unpack::<U256>::unpack(&c.difficulty_boundary())),
        "ds": ds,
    })
}

pub fn no_req() -> Value {
    json!({"on": false, "last": 0, "skip": false, "fork": false, "startNum": 0, "start": 0, "bnd": 0, "ds": []})
}

pub fn none_peer() -> Value {
    json!({"st": "None", "last": 0, "lastTs": 0, "proved": 0, "pLastN": [], "pReorg": [], "req": no_req(), "when": 0})
}

pub(crate) fn peer_json(chain: &SimChain, st: &PeerState) -> Value {
    let mut v = none_peer();
    let (name, when) = match st {
        PeerState::Initialized => ("Init", 0),
        PeerState::RequestFirstLastState { when_sent } => ("ReqFirstLS", *when_sent),
        PeerState::OnlyHasLastState { .. } => ("OnlyLS", 0),
        PeerState::RequestFirstLastStateProof { when_sent, .. } => ("ReqFirstProof", *when_sent),
        PeerState::Ready { .. } => ("Ready", 0),
        PeerState::RequestNewLastState { when_sent, .. } => ("ReqNewLS", *when_sent),
        PeerState::RequestNewLastStateProof { when_sent, .. } => ("ReqNewProof", *when_sent),
    };
    v["st"] = json!(name);
    v["when"] = json!(if when == 0 { 0 } else { ms_to_tick(when) });
    if let Some(ls) = st.get_last_state() {
        v["last"] = json!(hid(chain, &ls.header().hash()));
        v["lastTs"] = json!(ms_to_tick(ls.update_ts()));
    }
    if let Some(ps) = st.get_prove_state() {
        v["proved"] = json!(hid(chain, &ps.get_last_header().header().hash()));
        v["pLastN"] = json!(ids(chain, ps.get_last_headers()));
        v["pReorg"] = json!(ids(chain, ps.get_reorg_last_headers()));
    }
    if let Some(r) = st.get_prove_request() {
        v["req"] = req_json(
            chain,
            r.get_content(),
            r.if_skip_check_tau(),
            r.if_long_fork_detected(),
        );
    }
    v
}

/// Peer-sync part of the abstract state.
pub fn peersync_state(client: &Client, chain: &SimChain, names: &[PeerIndex], now: u64) -> Value {
    let mut peers = serde_json::Map::new();
    for p in names {
        let v = match client.peers.get_state(p) {
            Some(st) => peer_json(chain, &st),
            None => none_peer(),
        };
        peers.insert(pname(*p), v);
    }
    let (td, tip) = client.storage.get_last_state();
    let last_n: Vec<Value> = client
        .storage
        .get_last_n_headers()
        .into_iter()
        .map(|(n, h)| json!([n, hid(chain, &h)]))
        .collect();
    json!({
        "now": now,
        "peer": Value::Object(peers),
        "tip": hid(chain, &tip.calc_header_hash()),
        "tipTD": small(&td),
        "lastN": last_n,
    })
}

/// Decodes what the client sent into abstract message records.
pub fn sent_json(chain: &SimChain, sent: &[Sent]) -> Vec<Value> {
    let mut out = Vec::new();
    for s in sent {
        let to = pname(s.peer);
        if s.proto == SupportProtocols::LightClient.protocol_id() {
            if let Ok(msg) = packed::LightClientMessageReader::from_compatible_slice(&s.data) {
                match msg.to_enum() {
                    packed::LightClientMessageUnionReader::GetLastState(_) => {
                        out.push(json!({"to": to, "kind": "GetLastState"}))
                    }
                    packed::LightClientMessageUnionReader::GetLastStateProof(r) => {
                        let c = r.to_entity();
                        let mut v = req_json(chain, &c, false, false);
                        let o = v.as_object_mut().unwrap();
                        o.remove("on");
                        o.remove("skip");
                        o.remove("fork");
                        o.insert("to".into(), json!(to));
                        o.insert("kind".into(), json!("GetLastStateProof"));
                        out.push(v);
                    }
                    packed::LightClientMessageUnionReader::GetBlocksProof(r) => {
                        let c = r.to_entity();
                        let hs: Vec<i64> = c.block_hashes().into_iter().map(|h| hid(chain, &h)).collect();
                        out.push(json!({"to": to, "kind": "GetBlocksProof", "last": hid(chain, &c.last_hash()), "hashes": hs}));
                    }
                    packed::LightClientMessageUnionReader::GetTransactionsProof(r) => {
                        let c = r.to_entity();
                        let hs: Vec<i64> = c
                            .tx_hashes()
                            .into_iter()
                            .map(|h| chain.tx_id_of(&h).map(|i| i as i64 + 1).unwrap_or(-1))
                            .collect();
                        out.push(json!({"to": to, "kind": "GetTransactionsProof", "last": hid(chain, &c.last_hash()), "hashes": hs}));
                    }
                    _ => out.push(json!({"to": to, "kind": "OtherLc"})),
                }
            }
        } else if s.proto == SupportProtocols::Filter.protocol_id() {
            if let Ok(msg) = packed::BlockFilterMessageReader::from_slice(&s.data) {
                match msg.to_enum() {
                    packed::BlockFilterMessageUnionReader::GetBlockFilters(r) => {
                        let n: u64 = r.start_number().unpack();
                        out.push(json!({"to": to, "kind": "GetBlockFilters", "start": n}))
                    }
                    packed::BlockFilterMessageUnionReader::GetBlockFilterHashes(r) => {
                        let n: u64 = r.start_number().unpack();
                        out.push(json!({"to": to, "kind": "GetBlockFilterHashes", "start": n}))
                    }
                    packed::BlockFilterMessageUnionReader::GetBlockFilterCheckPoints(r) => {
                        let n: u64 = r.start_number().unpack();
                        out.push(json!({"to": to, "kind": "GetBlockFilterCheckPoints", "start": n}))
                    }
                    _ => out.push(json!({"to": to, "kind": "OtherFilter"})),
                }
            }
        } else if s.proto == SupportProtocols::Sync.protocol_id() {
            if let Ok(msg) = packed::SyncMessageReader::from_compatible_slice(&s.data) {
                match msg.to_enum() {
                    packed::SyncMessageUnionReader::GetBlocks(r) => {
                        let hs: Vec<i64> = r
                            .block_hashes()
                            .iter()
                            .map(|h| hid(chain, &h.to_entity()))
                            .collect();
                        out.push(json!({"to": to, "kind": "GetBlocks", "hashes": hs}))
                    }
                    _ => out.push(json!({"to": to, "kind": "OtherSync"})),
                }
            }
        } else {
            out.push(json!({"to": to, "kind": "Relay"}));
        }
    }
    out
}

// ---------------------------------------------------------------------------------------------
// Filter / index component: projection from a RAW scan of the RocksDB keyspace (not through the
// accessors under test) plus the volatile bookkeeping exposed by `Peers::verif_dump`.
// ---------------------------------------------------------------------------------------------
use rocksdb::{ops::Iterate, IteratorMode};

fn be64(b: &[u8]) -> u64 {
    u64::from_be_bytes(b.try_into().unwrap())
}
fn be32(b: &[u8]) -> u32 {
    u32::from_be_bytes(b.try_into().unwrap())
}

pub struct Maps {
    pub script_raw: Vec<Vec<u8>>,
    pub fhash: std::collections::HashMap<packed::Byte32, usize>,
}

impl Maps {
    pub fn new(chain: &SimChain) -> Self {
        let script_raw = chain
            .scripts
            .iter()
            .map(|s| crate::storage::extract_raw_data(s))
            .collect();
        let fhash = chain
            .blocks
            .iter()
            .map(|b| (b.filter_hash.clone(), b.id))
            .collect();
        Maps { script_raw, fhash }
    }
    /// script key: 2 * (script id, 1-based) + (0 lock | 1 type); 0 = not a world script
    pub fn skey(&self, raw: &[u8], is_type: bool) -> i64 {
        match self.script_raw.iter().position(|r| r.as_slice() == raw) {
            Some(i) => 2 * (i as i64 + 1) + if is_type { 1 } else { 0 },
            None => 0,
        }
    }
    pub fn fid(&self, h: &packed::Byte32) -> i64 {
        if let Some(i) = self.fhash.get(h) {
            return *i as i64 + 1;
        }
        // invented check points (drivers for C07): [0xFA, 0xCE, group, index]
        let b = h.as_slice();
        if b[0] == 0xFA && b[1] == 0xCE {
            return -(1000 + (b[2] as i64) * 100 + b[3] as i64);
        }
        // any other value nobody in the world has: distinct ids for distinct values (with 24 bits of the hash)
        -(100_000 + (((b[0] as i64) << 16) | ((b[1] as i64) << 8) | b[2] as i64))
    }
}

fn txid(chain: &SimChain, h: &packed::Byte32) -> i64 {
    chain.tx_id_of(h).map(|i| i as i64 + 1).unwrap_or(-1)
}

/// The persistent part of the filter / index state: a raw scan of the RocksDB keyspace.
pub fn store_state(storage: &crate::storage::Storage, chain: &SimChain) -> serde_json::Map<String, Value> {
    let maps = Maps::new(chain);
    let db = &storage.db;
    // a transaction hash may stand for several world transactions (the same transaction mined on two branches):
    // an index entry means the copy mined at the position the entry names, else the copy on the stored chain
    let tip = chain.id_of(&storage.get_last_state().1.calc_header_hash());
    let txid_at = |h: &packed::Byte32, num: u64, idx: Option<usize>| -> i64 {
        chain.tx_id_at(h, num, idx, tip).map(|i| i as i64 + 1).unwrap_or(-1)
    };
    let mut scripts = Vec::new();
    let mut min_f: i64 = -1;
    let mut mdb = Vec::new();
    let mut cp_final = Vec::new();
    let mut max_cp: i64 = -1;
    let mut cells = Vec::new();
    let mut hist = Vec::new();
    let mut txs = Vec::new();
    let mut hdrs = Vec::new();
    let mut nums = Vec::new();
    let mut meta_keys = Vec::new();
    for (key, value) in db.iterator(IteratorMode::Start) {
        let k: &[u8] = &key;
        let v: &[u8] = &value;
        match k[0] {
            0 => {
                let h = packed::Byte32::from_slice(&k[1..33]).unwrap();
                txs.push(json!([txid(chain, &h), be64(&v[0..8]), be32(&v[8..12]) as i64 % (1 << 31)
                    + if be32(&v[8..12]) == u32::MAX { 0 } else { 0 }]));
            }
            32 | 64 => {
                let n = k.len();
                let raw = &k[1..n - 16];
                let h = packed::Byte32::from_slice(v).unwrap();
                cells.push(json!([maps.skey(raw, k[0] == 64), be64(&k[n - 16..n - 8]), be32(&k[n - 8..n - 4]), be32(&k[n - 4..]),
                    txid_at(&h, be64(&k[n - 16..n - 8]), Some(be32(&k[n - 8..n - 4]) as usize))]));
            }
            96 | 128 => {
                let n = k.len();
                let raw = &k[1..n - 17];
                let h = packed::Byte32::from_slice(v).unwrap();
                hist.push(json!([maps.skey(raw, k[0] == 128), be64(&k[n - 17..n - 9]), be32(&k[n - 9..n - 5]), be32(&k[n - 5..n - 1]), k[n - 1],
                    txid_at(&h, be64(&k[n - 17..n - 9]), Some(be32(&k[n - 9..n - 5]) as usize))]));
            }
            160 => {
                let h = packed::Byte32::from_slice(&k[1..33]).unwrap();
                hdrs.push(json!(hid(chain, &h)));
            }
            192 => {
                let h = packed::Byte32::from_slice(v).unwrap();
                nums.push(json!([be64(&k[1..9]), hid(chain, &h)]));
            }
            208 => {
                let h = packed::Byte32::from_slice(v).unwrap();
                cp_final.push(json!(maps.fid(&h)));
            }
            224 => {
                let name = &k[1..];
                if name.starts_with(b"FILTER_SCRIPTS") {
                    let body = &name[14..];
                    let raw_script = &body[..body.len() - 1];
                    let is_type = body[body.len() - 1] == 1;
                    // the key holds the molecule Script, not the raw data
                    let sk = match packed::Script::from_slice(raw_script) {
                        Ok(s) => maps.skey(&crate::storage::extract_raw_data(&s), is_type),
                        Err(_) => 0,
                    };
                    scripts.push(json!([sk, be64(v)]));
                } else if name.starts_with(b"MATCHED_BLOCKS") {
                    let start = be64(&name[14..22]);
                    let count = u64::from_le_bytes(v[0..8].try_into().unwrap());
                    let items: Vec<Value> = v[8..]
                        .chunks(33)
                        .map(|c| json!([hid(chain, &packed::Byte32::from_slice(&c[0..32]).unwrap()), c[32] == 1]))
                        .collect();
                    mdb.push(json!([start, count, items]));
                } else if name == b"MIN_FILTERED_NUMBER" {
                    min_f = u64::from_le_bytes(v.try_into().unwrap()) as i64;
                } else if name == b"MAX_CHECK_POINT_INDEX" {
                    max_cp = be32(v) as i64;
                } else {
                    meta_keys.push(String::from_utf8_lossy(name).to_string());
                }
            }
            _ => {}
        }
    }
    // tx index u32::MAX (fetched transactions) does not fit a TLC integer: -1
    let txs: Vec<Value> = {
        let mut out = Vec::new();
        for (key, value) in db.iterator(IteratorMode::Start) {
            if key[0] != 0 {
                break;
            }
            let h = packed::Byte32::from_slice(&key[1..33]).unwrap();
            let ti = be32(&value[8..12]);
            out.push(json!([txid_at(&h, be64(&value[0..8]), if ti == u32::MAX { None } else { Some(ti as usize) }), be64(&value[0..8]), if ti == u32::MAX { -1 } else { ti as i64 }]));
        }
        let _ = txs;
        out
    };
    let mut m = serde_json::Map::new();
    m.insert("scripts".into(), json!(scripts));
    m.insert("minF".into(), json!(min_f));
    m.insert("mdb".into(), json!(mdb));
    // final = up to MAX_CHECK_POINT_INDEX; values stored beyond it (a crash between the two writes) are not
    m.insert("cpFinal".into(), json!(cp_final.iter().take((max_cp + 1).max(0) as usize).cloned().collect::<Vec<_>>()));
    m.insert("maxCp".into(), json!(max_cp));
    m.insert("cpStored".into(), json!(cp_final.len()));
    m.insert("cells".into(), json!(cells));
    m.insert("hist".into(), json!(hist));
    m.insert("txs".into(), json!(txs));
    m.insert("hdrs".into(), json!(hdrs));
    m.insert("nums".into(), json!(nums));
    m.insert("meta".into(), json!(meta_keys));
    m
}

/// What a storage write hook sees: the persistent state (raw scan), the stored tip, and whether the
/// matched-blocks lock is held (by the operation that is writing).
pub fn write_point_state(storage: &crate::storage::Storage, peers: &crate::protocols::Peers, chain: &SimChain) -> (bool, Value) {
    let mut m = store_state(storage, chain);
    let (td, tip) = storage.get_last_state();
    let last_n: Vec<Value> = storage
        .get_last_n_headers()
        .into_iter()
        .map(|(n, h)| json!([n, hid(chain, &h)]))
        .collect();
    m.insert("tip".into(), json!(hid(chain, &tip.calc_header_hash())));
    m.insert("tipTD".into(), json!(small(&td)));
    m.insert("lastN".into(), json!(last_n));
    let locked = peers.matched_blocks().try_read().is_err();
    (locked, Value::Object(m))
}

pub fn filter_state(client: &Client, chain: &SimChain, names: &[PeerIndex]) -> Value {
    let maps = Maps::new(chain);
    let mut st = store_state(&client.storage, chain);
    let dump = client.peers.verif_dump();
    let mmem = match &dump.matched_blocks {
        Some(list) => json!(list
            .iter()
            .map(|(h, proved, dl)| json!([hid(chain, &h.pack()), proved, dl]))
            .collect::<Vec<_>>()),
        None => json!("locked"),
    };
    let mut pf = serde_json::Map::new();
    for p in names {
        let v = match dump.peers.iter().find(|(i, _)| i == p) {
            Some((_, d)) => json!({
                "cps": [d.check_points.0, d.check_points.1.iter().map(|h| maps.fid(h)).collect::<Vec<_>>()],
                "latest": [d.latest_block_filter_hashes.0, d.latest_block_filter_hashes.1.iter().map(|h| maps.fid(h)).collect::<Vec<_>>()],
                "bpr": match &d.blocks_proof_request {
                    Some((last, hs, when, get)) => json!({"on": true, "last": hid(chain, last), "hs": hs.iter().map(|h| hid(chain, &h.pack())).collect::<Vec<_>>(), "when": ms_to_tick(*when), "get": get}),
                    None => json!({"on": false, "last": 0, "hs": [], "when": 0, "get": false}),
                },
                "br": match &d.blocks_request {
                    Some((hs, when)) => json!({"on": true, "hs": hs.iter().map(|(h, r)| json!([hid(chain, &h.pack()), r])).collect::<Vec<_>>(), "when": ms_to_tick(*when)}),
                    None => json!({"on": false, "hs": [], "when": 0}),
                },
                "tpr": match &d.txs_proof_request {
                    Some((last, hs, when)) => json!({"on": true, "last": hid(chain, last), "hs": hs.iter().map(|h| txid(chain, &h.pack())).collect::<Vec<_>>(), "when": ms_to_tick(*when)}),
                    None => json!({"on": false, "last": 0, "hs": [], "when": 0}),
                },
            }),
            None => json!({"cps": [0, []], "latest": [0, []],
                "bpr": {"on": false, "last": 0, "hs": [], "when": 0, "get": false},
                "br": {"on": false, "hs": [], "when": 0},
                "tpr": {"on": false, "last": 0, "hs": [], "when": 0}}),
        };
        pf.insert(pname(*p), v);
    }
    let fetch = |list: &Vec<(packed::Byte32, u64, u64, bool, bool)>, is_tx: bool| -> Vec<Value> {
        list.iter()
            .map(|(h, added, first, timeout, missing)| {
                let id = if is_tx { txid(chain, h) } else { hid(chain, h) };
                json!([id, ms_to_tick(*added), if *first == 0 { -1 } else { ms_to_tick(*first) }, timeout, missing])
            })
            .collect()
    };
    st.insert("mmem".into(), mmem);
    st.insert("cached".into(), json!([dump.cached_block_filter_hashes.0, dump.cached_block_filter_hashes.1.iter().map(|h| maps.fid(h)).collect::<Vec<_>>()]));
    st.insert("pf".into(), Value::Object(pf));
    st.insert("fetchH".into(), json!(fetch(&dump.fetching_headers, false)));
    st.insert("fetchT".into(), json!(fetch(&dump.fetching_txs, true)));
    Value::Object(st)
}

/// C10: what the hostile-message trace specification looks at -- the stored tip and the peers' state names.
pub fn hostile_state(client: &Client, chain: &SimChain, names: &[PeerIndex], now: u64) -> Value {
    let mut peers = serde_json::Map::new();
    for p in names {
        let v = match client.peers.get_state(p) {
            Some(st) => peer_json(chain, &st),
            None => none_peer(),
        };
        let fork = v["req"]["fork"].clone();
        peers.insert(pname(*p), json!({"st": v["st"], "fork": fork}));
    }
    let (td, tip) = client.storage.get_last_state();
    json!({"now": now, "peer": Value::Object(peers), "tip": hid(chain, &tip.calc_header_hash()), "tipTD": small(&td)})
}
