//! Projection of the concrete client state onto the abstract variables of the specification.
use super::client::{ms_to_tick, Client};
use super::ctx::Sent;
use super::world::SimChain;
use crate::protocols::PeerState;
use ckb_network::{PeerIndex, SupportProtocols};
use ckb_types::{core::HeaderView, packed, prelude::*, U256};
use serde_json::{json, Value};

pub fn pname(p: PeerIndex) -> String {
    format!("p{}", p.value())
}

pub fn hid(chain: &SimChain, hash: &packed::Byte32) -> i64 {
    chain.id_of(hash).map(|i| i as i64 + 1).unwrap_or(-1)
}

pub fn small(v: &U256) -> i64 {
    if v > &U256::from(i32::MAX as u64) {
        i32::MAX as i64
    } else {
        v.0[0] as i64
    }
}

fn ids(chain: &SimChain, hs: &[HeaderView]) -> Vec<i64> {
    hs.iter().map(|h| hid(chain, &h.hash())).collect()
}

pub fn req_json(chain: &SimChain, c: &packed::GetLastStateProof, skip: bool, fork: bool) -> Value {
    let ds: Vec<i64> = c
        .difficulties()
        .into_iter()
        .map(|d| small(&Unpack::<U256>::unpack(&d)))
        .collect();
    let start_number: u64 = c.start_number().unpack();
    json!({
        "on": true,
        "last": hid(chain, &c.last_hash()),
        "skip": skip,
        "fork": fork,
        "startNum": start_number,
        "start": hid(chain, &c.start_hash()),
        "bnd": small(&Unpack::<U256>::unpack(&c.difficulty_boundary())),
        "ds": ds,
    })
}

pub fn no_req() -> Value {
    json!({"on": false, "last": 0, "skip": false, "fork": false, "startNum": 0, "start": 0, "bnd": 0, "ds": []})
}

pub fn none_peer() -> Value {
    json!({"st": "None", "last": 0, "lastTs": 0, "proved": 0, "pLastN": [], "pReorg": [], "req": no_req(), "when": 0})
}

pub(crate) fn peer_json(chain: &SimChain, st: &PeerState) -> Value {
    let mut v = none_peer();
    let (name, when) = match st {
        PeerState::Initialized => ("Init", 0),
        PeerState::RequestFirstLastState { when_sent } => ("ReqFirstLS", *when_sent),
        PeerState::OnlyHasLastState { .. } => ("OnlyLS", 0),
        PeerState::RequestFirstLastStateProof { when_sent, .. } => ("ReqFirstProof", *when_sent),
        PeerState::Ready { .. } => ("Ready", 0),
        PeerState::RequestNewLastState { when_sent, .. } => ("ReqNewLS", *when_sent),
        PeerState::RequestNewLastStateProof { when_sent, .. } => ("ReqNewProof", *when_sent),
    };
    v["st"] = json!(name);
    v["when"] = json!(if when == 0 { 0 } else { ms_to_tick(when) });
    if let Some(ls) = st.get_last_state() {
        v["last"] = json!(hid(chain, &ls.header().hash()));
        v["lastTs"] = json!(ms_to_tick(ls.update_ts()));
    }
    if let Some(ps) = st.get_prove_state() {
        v["proved"] = json!(hid(chain, &ps.get_last_header().header().hash()));
        v["pLastN"] = json!(ids(chain, ps.get_last_headers()));
        v["pReorg"] = json!(ids(chain, ps.get_reorg_last_headers()));
    }
    if let Some(r) = st.get_prove_request() {
        v["req"] = req_json(
            chain,
            r.get_content(),
            r.if_skip_check_tau(),
            r.if_long_fork_detected(),
        );
    }
    v
}

/// Peer-sync part of the abstract state.
pub fn peersync_state(client: &Client, chain: &SimChain, names: &[PeerIndex], now: u64) -> Value {
    let mut peers = serde_json::Map::new();
    for p in names {
        let v = match client.peers.get_state(p) {
            Some(st) => peer_json(chain, &st),
            None => none_peer(),
        };
        peers.insert(pname(*p), v);
    }
    let (td, tip) = client.storage.get_last_state();
    let last_n: Vec<Value> = client
        .storage
        .get_last_n_headers()
        .into_iter()
        .map(|(n, h)| json!([n, hid(chain, &h)]))
        .collect();
    json!({
        "now": now,
        "peer": Value::Object(peers),
        "tip": hid(chain, &tip.calc_header_hash()),
        "tipTD": small(&td),
        "lastN": last_n,
    })
}

/// Decodes what the client sent into abstract message records.
pub fn sent_json(chain: &SimChain, sent: &[Sent]) -> Vec<Value> {
    let mut out = Vec::new();
    for s in sent {
        let to = pname(s.peer);
        if s.proto == SupportProtocols::LightClient.protocol_id() {
            if let Ok(msg) = packed::LightClientMessageReader::from_compatible_slice(&s.data) {
                match msg.to_enum() {
                    packed::LightClientMessageUnionReader::GetLastState(_) => {
                        out.push(json!({"to": to, "kind": "GetLastState"}))
                    }
                    packed::LightClientMessageUnionReader::GetLastStateProof(r) => {
                        let c = r.to_entity();
                        let mut v = req_json(chain, &c, false, false);
                        let o = v.as_object_mut().unwrap();
                        o.remove("on");
                        o.remove("skip");
                        o.remove("fork");
                        o.insert("to".into(), json!(to));
                        o.insert("kind".into(), json!("GetLastStateProof"));
                        out.push(v);
                    }
                    packed::LightClientMessageUnionReader::GetBlocksProof(r) => {
                        let c = r.to_entity();
                        let hs: Vec<i64> = c.block_hashes().into_iter().map(|h| hid(chain, &h)).collect();
                        out.push(json!({"to": to, "kind": "GetBlocksProof", "last": hid(chain, &c.last_hash()), "hashes": hs}));
                    }
                    packed::LightClientMessageUnionReader::GetTransactionsProof(r) => {
                        let c = r.to_entity();
                        let hs: Vec<i64> = c
                            .tx_hashes()
                            .into_iter()
                            .map(|h| chain.tx_id_of(&h).map(|i| i as i64 + 1).unwrap_or(-1))
                            .collect();
                        out.push(json!({"to": to, "kind": "GetTransactionsProof", "last": hid(chain, &c.last_hash()), "hashes": hs}));
                    }
                    _ => out.push(json!({"to": to, "kind": "OtherLc"})),
                }
            }
        } else if s.proto == SupportProtocols::Filter.protocol_id() {
            if let Ok(msg) = packed::BlockFilterMessageReader::from_slice(&s.data) {
                match msg.to_enum() {
                    packed::BlockFilterMessageUnionReader::GetBlockFilters(r) => {
                        let n: u64 = r.start_number().unpack();
                        out.push(json!({"to": to, "kind": "GetBlockFilters", "start": n}))
                    }
                    packed::BlockFilterMessageUnionReader::GetBlockFilterHashes(r) => {
                        let n: u64 = r.start_number().unpack();
                        out.push(json!({"to": to, "kind": "GetBlockFilterHashes", "start": n}))
                    }
                    packed::BlockFilterMessageUnionReader::GetBlockFilterCheckPoints(r) => {
                        let n: u64 = r.start_number().unpack();
                        out.push(json!({"to": to, "kind": "GetBlockFilterCheckPoints", "start": n}))
                    }
                    _ => out.push(json!({"to": to, "kind": "OtherFilter"})),
                }
            }
        } else if s.proto == SupportProtocols::Sync.protocol_id() {
            if let Ok(msg) = packed::SyncMessageReader::from_compatible_slice(&s.data) {
                match msg.to_enum() {
                    packed::SyncMessageUnionReader::GetBlocks(r) => {
                        let hs: Vec<i64> = r
                            .block_hashes()
                            .iter()
                            .map(|h| hid(chain, &h.to_entity()))
                            .collect();
                        out.push(json!({"to": to, "kind": "GetBlocks", "hashes": hs}))
                    }
                    _ => out.push(json!({"to": to, "kind": "OtherSync"})),
                }
            }
        } else {
            out.push(json!({"to": to, "kind": "Relay"}));
        }
    }
    out
}
