// Mirror of /repo/src/main.rs: compiles the working tree's sources (via #[path]) together
// with the verification drivers in `verif`.  Built as a `harness = false` test target so
// that cfg(test) helpers of the repository (set_last_n_blocks, ...) are available.
#![allow(clippy::mutable_key_type)]
#![allow(dead_code, unused_imports, unused_macros)]

#[path = "/repo/src/error.rs"]
mod error;
#[macro_use]
#[path = "/repo/src/protocols/mod.rs"]
mod protocols;
#[path = "/repo/src/service.rs"]
mod service;
#[path = "/repo/src/storage.rs"]
mod storage;
#[path = "/repo/src/types.rs"]
mod types;
#[path = "/repo/src/utils/mod.rs"]
mod utils;
#[path = "/repo/src/verif_hooks.rs"]
mod verif_hooks;
#[path = "/repo/src/verify.rs"]
mod verify;

mod verif;

fn main() {
    verif::main();
}
