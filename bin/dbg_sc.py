#!/usr/bin/env python3
# debugging aid: state-change summary of the scenario containing line L of a filter trace
import json,sys
f=sys.argv[1]; L=int(sys.argv[2])
rows=[]
for i,l in enumerate(open(f),1):
    if i>L: break
    rows.append(json.loads(l))
sc=rows[-1]['sc']
seg=[(i+1,x) for i,x in enumerate(rows) if x['sc']==sc]
prev=None
for i,x in seg:
    st=x['st']
    key=(st['minF'],json.dumps(st['scripts']),json.dumps([(m[0],m[1]) for m in st['mdb']]),st['tip'])
    if x['ev'] in('SetScripts','Crash','Restart') or key!=prev or i>=L-2:
        a=x.get('a',{}); a={k:v for k,v in a.items() if k not in('attrs','args')} if isinstance(a,dict) else a
        print(i,x['ev'],json.dumps(a)[:110],'| minF',st['minF'],'scr',st['scripts'],'mdb',[(m[0],m[1],[b[0] for b in m[2]]) for m in st['mdb']],'mmem',[m[0] for m in st['mmem']],'tip',st['tip'],'hist',len(st['hist']),'cells',len(st['cells']))
    prev=key
