#!/bin/bash
# usage: seedtest.sh <patch.diff> <property> [<property> ...]   -- applies a seeded change to /repo, runs the quick checks, undoes it
P=$1; shift
cd /repo || exit 2
if [ -n "$(git status --porcelain)" ]; then echo "repo not clean"; exit 2; fi
git apply "$P" || { echo "patch does not apply"; exit 2; }
for id in "$@"; do
  out=$(cd /verif && bin/check $id --tier quick 2>&1 | grep -E "^VIOLATION|^KNOWN|TOOL-ERROR|quick:" | cut -c1-220)
  echo "[$id] $out"
done
git checkout -- . ; git status --porcelain
