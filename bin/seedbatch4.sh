#!/bin/bash
# round 4: applies each verified seeded change to /repo, runs the quick checks named, undoes it
run() { id=$1; shift; d=/verif/seeded/$id; r=$d/result.txt; [ -f $r ] && return; /verif/bin/seedtest.sh $d/patch.diff "$@" > $r 2>&1; echo "== $id"; cat $r; }
run C01-5 C01
run C01-6 C01 C12
run C04-5 C04 C08
run C04-6 C04 C03
run C08-5 C08 C04
run C08-6 C08 C09
run C09-5 C09
run C09-6 C09 C06
run C12-5 C12 C11
run C12-6 C12
run C16-5 C16 C11
run C16-6 C16
