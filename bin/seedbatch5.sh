#!/bin/bash
# round 4, second batch
run() { id=$1; shift; d=/verif/seeded/$id; r=$d/result.txt; [ -f $r ] && return; /verif/bin/seedtest.sh $d/patch.diff "$@" > $r 2>&1; echo "== $id"; grep -E "^\[C..\]|VIOLATION|quick:|does not apply|TOOL" $r | sed 's/KNOWN-FINDING[^V]*//' | cut -c1-160; }
run C04-5 C08 C04
run C12-6 C12
run C08-6 C08
run C17-5 C17
run C17-6 C17
run C10-5 C10 C04
run C10-6 C10 C09
run C11-5 C11
run C11-6 C11
run C02-5 C02
run C02-6 C02
run C03-5 C03 C16
run C03-6 C03 C09
run C05-5 C05 C11
run C05-6 C05
run C06-5 C06
run C06-6 C06 C02
run C07-5 C07
run C07-6 C07
run C13-5 C13
run C13-6 C13
run C14-5 C14
run C14-6 C14 C10
run C15-5 C15
run C15-6 C15
run C18-5 C18
run C18-6 C18
