#!/bin/bash
# Confirms seeded changes in a scratch worktree of /repo's HEAD (outside /repo and /verif):
#   (1) patch applies; (2) with the patch and the demonstration appended, the full suite runs: the 115 repository
#   tests pass and the demonstration fails; (3) without the patch the demonstration passes.  Result: seeded/<id>/verify.txt
# usage: W=/tmp/seedverifyN seedverify3.sh <seed-id> ...      (the worktree and its build output are left for reuse;
#   remove with: git -C /repo worktree remove --force $W)
W=${W:-/tmp/seedverify}
if [ ! -d $W ]; then git -C /repo worktree add --detach $W HEAD >/dev/null 2>&1; fi
cd $W || exit 2
git checkout -q --detach $(git -C /repo rev-parse HEAD) 2>/dev/null
export CARGO_TARGET_DIR=$W/target TMPDIR=$W/tmp CARGO_NET_OFFLINE=true
mkdir -p $TMPDIR
clean() { git checkout -q -- . ; git clean -fdq src; rm -rf $TMPDIR/* $TMPDIR/.tmp* 2>/dev/null; }
for id in "$@"; do
  d=/verif/seeded/$id
  r=$d/verify.txt
  : > $r
  clean
  echo "head: $(git rev-parse --short HEAD)" >> $r
  if ! git apply $d/patch.diff 2>>$r; then echo "patch: APPLY-FAILED" >> $r; continue; fi
  echo "patch: applies" >> $r
  target=$(grep -oE 'src/[A-Za-z0-9_/]*tests[A-Za-z0-9_/]*\.rs' $d/demo_test.rs | head -1)
  fns=$(grep -A3 -E '^\s*#\[(tokio::)?test' $d/demo_test.rs | grep -oE 'fn [a-zA-Z0-9_]+' | awk '{print $2}' | sort -u)
  if [ -z "$target" ] || [ -z "$fns" ]; then echo "demo: no target/fn found" >> $r; continue; fi
  cat $d/demo_test.rs >> $target
  out=$(cargo test --offline -- --test-threads=8 2>&1)
  echo "suite+demo with patch: $(echo "$out" | grep -E '^error(\[|:)|test result' | head -2 | tr '\n' ' ')" >> $r
  failed=$(echo "$out" | grep -E '^test .* \.\.\. FAILED' | awk '{print $2}' | sed 's/.*:://' | sort -u | tr '\n' ' ')
  echo "failed with patch: $failed" >> $r
  other=""; for f in $failed; do echo "$fns" | grep -qx "$f" || other="$other $f"; done
  echo "repository tests failing with patch:${other:- none}" >> $r
  rm -rf $TMPDIR/* $TMPDIR/.tmp* 2>/dev/null
  git apply -R $d/patch.diff
  pref=$(echo "$fns" | head -1 | grep -oE '^c[0-9]+_demo[0-9]*')
  out=$(cargo test --offline ${pref:-$(echo "$fns" | head -1)} 2>&1)
  echo "demo without patch: $(echo "$out" | grep -E '^error(\[|:)|test result' | head -2 | tr '\n' ' ')" >> $r
  clean
done
