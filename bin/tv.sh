#!/bin/bash
# usage: tv.sh <TraceModule> <trace.ndjson> [metadir]
M=$1; T=$2; D=${3:-/verif/out/tlc-$$}
cd /verif/spec && TRACE=$T JAVA_TOOL_OPTIONS="-Xss1g -Dtlc2.tool.queue.IStateQueue=StateDeque" timeout ${TV_TIMEOUT:-600} tlc -workers 1 -metadir $D -cleanup -noGenerateSpecTE -config $M.cfg $M.tla 2>&1 | grep -v "^Parsing\|^Semantic\|^Linting\|^Picked up"
rm -rf $D
