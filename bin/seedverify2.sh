#!/bin/bash
# Confirms a seeded change (seeded/<id>/patch.diff + demo_test.rs) in a scratch worktree of /repo's HEAD, outside
# /repo and /verif: (1) the patch applies and compiles, (2) the repository's own suite still passes with it,
# (3) the demonstration test fails with it and (4) passes without it.  Result: seeded/<id>/verify.txt
# usage: seedverify2.sh <seed-id> ...
W=/tmp/seedverify
if [ ! -d $W ]; then git -C /repo worktree add --detach $W HEAD >/dev/null 2>&1; fi
cd $W || exit 2
git checkout -q --detach $(git -C /repo rev-parse HEAD) 2>/dev/null
export CARGO_TARGET_DIR=$W/target TMPDIR=$W/tmp CARGO_NET_OFFLINE=true
mkdir -p $TMPDIR
clean() { git checkout -q -- . ; git clean -fdq src; rm -rf $TMPDIR/* $TMPDIR/.tmp* 2>/dev/null; }
for id in "$@"; do
  d=/verif/seeded/$id
  r=$d/verify.txt
  : > $r
  clean
  echo "head: $(git rev-parse --short HEAD)" >> $r
  if ! git apply $d/patch.diff 2>>$r; then echo "patch: APPLY-FAILED" >> $r; continue; fi
  echo "patch: applies" >> $r
  echo "suite with patch: $(cargo test --offline 2>&1 | grep -E '^error|test result' | head -3 | tr '\n' ' ')" >> $r
  rm -rf $TMPDIR/* $TMPDIR/.tmp* 2>/dev/null
  target=$(grep -oE 'src/[A-Za-z0-9_/]*tests[A-Za-z0-9_/]*\.rs' $d/demo_test.rs | head -1)
  fns=$(grep -A3 -E '^\s*#\[(tokio::)?test' $d/demo_test.rs | grep -oE 'fn [a-zA-Z0-9_]+' | awk '{print $2}' | sort -u)
  if [ -z "$target" ] || [ -z "$fns" ]; then echo "demo: no target/fn found" >> $r; continue; fi
  cat $d/demo_test.rs >> $target
  for f in $fns; do
    echo "demo $f with patch: $(cargo test --offline $f 2>&1 | grep -E '^error(\[|:)|test result' | head -2 | tr '\n' ' ')" >> $r
  done
  git apply -R $d/patch.diff
  for f in $fns; do
    echo "demo $f without patch: $(cargo test --offline $f 2>&1 | grep -E '^error(\[|:)|test result' | head -2 | tr '\n' ' ')" >> $r
  done
  clean
done
