#!/bin/bash
# Runs quick checks against seeded changes on a LANE: a copy of /verif (committed files + prebuilt harness target)
# whose mirror harness compiles the sources of a scratch worktree of /repo's HEAD instead of /repo itself, so that
# several seeds can be evaluated in parallel without touching /repo.
# usage: lane.sh <n> <seed>:<prop>[,<prop>...] ...        results: /verif/seeded/<seed>/result.txt
N=$1; shift
L=/tmp/lane$N; W=/tmp/lw$N
if [ ! -d $W ]; then git -C /repo worktree add --detach $W HEAD >/dev/null 2>&1; fi
git -C $W checkout -q --detach $(git -C /repo rev-parse HEAD); git -C $W checkout -q -- .
mkdir -p $L
rsync -a --delete --exclude harness/target --exclude out --exclude .git --exclude seeded --exclude evidence /verif/ $L/
mkdir -p $L/evidence
sed -i "s|/repo/src|$W/src|g" $L/harness/src/main.rs
if [ ! -d $L/harness/target ]; then cp -a ${LANE_TARGET:-/tmp/vdev/harness/target} $L/harness/target; fi
for item in "$@"; do
  seed=${item%%:*}; props=${item#*:}
  d=/verif/seeded/$seed; r=$d/result.txt
  [ -f $r ] && continue
  : > $r
  if ! git -C $W apply $d/patch.diff 2>>$r; then echo "patch does not apply" >> $r; continue; fi
  for id in ${props//,/ }; do
    out=$(cd $L && VERIF_REPO=$W bin/check $id --tier quick 2>&1 | grep -E "^VIOLATION|^KNOWN|TOOL-ERROR|quick:" | cut -c1-220)
    echo "[$id] $out" >> $r
  done
  git -C $W checkout -q -- .
  echo "== $seed"; grep -E "^\[C..\]|VIOLATION|quick:|does not apply|TOOL" $r | sed 's/KNOWN-FINDING[^V]*//' | cut -c1-160
done
