#!/bin/bash
# runs the repository's own test suite (guard off) and removes the multi-GB temp stores it leaves in /tmp
cd /repo && cargo test --offline 2>&1 | grep -E "^error|test result|FAILED|panicked" | head -${1:-8}
find /tmp -maxdepth 1 -name ".tmp*" -newermt "$(date +%Y-%m-%d)" -exec rm -rf {} + 2>/dev/null
