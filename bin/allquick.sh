#!/bin/bash
# runs every registered quick check on the current tree; one line per property
for id in ${VERIF_IDS:-C01 C02 C03 C04 C05 C06 C07 C08 C09 C10 C11 C12 C13 C14 C15 C16 C17 C18}; do
  out=$(bin/check $id --tier ${1:-quick} 2>&1 | grep -E "^VIOLATION|TOOL-ERROR|(quick|thorough):" | cut -c1-200 | tr '\n' ' ')
  echo "$id: $out"
done
