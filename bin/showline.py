#!/usr/bin/env python3
import sys, json
f=sys.argv[1]; ns=[int(x) for x in sys.argv[2:]]
for i,l in enumerate(open(f),1):
    if i in ns:
        r=json.loads(l)
        r.pop('world',None)
        print(i, json.dumps(r, sort_keys=True))
