#!/bin/bash
# runs every seeded change that has no result yet against the check of its own property
for d in /verif/seeded/C*; do
  id=$(basename $d)
  for p in $d/patch*.diff; do
    n=$(basename $p .diff)
    r=$d/result_$n.txt
    [ -f $r ] && continue
    /verif/bin/seedtest.sh $p $id > $r 2>&1
  done
done
