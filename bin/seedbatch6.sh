#!/bin/bash
# round 5, first batch (seeds -7 / -8 of C01..C09)
run() { id=$1; shift; d=/verif/seeded/$id; r=$d/result.txt; [ -f $r ] && return; /verif/bin/seedtest.sh $d/patch.diff "$@" > $r 2>&1; echo "== $id"; grep -E "^\[C..\]|VIOLATION|quick:|does not apply|TOOL" $r | sed 's/KNOWN-FINDING[^V]*//' | cut -c1-160; }
run C01-7 C01
run C01-8 C01
run C02-7 C02 C06
run C02-8 C02 C16
run C03-7 C03 C04
run C03-8 C03 C16
run C04-7 C04
run C04-8 C04
run C05-7 C05 C12
run C05-8 C05
run C06-7 C06 C04
run C06-8 C06 C02
run C07-7 C07
run C07-8 C07 C08
run C08-7 C08
run C08-8 C08
run C09-7 C09
run C09-8 C09
