#!/usr/bin/env python3
# usage: tail_sc.py trace line [n]  -> summary of the n events before `line` in the same scenario
import sys, json
f=sys.argv[1]; L=int(sys.argv[2]); n=int(sys.argv[3]) if len(sys.argv)>3 else 30
rows=[]
for i,l in enumerate(open(f),1):
    if i>L: break
    rows.append((i,json.loads(l)))
sc=rows[-1][1]['sc']
rows=[(i,r) for i,r in rows if r['sc']==sc]
print('cfg',rows[0][1].get('cfg'), 'x', rows[0][1].get('x'))
for i,r in rows[-n:]:
    st=r['st']
    a=r.get('a',{})
    a={k:v for k,v in a.items() if k!='attrs'} if isinstance(a,dict) else a
    print(i,r['ev'], json.dumps(a)[:230], 'OUT', r['out'].get('ban'), r['out'].get('drop'), [ (m['kind'],m.get('startNum'),m.get('last')) for m in r['out']['sent']], r['out'].get('why'), '| tip',st.get('tip'),st.get('tipTD'),st.get('lastN'), {p:(v['st'],v['last'],v['proved'],v['pLastN'],v['lastTs'],v['when']) for p,v in st.get('peer',{}).items()})
