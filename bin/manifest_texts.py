TLA = "TLA+ spec + TLC model checking + trace validation of the real code (conformance)"
TEXTS = {
 "C05": {
  "level": "TLC explores exhaustively every interleaving of connect/disconnect/time/refresh/announcement/proof events for 2 peers on a small forked world (honest, invalid, stale, unsolicited and tip-state answers); seeded random honest-peer histories on generated variable-difficulty chains (Dummy and Eaglesong PoW, forks shallower than last-N, restarts, 1-3 peers) are executed on the real client and every logged step must be a step of PeerSync.tla: an honest answer must be committed, no ban and no disconnect other than the specified timeouts may occur, and at quiescence the stored tip must be a heaviest announced tip. Bounded, not a proof.",
  "ref": "DESIGN.md 4 C05", "technique": TLA,
  "note": "honest server = DESIGN.md appendix A (HonestPeer); liveness on the code is the bounded form 'converged after 4*peers+6 rounds'; known finding KF-C05-notlonger",
 },
 "C11": {
  "level": "The seven-state PeerState machine is transcribed into PeerSync.tla; TLC checks PeerDiagram / ProofOnlyWhenRequested / LastStateKeepsProof / timeout-disconnect rules on the complete bounded state graph (2 peers, full event alphabet) and on every step of the validated traces of the real client (strict equality of the projected peer state, requests sent, bans and disconnect requests after every event).",
  "ref": "DESIGN.md 4 C11", "technique": TLA,
  "note": "time abstracted to 30 s ticks (MESSAGE_TIMEOUT = 2 ticks); blocks/txs-proof request timeouts are covered under C16",
 },
 "C12": {
  "level": "TipOnlyHeavier (action property), TipTruthful and LastNAncestors (invariants) are checked by TLC on the bounded model (including a forged child and an unmined block) and on every logged state/step of real executions: honest syncs, forged children with made-up chain-root difficulty (mined on the Eaglesong profile), restarts between events; stored LAST_STATE / LAST_N_HEADERS are read back from the real RocksDB after every event.",
  "ref": "DESIGN.md 4 C12", "technique": TLA,
  "note": "total difficulties are small integers in the worlds given to TLC",
 },
}
NOT_APPLICABLE = {}
