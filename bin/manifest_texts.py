TLA = "TLA+ spec + TLC model checking + trace validation of the real code (conformance)"
FS = "FilterSync.tla / Index.tla give the transition relation of the filter pipeline (set_scripts, BlockFilters batches incl. the hash-chain check against cached / quorum filter hashes, matched-block records, blocks proof, block arrival and filter_block in number order, fork rollback, fetch bookkeeping) and the ground truth of the index derived from the world's transaction graph. "
TEXTS = {
 "C03": {
  "level": FS + "Seeded random histories on generated transaction graphs (same-block chains, typed cells, scripts sharing args prefixes, different start numbers, 1-3 peers, random batch boundaries, interleaved fetch_transaction / fetch_header / set_scripts / restarts) run on the real client; after every event the raw RocksDB keyspace is projected and TLC checks the step against the specification, CellsSound / HistOnCanon / ScriptsNumberHonest / NoForgedData on the state, and Complete (live cells and history equal the ground truth) at quiescence.",
  "ref": "DESIGN.md 4 C03", "technique": TLA,
  "note": "RPC answer formatting is covered by C13; known findings KF-C09-rollback-number, KF-C16-txheight",
 },
 "C04": {
  "level": FS + "Structured fork histories (sync on branch A fully or partly, matched blocks pending / partly downloaded, optional restart, then every peer on a heavier branch B forking 1..last-N+2 blocks below A's tip) and random ones: ForkDecision/CommitEffects must explain every tip change (fork point from the reorg section or, for rebased requests, from the returned last-N headers), CellsSound/HistOnCanon must hold in every state after the switch, Complete on branch B at quiescence, and deeper forks must leave everything untouched until the documented long-fork abort (the only Panic event the specification has).",
  "ref": "DESIGN.md 4 C04", "technique": TLA,
  "note": "known findings KF-C09-rollback-number, KF-C16-txheight",
 },
 "C06": {
  "level": FS + "RecvFilters specifies the accepted prefix (limit = min(filters, expected hashes)), the expected hashes (cached hashes below the last final check point, else the quorum prefix of the proven peers' latest hashes: LatestQuorum) and the hash chain from the parent; on the real code honest BlockFilters answers are preceded by mutants built from the client's own request (tampered filter bytes, swapped filters, start +-1, dropped / duplicated hash, unsolicited batches incl. right after a restart, and block hashes substituted by another canonical block / a block of another branch / a random hash while the filters are kept); every step must be explained by the specification, MatchedAtRightHeight is an invariant of every state and the consequences are followed through proof, download and indexing to Complete at quiescence.",
  "ref": "DESIGN.md 4 C06", "technique": TLA,
  "note": "known finding KF-C06-blockhash (substituted block hashes are accepted); after it triggers the completeness checks of that scenario are void",
 },
 "C02": {
  "level": FS + "On the real code the honest SendBlock / SendBlocksProof (v0, v1) / SendTransactionsProof (v0, v1) answers are preceded or replaced by mutants: bodies that the proved header does not commit to (transaction replaced / removed / added), altered / dropped / duplicated headers, found-and-missing, dropped or extra MMR proof items, altered v1 uncles hash, shortened v1 extensions, altered witnesses root, Merkle index, Merkle lemma, replaced transaction, altered filtered-block header; each must be banned with index, matched-block map and fetch tables exactly as specified (unchanged except the retry marks), NoForgedData holds in every state (every stored cell / history entry / transaction / header is a world object) and the RPC-visible statuses stay truthful.",
  "ref": "DESIGN.md 4 C02", "technique": TLA,
  "note": "mutations never regenerate the MMR proof; answers nobody asked for are covered by the no-request branch",
 },
 "C08": {
  "level": FS + "A seeded sync history (first-run initialisation, set_scripts all + partial, filter batches, block download and indexing, check point finalisation, shallow fork switch with rollback) is run once to count the storage writes W through the hook in storage.rs, then once per write boundary k (quick: an even sample of 45 per history and process, thorough: every k): the k-th write aborts the process, all in-memory state is dropped, the RocksDB directory is reopened and honest syncing continues to quiescence.  A store that cannot be reopened (DeadStore) or any panic other than the documented long-fork abort is never a step of the specification; from the crash on every logged state must satisfy CellsSound / HistOnCanon / ScriptsNumberHonest / LastNAncestors and the final state Complete, i.e. the RPC-visible index equals the crash-free ground truth.",
  "ref": "DESIGN.md 4 C08", "technique": TLA,
  "note": "durability below the process (torn writes, fsync) is out of scope; known findings KF-C09-rollback-number, KF-C16-txheight",
 },
 "C07": {
  "level": "CheckPoints.tla transcribes CheckPoints::add_check_points and finalize_check_points (clean / ban, required-th smallest length, per-index majority with ties, retain) as operators over plain values.  MC_CheckPoints explores exhaustively (3-4 peers, every quorum size 1..3, liars that send every message shape and value, connects, disconnects, loss of the prove state, restarts, up to 4 check points) AppendOnly, Quorum (everything that becomes final is backed by the quorum of currently proven peers' vectors since the previous final one), WrongNeverFinal and NotBlocked (fewer liars than the quorum) and ContradictorsBanned.  The same operators are the RecvCheckPoints / FinalizeStep actions of the trace specification: on the real client, drivers with 1-5 peers, max_outbound 1-5, honest and lying (colluding) vectors of different lengths and start indices, malformed / unsolicited BlockFilterCheckPoints, restarts and random orders of messages, filter ticks and refresh ticks must produce exactly the specified vectors, bans, requests and final check points (read back from RocksDB, truncated at MAX_CHECK_POINT_INDEX) at every event; CpAppendOnly, CpQuorum, CpTrue are checked on every step (crash steps included) and CpNotBlocked at quiescence.",
  "ref": "DESIGN.md 4 C07", "technique": TLA,
  "note": "latest-block-filter-hash quorum (the analogue above the last check point) is specified in FilterSync.tla (LatestQuorum) and exercised under C06",
 },
 "C10": {
  "level": "Hostile.tla states the outcome alphabet of message handling: every delivery on the light-client, filter, sync or relay protocol and every tick is one step that returns (accept / ignore / ban / disconnect) with the stored tip never lighter, and the process has exactly one abort action, LongForkAbort, enabled only by a SendLastStateProof for a request carrying the long-fork flag.  On the real client a fine-grained honest history is stopped at a random point (peers without state, announced, requested, proved, with and without pending proof / filter / block / fetch requests) and hundreds of byte strings per scenario are delivered: random bytes, and honest messages (live answers to the outstanding requests, earlier traffic, fresh announcements, the client's own requests echoed, relay messages) truncated at every kind of position, extended, with rewritten union tag / size / offset words, with 1-32 byte windows set to 0 / 1 / 2^32-1 / 2^64-1 / 2^256-1 / sign-bit patterns, and with re-sealed verifiable headers (number, epoch incl. zero length and index >= length, compact target, timestamp, total difficulty, chain-root numbers at boundary values, extension and extra hash recomputed so that the chain-root check passes), interleaved with all ticks, connects, disconnects and honest steps so that accepted garbage is carried into request building and the next proofs.  A panic (catch_unwind, overflow checks on) is logged as a Panic record, which is a step of the specification only as LongForkAbort.",
  "ref": "DESIGN.md 4 C10", "technique": TLA,
  "note": "sampling of an infinite input space; nine panics found this way were repaired (KNOWN_FINDINGS.json fixed entries)",
 },
 "C09": {
  "level": FS + "SetScripts is specified for all / partial / delete incl. empty lists, duplicates and the rewind rule; random command sequences are issued at every point of an ongoing sync (before/after filter batches, matched blocks pending or partly downloaded, restarts); every post-state must equal the specified script set / filtered number / cleared records, and ScriptsNumberHonest (history variable startOf) is evaluated on every state: no script is ever reported filtered beyond a canonical block that creates one of its cells and is not indexed.",
  "ref": "DESIGN.md 4 C09", "technique": TLA,
  "note": "known finding KF-C09-rollback-number",
 },
 "C16": {
  "level": FS + "fetch_transaction / fetch_header / get_transaction answers are part of the logged events and must equal the status the specification computes from the fetch tables (added / fetching / not_found with re-add / fetched); FetchTick, honest SendBlocksProof / SendTransactionsProof (found, missing, newer tip), timeouts, disconnects and restarts must transform the tables as specified; NoOrphanFetch (a sent, not timed-out, not missing entry is always held by some peer's request) and FetchedTruthful (a committed answer names a stored header of the block that contains the transaction) are invariants on every logged state, across fork switches.",
  "ref": "DESIGN.md 4 C16", "technique": TLA,
  "note": "pending-pool status is covered by C18; known finding KF-C16-txheight",
 },
 "C13": {
  "level": "Query.tla states what a page is: the matching entries (script of the right kind starting with the search script; filter script prefix / exact filter script for transactions, script length, data length, capacity and block ranges) after the cursor, in the byte order of the stored keys (script bytes then big-endian numbers, so that entries of scripts that are prefixes of each other interleave exactly as in RocksDB), the first `limit` of them without repetition, descending = reverse, the next cursor = the last returned key; grouped transactions = runs of one transaction, pages ending at a group boundary; capacity = the sum over the same matching cells with the tip of the same snapshot.  On the real RPC implementation, for indices produced by honest syncs of generated transaction graphs, random search keys (exact, shorter, longer and foreign scripts, lock / type, every filter incl. empty and inverted ranges, both orders, limits 1-4 and 100, with / without data, grouped / ungrouped) are paged to the end; every page is validated by TLC against the index read back from RocksDB (PageOk: exactly the first entries, nothing skipped, nothing repeated) and every completed query against the full matching set (every entry exactly once in key order).",
  "ref": "DESIGN.md 4 C13", "technique": TLA,
  "note": "one defect found and repaired (search scripts longer than a stored script); no separate TLC model: the property is about one pure function of the index, decided on logged calls",
 },
 "C14": {
  "level": "Difficulty.tla transcribes verify_tau and verify_total_difficulty (tau exponent, split of the epochs, estimated limits with their short circuits) and states the demand: MustReject (decrease, mismatch within one epoch / across one switch, epoch difficulty or total moving faster than tau per epoch) and the tight envelope every legal history lies in.  MC_Difficulty is the chain's difficulty history as a transition system (epochs of length 1-3 and block difficulty up to 8 appended one at a time, every switch within tau, up to 5 epochs): in every reachable history every pair of positions must pass VerifyTau, lie in the tight envelope, not be in MustReject and be accepted by VerifyTotalDifficulty; an exhaustive grid of arbitrary inputs checks MustReject => reject.  Trace_Difficulty binds the real functions to the transcription: on tens of thousands of logged calls (grid inputs incl. malformed positions and epochs out of order, totals around every bound; random legal histories logged with the history as witness, which TLC re-checks) the real verdicts of both functions must EQUAL the specified ones; legal histories with up to 3000 epochs and 12-200-bit difficulties must be accepted and arbitrary 64/256-bit numbers must not abort.",
  "ref": "DESIGN.md 4 C14", "technique": TLA,
  "note": "known finding KF-C14-envelope (the split-based estimate rejects some legal histories); the aborts on peer-supplied numbers were repaired",
 },
 "C15": {
  "level": "Sampling.tla states well-formedness of GetLastStateProof over the order structure of the difficulties; PeerSync.tla applies it (SamplesOk / ReqOk incl. the rebase rule) to EVERY request the real client sends in the sync drivers, and Trace_Sampling.tla to the real build_prove_request_content(_from_genesis) called over a grid of 109 (blocks, lastN) rows x random 2^64-scale numbers and 8..250-bit difficulties, with and without a previous proof and remembered last-N headers; the number of distinct samples is compared with a table computed in exact arithmetic; the must-refuse cases must return None.",
  "ref": "DESIGN.md 4 C15", "technique": TLA,
  "note": "statistical shape of the sample distribution is out of reach; known finding KF-C15-resolution",
 },
 "C01": {
  "level": "RecvProof of PeerSync.tla commits trusted state only through ProofCommit, whose guard is the conjunction of all verification attributes; TLC checks on the bounded model that every message class with one failed attribute leaves the trusted state unchanged. On the real code, for requests the client itself generated (random FlyClient samples) in five kinds of pre-state (first proof, new proof, after restart, reorg, no-sample range), every mutation of the honest answer from a catalogue (every raw header field, uncles hash, extension, every parent-chain-root field, drop/duplicate/swap of headers and proof items, fork headers, and RE-PROVED structural changes: hidden / replaced / extra samples, holes in the last-N and reorg sections) is delivered and must be banned with the projected trusted state unchanged, after which the honest answer must still be accepted; adversarial branches with one unmined (real Eaglesong PoW) or non-committing block are served by the honest algorithm and must be rejected exactly when a flawed header is shown.",
  "ref": "DESIGN.md 4 C01", "technique": TLA,
  "note": "mutation catalogue is finite; positions are a seeded sample in quick and all positions in thorough",
 },
 "C05": {
  "level": "TLC explores exhaustively every interleaving of connect/disconnect/time/refresh/announcement/proof events for 2 peers on a small forked world (honest, invalid, stale, unsolicited and tip-state answers); seeded random honest-peer histories on generated variable-difficulty chains (Dummy and Eaglesong PoW, forks shallower than last-N, restarts, 1-3 peers) are executed on the real client and every logged step must be a step of PeerSync.tla: an honest answer must be committed, no ban and no disconnect other than the specified timeouts may occur, and at quiescence the stored tip must be a heaviest announced tip. Bounded, not a proof.",
  "ref": "DESIGN.md 4 C05", "technique": TLA,
  "note": "honest server = DESIGN.md appendix A (HonestPeer); liveness on the code is the bounded form 'converged after 4*peers+6 rounds'; known finding KF-C05-notlonger",
 },
 "C11": {
  "level": "The seven-state PeerState machine is transcribed into PeerSync.tla; TLC checks PeerDiagram / ProofOnlyWhenRequested / LastStateKeepsProof / timeout-disconnect rules on the complete bounded state graph (2 peers, full event alphabet) and on every step of the validated traces of the real client (strict equality of the projected peer state, requests sent, bans and disconnect requests after every event).",
  "ref": "DESIGN.md 4 C11", "technique": TLA,
  "note": "time abstracted to 30 s ticks (MESSAGE_TIMEOUT = 2 ticks); blocks/txs-proof request timeouts are covered under C16",
 },
 "C12": {
  "level": "TipOnlyHeavier (action property), TipTruthful and LastNAncestors (invariants) are checked by TLC on the bounded model (including a forged child and an unmined block) and on every logged state/step of real executions: honest syncs, forged children with made-up chain-root difficulty (mined on the Eaglesong profile), restarts between events; stored LAST_STATE / LAST_N_HEADERS are read back from the real RocksDB after every event.",
  "ref": "DESIGN.md 4 C12", "technique": TLA,
  "note": "total difficulties are small integers in the worlds given to TLC",
 },
}
NOT_APPLICABLE = {}
