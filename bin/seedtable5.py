#!/usr/bin/env python3
"""Markdown table of the round-5 seeded changes (seeds -7 / -8): first run and run after strengthening."""
import glob, os, re
def verdicts(path):
    out = []
    if not os.path.exists(path):
        return out
    for m in re.finditer(r"\[(C\d\d)\]([^\[]*)", open(path).read()):
        body = m.group(2)
        q = re.search(r"(\d+) violations", body)
        v = "caught" if ("VIOLATION" in body or (q and int(q.group(1)) > 0)) else ("tool error" if "TOOL-ERROR" in body else "missed")
        out.append("%s %s" % (m.group(1), v))
    return out
print("| seed | file | change | first run | after strengthening |")
print("|---|---|---|---|---|")
for d in sorted(glob.glob("/verif/seeded/C??-[78]")):
    sid = os.path.basename(d)
    title = open(d + "/demo.md").readline().strip().lstrip("# ").replace("|", "/") if os.path.exists(d + "/demo.md") else ""
    files = sorted(set(os.path.basename(f) for f in re.findall(r"^\+\+\+ b/(\S+)", open(d + "/patch.diff").read(), re.M)))
    print("| %s | %s | %s | %s | %s |" % (sid, ", ".join(files), title[:150], "; ".join(verdicts(d + "/result.txt")) or "-", "; ".join(verdicts(d + "/result.rerun.txt"))))
