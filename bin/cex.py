#!/usr/bin/env python3
"""Compact view of a TLC counterexample of the PeerSync models: per state the action, tip, srv and per peer st/last/proved/req.last."""
import sys, re
txt = sys.stdin.read()
for blk in re.split(r"\n(?=State \d+:)", txt):
    m = re.match(r"State (\d+): <?([A-Za-z]+(?:\(\"?[^)]*\))?)", blk)
    if not m: continue
    g = lambda pat: (re.search(pat, blk) or [None, "?"])[1]
    peers = re.findall(r'(p\d) \|->\s*\[ st \|-> "(\w+)",\s*last \|-> (\d+),\s*req \|->\s*\[ last \|-> (\d+),[^\]]*\],\s*proved \|-> (\d+)', blk)
    print("%3s %-22s tip=%s td=%s srv=%s  %s" % (m.group(1), m.group(2)[:22], g(r"/\\ tip = (\d+)"), g(r"/\\ tipTD = (\d+)"), g(r"/\\ srv = (\[[^\]]*\])"),
          "  ".join("%s:%s last=%s req=%s proved=%s" % p for p in peers)))
