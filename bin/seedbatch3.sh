#!/bin/bash
run() { p=$1; suf=$2; shift 2; d=$(dirname $p); n=$(basename $p .diff); r=$d/result_$n$suf.txt; [ -f $r ] && return; /verif/bin/seedtest.sh $p "$@" > $r 2>&1; }
S=/verif/seeded
run $S/C10/patch2.diff .rerun C10
run $S/C12/patch1.diff .rerun C12
run $S/C12/patch2.diff .rerun C12
run $S/C16/patch2.diff .rerun C16
run $S/C13/patch2.diff .c17 C17
