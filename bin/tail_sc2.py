#!/usr/bin/env python3
"""usage: tail_sc2.py <trace> <scenario> [n]: last n events of a scenario with the main state columns"""
import json,sys
f,sc=sys.argv[1],sys.argv[2]; n=int(sys.argv[3]) if len(sys.argv)>3 else 60
rows=[]
for l in open(f):
    r=json.loads(l)
    if r['sc']==sc: rows.append(r)
    elif rows: break
print(len(rows), rows[0].get('x'), rows[0].get('cfg'))
for q in rows[-n:]:
    st=q['st']
    print(q['ev'], json.dumps(q.get('a'))[:110], '| tip', st['tip'], 'minF', st['minF'], 'cpF', st['cpFinal'], 'ca', json.dumps(st['cached'])[:30], 'mdb', json.dumps(st['mdb'])[:60], 'P', {p:(v['st'][:6],v['proved']) for p,v in st['peer'].items()}, 'lat', {p:(v['latest'][0],len(v['latest'][1]),v['cps'][0],len(v['cps'][1])) for p,v in st['pf'].items()}, 'S', [(m['kind'][:14],m.get('start')) for m in q['out']['sent']][:4], q['out']['ban'])
