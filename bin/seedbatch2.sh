#!/bin/bash
run() { # patch, result suffix, properties...
  p=$1; suf=$2; shift 2
  d=$(dirname $p); n=$(basename $p .diff)
  r=$d/result_$n$suf.txt
  [ -f $r ] && return
  /verif/bin/seedtest.sh $p "$@" > $r 2>&1
}
S=/verif/seeded
run $S/C01/patch1.diff .rerun C01
run $S/C06/patch2.diff .rerun C06
run $S/C04/patch2.diff .rerun C04
run $S/C05/patch2.diff .rerun C05
for id in C08 C10 C11 C12 C14 C15 C16 C17 C18; do
  for p in $S/$id/patch*.diff; do run $p "" $id; done
done
