#!/bin/bash
# Confirms for every /verif/seeded/*/patch.diff that it applies, compiles and that the repository's own
# test suite still passes (in a scratch worktree outside /repo and /verif); result in tests.txt.
W=/tmp/seedverify
if [ ! -d $W ]; then git -C /repo worktree add --detach $W HEAD >/dev/null 2>&1; fi
cd $W || exit 2
git checkout -q --detach $(git -C /repo rev-parse HEAD) 2>/dev/null
export CARGO_TARGET_DIR=$W/target TMPDIR=$W/tmp CARGO_NET_OFFLINE=true
mkdir -p $TMPDIR
for p in /verif/seeded/*/patch.diff; do
  r=$(dirname $p)/tests.txt
  [ -f $r ] && continue
  git checkout -q -- . ; git clean -fdq src
  if ! git apply $p 2>/dev/null; then echo "APPLY-FAILED" > $r; continue; fi
  cargo test --offline 2>&1 | grep -E "^error|test result|FAILED|failed" | head -5 > $r
  rm -rf $TMPDIR/* $TMPDIR/.tmp* 2>/dev/null
  git checkout -q -- .
done
