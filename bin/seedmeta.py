#!/usr/bin/env python3
"""Writes /verif/seeded/<property>-<n>/meta.json from the demo write-up, the repository test result and the check results."""
import json, os, re, glob
for d in sorted(glob.glob("/verif/seeded/C??-*")):
    sid = os.path.basename(d)
    p = d + "/patch.diff"
    files = sorted(set(re.findall(r"^\+\+\+ b/(\S+)", open(p).read(), re.M)))
    results = {}
    for r in sorted(glob.glob(d + "/result*.txt")):
        tag = os.path.basename(r)[len("result"):-4]
        for m in re.finditer(r"\[(C\d\d)\]([^\[]*)", open(r).read()):
            body = m.group(2)
            verdict = "detected" if "VIOLATION" in body else ("tool-error" if "TOOL-ERROR" in body else "not detected")
            q = re.search(r"C\d\d quick: ([^\n]*)", body)
            results[m.group(1) + (" " + tag.strip(".") if tag else "")] = {"verdict": verdict, "summary": q.group(1) if q else body.strip()[:200]}
    meta = {
        "seed": sid,
        "property": sid[:3],
        "files_changed": files,
        "what_it_needs_to_manifest": (open(d + "/demo.md").read()[:2000] if os.path.exists(d + "/demo.md") else ""),
        "demonstration": [f for f in ("demo.md", "demo_test.rs") if os.path.exists(os.path.join(d, f))],
        "repository_tests_with_patch": (open(d + "/tests.txt").read().strip() if os.path.exists(d + "/tests.txt")
                                        else ([l.split(":", 1)[1].strip() for l in open(d + "/verify.txt") if l.startswith("suite with patch")]
                                              or [("115 repository tests pass (" + l.strip() + ")") for l in open(d + "/verify.txt") if l.startswith("repository tests failing with patch: none")]
                                              or ["not run"])[0]
                                        if os.path.exists(d + "/verify.txt") else "not run"),
        "demonstration_confirmed": ([l.strip() for l in open(d + "/verify.txt") if l.startswith("demo ") or l.startswith("head:") or l.startswith("suite+demo") or l.startswith("failed with patch")]
                                    if os.path.exists(d + "/verify.txt") else []),
        "rebased": sorted(os.path.basename(f) for f in glob.glob(d + "/patch.orig-*.diff")),
        "checks_run": results,
        "how_confirmed": ("bin/seedverify3.sh <seed> (scratch worktree of /repo's HEAD outside /repo and /verif: git apply; demonstration appended to the test module it names; cargo test --offline on the whole suite: the 115 repository tests pass and the demonstration fails; git apply -R: the demonstration passes); worktree removed afterwards"
                          if sid[-1] in "78" else "bin/seedverify2.sh <seed> (scratch worktree /tmp/seedverify of /repo's HEAD: git apply; cargo test --offline; demo test appended to the test module it names: fails with the patch, passes after git apply -R); removed afterwards"),
        "how_run": (("bin/lane.sh <n> %s:<properties>  (a copy of /verif with its harness compiling a scratch worktree of /repo's HEAD to which the patch is applied -- the same bin/check, several seeds in parallel, /repo untouched; C01-7 and C01-8 with bin/seedtest.sh on /repo itself); '.rerun' = after the check was strengthened" % sid)
                    if sid[-1] in "78" else "bin/seedtest.sh %s/patch.diff <property>  (git -C /repo apply; bin/check <property> --tier quick; git -C /repo checkout -- .); '.rerun' = after the check was strengthened" % d),
    }
    json.dump(meta, open(d + "/meta.json", "w"), indent=1)
print("ok")
