#!/usr/bin/env python3
# debugging aid only (not part of any check): explains which cells/hist entries are unsound at a trace line
import sys, json
f=sys.argv[1]; L=int(sys.argv[2])
rows=[]
for i,l in enumerate(open(f),1):
    if i>L: break
    rows.append(json.loads(l))
r=rows[-1]; sc=r['sc']
w=[x for x in rows if x['sc']==sc and x['ev']=='Reset'][-1]['world']
st=r['st']; B=w['blocks']; T=w['txs']; btx=w['btx']
def chain(b):
    c=[]
    while b: c.append(b); b=B[b-1]['parent']
    return c[::-1]
ch=chain(st['tip'])
print('ev',r['ev'],r.get('a'),'tip',st['tip'],'num',B[st['tip']-1]['num'],'scripts',st['scripts'],'minF',st['minF'],'mdb',st['mdb'])
scr=dict((a,b) for a,b in st['scripts'])
def spent_upto(hi):
    s=set()
    for n in range(0,min(hi,len(ch)-1)+1):
        for t in btx[ch[n]-1]:
            for i in T[t-1]['ins']: s.add((i[0],i[1]))
    return s
for c in st['cells']:
    sk,num,ti,oi,t=c
    if sk not in scr: continue
    ok = t>=1 and num<len(ch) and T[t-1]['b']==ch[num] and T[t-1]['i']==ti
    sp = (t,oi) in spent_upto(scr[sk])
    if not ok or sp:
        who=[(n,tt) for n in range(len(ch)) for tt in btx[ch[n]-1] if [t,oi] in T[tt-1]['ins']]
        print('BAD cell',c,'oncanon',ok,'spent',sp,'tx block',T[t-1]['b'] if t>=1 else None,'spent by (num,tx)',who)
for h in st['hist']:
    sk,num,ti,ioi,iot,t=h
    if sk not in scr: continue
    ok = t>=1 and num<len(ch) and T[t-1]['b']==ch[num] and T[t-1]['i']==ti
    if not ok: print('BAD hist',h)
