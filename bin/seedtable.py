#!/usr/bin/env python3
"""Prints the markdown table of seeded changes and verdicts (DESIGN.md 9.7) from /verif/seeded/<property>-<n>/."""
import glob, os, re
rows = []
for d in sorted(glob.glob("/verif/seeded/C??-*")):
    sid = os.path.basename(d)
    p = d + "/patch.diff"
    title = ""
    if os.path.exists(d + "/demo.md"):
        first = open(d + "/demo.md").readline().strip().lstrip("# ")
        title = re.sub(r"^(C\d\d\s*)?[Ss]eeded (defect|change)\s*\d*\s*(\(C\d\d\))?\s*[:\-]*\s*", "", first)
    files = sorted(set(os.path.basename(f) for f in re.findall(r"^\+\+\+ b/(\S+)", open(p).read(), re.M)))
    verdicts = []
    for r in sorted(glob.glob(d + "/result*.txt")):
        tag = os.path.basename(r)[len("result"):-4]
        for m in re.finditer(r"\[(C\d\d)\]([^\[]*)", open(r).read()):
            body = m.group(2)
            v = "caught" if "VIOLATION" in body else ("tool error" if "TOOL-ERROR" in body else "missed")
            verdicts.append("%s %s%s" % (m.group(1), v, " (after strengthening)" if tag == ".rerun" else ""))
    t = "115 pass" if os.path.exists(d + "/tests.txt") and "115 passed" in open(d + "/tests.txt").read() else "?"
    rows.append("| %s | %s | %s | %s | %s |" % (sid, ", ".join(files), title[:110], t, "; ".join(verdicts) or "not run"))
print("| seed | file | change | repo tests | checks |")
print("|---|---|---|---|---|")
print("\n".join(rows))
