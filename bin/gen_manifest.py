#!/usr/bin/env python3
"""Regenerates MANIFEST.json from bin/checks_config.py and the texts below."""
import json, os, sys, subprocess
ROOT = os.path.dirname(os.path.dirname(os.path.abspath(__file__)))
sys.path.insert(0, os.path.join(ROOT, "bin"))
from checks_config import CHECKS
from manifest_texts import TEXTS, NOT_APPLICABLE
props = [json.loads(l)["id"] for l in open(os.path.join(ROOT, "properties.jsonl"))]
commits = subprocess.run(["git", "-C", "/repo", "log", "--format=%h %s"], capture_output=True, text=True).stdout.splitlines()
hook_commits = [c.split()[0] for c in commits if "verif hook" in c]
checks = []
for p in props:
    if p in CHECKS and p in TEXTS:
        t = TEXTS[p]
        checks.append({
            "property_id": p,
            "quick_cmd": "bin/check %s --tier quick" % p,
            "thorough_cmd": "bin/check %s --tier thorough" % p,
            "evidence_file": "/verif/evidence/%s.json" % p,
            "replay_cmd_template": "bin/check %s --replay {path}" % p,
            "engine": "tla-conformance",
            "level_claimed": {"category": "model_checking", "text": t["level"], "design_ref": t["ref"]},
            "level_note": t["note"],
            "technique": t["technique"],
        })
na = [{"property_id": p, "reason": NOT_APPLICABLE.get(p, "check under construction in this session (DESIGN.md section 4); not yet claimed")}
      for p in props if not any(c["property_id"] == p for c in checks)]
m = {
    "version": 1,
    "setup_cmd": "python3 bin/gen_harness.py && cd harness && cargo test --no-run --offline --test harness",
    "hooks": {
        "guard": "--cfg ckb_light_client_verif",
        "enable": "the mirror crate /verif/harness compiles /repo/src/*.rs via #[path] with rustflags --cfg ckb_light_client_verif (harness/.cargo/config.toml) as a harness=false test target (cfg(test))",
        "baseline_off_cmd": "cd /repo && cargo test --workspace --no-fail-fast --offline",
        "source_commits": hook_commits,
        "add_only": True,
    },
    "engines": [{
        "name": "tla-conformance", "path": "bin/check",
        "serves_properties": [c["property_id"] for c in checks],
        "kind_free_text": "explicit TLA+ specification (spec/*.tla) model-checked with TLC; bound to the code by trace validation: drivers in the mirror harness run the real client against a simulated chain/peers, log every event with the full projected abstract state, TLC checks each step is a step of the spec and evaluates all invariants/action properties on it",
    }],
    "checks": checks,
    "notes": "Model-based verification with an explicit TLA+ specification. See DESIGN.md; known findings in KNOWN_FINDINGS.json.",
    "not_applicable": na,
}
json.dump(m, open(os.path.join(ROOT, "MANIFEST.json"), "w"), indent=1)
print("checks:", [c["property_id"] for c in checks], "n/a:", len(na))
