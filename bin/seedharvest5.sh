#!/bin/bash
# round 5: harvests /tmp/seed5/<prop>/deliver/{patch,demo}{1,2}* into /verif/seeded/<prop>-{7,8}/ and removes the scratch worktree
for p in "$@"; do
  W=/tmp/seed5/$p
  for k in 1 2; do
    n=$((k+6)); d=/verif/seeded/$p-$n
    [ -f $W/deliver/patch$k.diff ] || { echo "$p: no patch$k"; continue; }
    mkdir -p $d
    cp $W/deliver/patch$k.diff $d/patch.diff
    cp $W/deliver/demo${k}_test.rs $d/demo_test.rs 2>/dev/null
    cp $W/deliver/demo$k.md $d/demo.md 2>/dev/null
    echo "$p-$n: $(head -1 $d/demo.md)"
  done
  rm -rf $W/target $W/tmp
  git -C /repo worktree remove --force $W
done
