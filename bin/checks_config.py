"""Per-property configuration of bin/check: model-checking runs (M), conformance drivers (R), trace spec (T)."""

COMMON_ASSUMPTIONS = [
    "cryptography and codecs (blake2b, Eaglesong, MMR library, molecule, GCS) are executed for real but trusted",
    "time is abstracted to 30 s ticks (ckb_systemtime faketime); Instant-based windows are not exercised",
    "all exploration is bounded: small worlds exhaustively in TLC, generated worlds by seeded random drivers",
]

MC_PEERSYNC = {"module": "MC_PeerSync", "cfg": {"quick": "MC_PeerSync_quick.cfg", "thorough": "MC_PeerSync.cfg"},
               "timeout": {"quick": 600, "thorough": 3000}, "workers": 8}

# LastN larger than the chain (every header is a "last" one) with a requestable fork switch 7 -> 12
MC_PEERSYNC_SHORT = {"module": "MC_PeerSync", "cfg": {"quick": "MC_PeerSync_short.cfg", "thorough": "MC_PeerSync_short.cfg"},
                     "timeout": {"quick": 900, "thorough": 3000}, "workers": 12}

# liveness under fairness (honest peers, servers grow and reorganise, no time): <>[] converged, every peer proven,
# answerable requests answered; checked on the complete graph, no state constraint
MC_PEERSYNC_LIVE = {"module": "MC_PeerSyncLive", "cfg": {"quick": "MC_PeerSyncLive_quick.cfg", "thorough": "MC_PeerSyncLive.cfg"},
                    "timeout": {"quick": 900, "thorough": 3000}, "workers": 8}
# the convergence property exactly as stated: TLC must exhibit KF-C05-notlonger as a liveness counterexample
MC_PEERSYNC_LIVE_STRICT = {"module": "MC_PeerSyncLive", "cfg": {"quick": None, "thorough": "MC_PeerSyncLive_strict.cfg"},
                           "expect": "violation", "expect_re": r"Temporal property ConvergesToHeaviest was violated",
                           "timeout": {"quick": 900, "thorough": 3000}, "workers": 8}

def peersync(mode, nq, nt, pq=4, pt=12, extra=None):
    return {"name": "peersync-" + mode, "driver": "peersync", "args": ["mode=" + mode] + (extra or []),
            "n": {"quick": nq, "thorough": nt}, "procs": {"quick": pq, "thorough": pt}}

def replay(nq, nt, pq=2, pt=6):
    """specification -> implementation: behaviours of MC_PeerSyncR (tlc -simulate) executed on the real client"""
    return {"name": "peersync-replay", "driver": "peersync", "args": ["mode=replay"], "trace_module": "Trace_PeerSync",
            "gen": {"module": "MC_PeerSyncR", "cfg": "MC_PeerSyncR.cfg", "num": {"quick": 300, "thorough": 3000}, "depth": 40},
            "n": {"quick": nq, "thorough": nt}, "procs": {"quick": pq, "thorough": pt}}

def fsync(mode, nq, nt, pq=2, pt=8, extra=None):
    return {"name": "filtersync-" + mode, "driver": "filtersync", "args": ["mode=" + mode] + (extra or []),
            "trace_module": "Trace_FilterSync",
            "n": {"quick": nq, "thorough": nt}, "procs": {"quick": pq, "thorough": pt}}

def wsync(mode, nq, nt, pq=1, pt=4):
    """the same histories with the storage hook observing every write: <trace>.w is validated by Trace_Writes"""
    d = fsync(mode, nq, nt, pq, pt, ["wlog=1"])
    d["name"] = "filtersync-w-" + mode
    return d

def freplay(nq, nt, pq=2, pt=6):
    """specification -> implementation: behaviours of MC_FilterForkR (tlc -simulate) executed on the real client,
    with the write-level observation on"""
    return {"name": "filtersync-replay", "driver": "filtersync", "args": ["mode=replay", "wlog=1"], "trace_module": "Trace_FilterSync",
            "gen": {"module": "MC_FilterForkR", "cfg": "MC_FilterForkR.cfg", "num": {"quick": 300, "thorough": 3000}, "depth": 24},
            "n": {"quick": nq, "thorough": nt}, "procs": {"quick": pq, "thorough": pt}}

def fetchreplay(nq, nt, pq=2, pt=6):
    """specification -> implementation: behaviours of MC_FetchR (tlc -simulate) executed on the real client"""
    return {"name": "filtersync-fetchreplay", "driver": "filtersync", "args": ["mode=fetchreplay"], "trace_module": "Trace_FilterSync",
            "gen": {"module": "MC_FetchR", "cfg": "MC_FetchR.cfg", "num": {"quick": 300, "thorough": 3000}, "depth": 24},
            "n": {"quick": nq, "thorough": nt}, "procs": {"quick": pq, "thorough": pt}}

def mc_cp(name, quick, tq=600, tt=3000):
    return {"module": "MC_CheckPoints", "cfg": {"quick": ("MC_CheckPoints_%s.cfg" % name) if quick else None, "thorough": "MC_CheckPoints_%s.cfg" % name},
            "timeout": {"quick": tq, "thorough": tt}, "workers": 8}

MC_FILTERSYNC = {"module": "MC_FilterSync", "cfg": "MC_FilterSync.cfg", "timeout": {"quick": 600, "thorough": 1800}, "workers": 6}

# the pipeline at the granularity of one storage write, with a crash before any write (Writes.tla)
MC_WRITES = {"module": "MC_Writes", "cfg": {"quick": "MC_Writes.cfg", "thorough": "MC_Writes_2.cfg"},
             "timeout": {"quick": 900, "thorough": 3000}, "workers": 8}
# the three-write chain set_scripts had before fix (see KNOWN_FINDINGS.json): TLC must refute it (vacuity guard)
MC_WRITES_SPLIT = {"module": "MC_Writes", "cfg": {"quick": None, "thorough": "MC_Writes_split.cfg"}, "expect": "violation",
                   "timeout": {"quick": 900, "thorough": 900}, "workers": 8}

# C04: the pipeline of MC_FilterSync on a world with a fork; the peer reorganises at any point of the pipeline
MC_FILTERFORK = {"module": "MC_FilterFork", "cfg": "MC_FilterFork.cfg", "timeout": {"quick": 900, "thorough": 1800}, "workers": 6}
# rollback_to_fork_number before fix 10f415f: TLC must refute it
MC_FILTERFORK_PREFIX = {"module": "MC_FilterFork", "cfg": "MC_FilterFork_prefix.cfg", "expect": "violation",
                        "timeout": {"quick": 900, "thorough": 1800}, "workers": 6}

# C04 liveness under fairness: eventually nothing is pending and everything is filtered up to the tip (complete graph)
MC_FILTERFORK_LIVE = {"module": "MC_FilterForkLive", "cfg": {"quick": "MC_FilterForkLive.cfg", "thorough": "MC_FilterForkLive_big.cfg"},
                      "timeout": {"quick": 900, "thorough": 3000}, "workers": 4}
# the property exactly as stated ("without ever getting stuck waiting for a block of the abandoned branch"): TLC must
# exhibit KF-C04-spanning-record as the liveness counterexample
MC_FILTERFORK_LIVE_STRICT = {"module": "MC_FilterForkLive", "cfg": {"quick": None, "thorough": "MC_FilterForkLive_strict.cfg"},
                             "expect": "violation", "expect_re": r"Temporal property Resumes was violated",
                             "timeout": {"quick": 900, "thorough": 900}, "workers": 4}

# C17: the fork switch interleaved with a BlockFilters batch at write granularity, with the matched-blocks lock
MC_CONC = {"module": "MC_Conc", "cfg": "MC_Conc.cfg", "timeout": {"quick": 600, "thorough": 600}, "workers": 4}
# the lock discipline before fix 92f2bdb (tip and prove state updated outside the lock): TLC must refute it
MC_CONC_PREFIX = {"module": "MC_Conc", "cfg": "MC_Conc_prefix.cfg", "expect": "violation",
                  "timeout": {"quick": 600, "thorough": 600}, "workers": 4}

# C16: the fetch tables, the fetch tick's requests, honest / rejected answers, peers that drop out and come back; with
# liveness under fairness (NeverLost) on the complete graph
MC_FETCH = {"module": "MC_Fetch", "cfg": {"quick": "MC_Fetch.cfg", "thorough": "MC_Fetch_big.cfg"},
            "timeout": {"quick": 900, "thorough": 6000}, "workers": 6}
# a rejected answer only clears the request (the code before fix 4053296): TLC must refute it
MC_FETCH_PREFIX = {"module": "MC_Fetch", "cfg": "MC_Fetch_prefix.cfg", "expect": "violation",
                   "timeout": {"quick": 300, "thorough": 300}, "workers": 4}

FS_ASSUMPTIONS = COMMON_ASSUMPTIONS + [
    "the index is read back by a raw scan of the RocksDB keyspace after every event and compared with the ground truth TLC derives from the world (Index.tla)",
    "Golomb-coded filters may match more blocks than necessary: the specification only requires the true matches",
    "inputs that spend cells created at or below a script's start number cannot be resolved by a light client and are neither required nor forbidden",
]

CHECKS = {
    "C03": {
        "trace_module": "Trace_FilterSync",
        "mc": [MC_FILTERSYNC],
        "drivers": [fsync("sync", 25, 200, 3, 8), fsync("fetch", 20, 150, 2, 6), fsync("pump", 10, 60, 1, 3)],
        "assumptions": FS_ASSUMPTIONS,
    },
    "C04": {
        "trace_module": "Trace_FilterSync",
        "mc": [MC_FILTERSYNC, MC_FILTERFORK, MC_FILTERFORK_PREFIX, MC_FILTERFORK_LIVE, MC_FILTERFORK_LIVE_STRICT],
        "drivers": [fsync("fork", 40, 300, 4, 10), fsync("forkrand", 15, 100, 1, 4), wsync("fork", 8, 60, 1, 3), freplay(100, 1000, 2, 6)],
        "assumptions": FS_ASSUMPTIONS,
    },
    "C07": {
        "trace_module": "Trace_FilterSync",
        "mc": [mc_cp("a", True), mc_cp("b", False), mc_cp("c", False), mc_cp("d", False), mc_cp("e", False), mc_cp("f", False)],
        "drivers": [fsync("cp", 40, 300, 4, 10), fsync("pump", 6, 40, 1, 3),
                    # specification -> implementation: behaviours of MC_CheckPointsR (tlc -simulate) on a real chain
                    {"name": "filtersync-cpreplay", "driver": "filtersync", "args": ["mode=cpreplay"], "trace_module": "Trace_FilterSync",
                     "gen": {"module": "MC_CheckPointsR", "cfg": "MC_CheckPointsR.cfg", "num": {"quick": 400, "thorough": 4000}, "depth": 28},
                     "n": {"quick": 700, "thorough": 7000}, "procs": {"quick": 2, "thorough": 6}}],
        "assumptions": COMMON_ASSUMPTIONS + [
            "check point values are identified with block ids (SimChain gives every block a unique filter hash); invented values are negative ids shared by colluding liars",
            "a banned peer is disconnected by the network layer before its next message (enforce_bans)",
            "'a peer contradicting a final value is banned' is read as: by the first refresh that has at least the quorum of proven peers (with fewer, finalize_check_points returns before looking at any vector; DESIGN.md 4 C07)",
        ],
    },
    "C10": {
        "trace_module": "Trace_Hostile",
        "mc": [],
        "drivers": [{"name": "hostile", "driver": "hostile", "args": [], "trace_module": "Trace_Hostile",
                     "n": {"quick": 150, "thorough": 2500}, "procs": {"quick": 6, "thorough": 14}},
                    # mutated filter / proof / block messages in the states of a running filter sync (scripts registered,
                    # hashes known, records pending): any Panic event is a rejection
                    fsync("adv", 20, 150, 2, 6)],
        "assumptions": COMMON_ASSUMPTIONS + [
            "a panic is observed with catch_unwind around CKBProtocolHandler::received / notify, with overflow checks on (as in the repository's release profile)",
            "byte strings are generated from honest messages (answers to the currently outstanding requests, earlier traffic, announcements, the client's own requests) by truncation, extension, tag / size / offset rewriting, boundary-value windows and re-sealed headers, plus random bytes; the space of byte strings is sampled, not enumerated",
            "aborts inside the storage layer caused by disk failures are out of scope",
        ],
    },
    "C09": {
        "trace_module": "Trace_FilterSync",
        "mc": [MC_FILTERSYNC],
        "drivers": [fsync("scripts", 50, 300, 6, 10), fsync("sync", 10, 60, 1, 4), freplay(100, 1000, 2, 6)],
        "assumptions": FS_ASSUMPTIONS,
    },
    "C06": {
        "trace_module": "Trace_FilterSync",
        "mc": [MC_FILTERSYNC],
        "drivers": [fsync("advsub", 25, 200, 3, 8), fsync("adv", 15, 120, 2, 6)],
        "assumptions": FS_ASSUMPTIONS + ["filter hashes are identified with block ids (SimChain gives every block a unique filter); tampered bytes are id 0"],
    },
    "C02": {
        "trace_module": "Trace_FilterSync",
        "mc": [MC_FILTERSYNC],
        "drivers": [fsync("adv", 30, 250, 4, 10), fsync("fetch", 10, 80, 1, 4),
                    # substituted block hashes (also announced as the peer's last state first): nothing unproved may be indexed
                    fsync("advsub", 15, 120, 2, 6)],
        "assumptions": FS_ASSUMPTIONS,
    },
    "C08": {
        "trace_module": "Trace_FilterSync",
        "mc": [MC_FILTERSYNC, MC_WRITES, MC_WRITES_SPLIT],
        "drivers": [wsync("sync", 8, 60, 1, 4), wsync("scripts", 8, 60, 1, 4), wsync("fork", 8, 60, 1, 4),
                    # the same histories without the write-level observation (cheaper: more of them)
                    fsync("sync", 25, 150, 2, 4), fsync("fork", 20, 100, 1, 4),
                    {"name": "filtersync-crash", "driver": "filtersync", "args": ["mode=crash"], "trace_module": "Trace_FilterSync",
                     "n": {"quick": 1, "thorough": 6}, "procs": {"quick": 6, "thorough": 12},
                     "tier_args": {"quick": ["maxk=70"], "thorough": ["maxk=100000"]}},
                    # the same histories when the user does not repeat an interrupted set_scripts
                    {"name": "filtersync-crash-noretry", "driver": "filtersync", "args": ["mode=crash", "retry=0"], "trace_module": "Trace_FilterSync",
                     "n": {"quick": 1, "thorough": 4}, "procs": {"quick": 3, "thorough": 8},
                     "tier_args": {"quick": ["maxk=70"], "thorough": ["maxk=100000"]}}],
        "assumptions": FS_ASSUMPTIONS + [
            "a crash is process death right before a storage write (hook in storage.rs); every individual put / delete / batch commit is assumed atomic and durable in call order (RocksDB WAL); torn files are out of scope",
            "after the crash every in-memory object is dropped and the store is reopened exactly as subcmds.rs does",
        ],
    },
    "C16": {
        "trace_module": "Trace_FilterSync",
        "mc": [MC_FILTERSYNC, MC_FETCH, MC_FETCH_PREFIX],
        "drivers": [fsync("fetch", 30, 250, 3, 8), fsync("fork", 15, 100, 2, 4), fsync("forkrand", 25, 150, 2, 4), fetchreplay(120, 1500, 2, 6)],
        "assumptions": FS_ASSUMPTIONS,
    },
    "C13": {
        "trace_module": "Trace_Query",
        "mc": [],
        "drivers": [{"name": "query", "driver": "query", "args": [], "trace_module": "Trace_Query",
                     "n": {"quick": 12, "thorough": 120}, "procs": {"quick": 6, "thorough": 14},
                     "tier_args": {"quick": ["queries=50"], "thorough": ["queries=120", "maxlen=24"]}}],
        "assumptions": FS_ASSUMPTIONS + [
            "the index queried is the one an honest sync of a generated transaction graph produced (scripts sharing code hash and args prefixes incl. zero-byte extensions, typed and untyped cells, several cells per block); C03 judges that index itself",
            "range ends are as implemented: script_len_range is inclusive at both ends, the other ranges are [from, to)",
            "the index does not change between the pages of one query (C17 covers concurrent writers)",
        ],
    },
    "C17": {
        "trace_module": "Trace_FilterSync",
        "mc": [MC_FILTERSYNC, MC_CONC, MC_CONC_PREFIX],
        "drivers": [{"name": "concurrent", "driver": "concurrent", "args": [], "trace_module": "Trace_FilterSync",
                     "n": {"quick": 12, "thorough": 60}, "procs": {"quick": 6, "thorough": 14},
                     "tier_args": {"quick": ["pairs=4", "maxk=4"], "thorough": ["pairs=6", "maxk=12"]}, "timeout": 3000},
                    # one peer, no randomness: the fork switch suspended before each of its writes, and a batch of the
                    # abandoned branch that fits the state it has left so far
                    {"name": "concurrent-race", "driver": "concurrent", "args": ["race=1", "pairs=1", "maxk=12"], "trace_module": "Trace_FilterSync",
                     "n": {"quick": 6, "thorough": 40}, "procs": {"quick": 2, "thorough": 6}, "timeout": 3000},
                    # lock held at every write of the operations' critical sections (hook observation, Trace_Writes)
                    wsync("fork", 8, 40, 1, 3), wsync("scripts", 6, 40, 1, 3)],
        "assumptions": FS_ASSUMPTIONS + [
            "the operations are set_scripts (RPC), a BlockFilters batch, the arrival of a matched block, a last-state proof that switches to a heavier fork, and get_cells_capacity as the reader; each runs on its own OS thread against the same store and Peers object, as the handlers of the real node do",
            "the first operation is suspended by the storage hook right before its k-th write (the reader: at its read points after the snapshot is taken), the second is started then; if it does not finish within 300 ms it is taken to be blocked and the first is released",
            "an experiment whose three runs (serial A;B, serial B;A, concurrent) do not start from the same projected state (the client iterates hash maps in random order) is discarded",
            "compared: script set and numbers, filter progress, matched-block records and map, index contents, stored tip and last-N, final check points, the peers' proved headers",
            "MC_Conc explores every interleaving of the write chains of one fork switch and one BlockFilters batch (any start number, 1-2 filters of the abandoned branch) with the lock, followed by honest traffic of the new branch; more than two concurrent handler calls are not modelled (each protocol handles its messages one at a time)",
        ],
    },
    "C18": {
        "trace_module": "Trace_TxPool",
        "mc": [{"module": "MC_TxPool", "cfg": "MC_TxPool.cfg", "timeout": {"quick": 300, "thorough": 600}, "workers": 4}],
        "drivers": [{"name": "txpool", "driver": "txpool", "args": [], "trace_module": "Trace_TxPool",
                     "n": {"quick": 25, "thorough": 250}, "procs": {"quick": 6, "thorough": 14},
                     "tier_args": {"quick": ["steps=120"], "thorough": ["steps=250"]}}],
        "assumptions": COMMON_ASSUMPTIONS + [
            "valid transactions spend always_success-locked cells of a generated chain that the client indexed (plus outputs of pending transactions) with the genesis always_success cell as code dep; the script really runs in the CKB VM",
            "every known cell counts as live (Storage::cell documents 'assume all cells are live'): double spends of indexed cells are outside the property",
            "mutants break exactly one rule by construction (capacity, duplicated / unknown / out-of-range input, unknown dep, immature since, lock code not present, no outputs)",
            "'at most once' is per membership of the pool: a transaction evicted and submitted again later is announced again",
            "the relay tick is not run while no peer has the relay protocol open (then it only asks the network service to open it); 60 s inactivity windows (Instant) are not exercised",
        ],
    },
    "C14": {
        "trace_module": "Trace_Difficulty",
        "mc": [{"module": "MC_Difficulty", "cfg": {"quick": "MC_Difficulty_quick.cfg", "thorough": "MC_Difficulty.cfg"},
                "timeout": {"quick": 600, "thorough": 3000}, "workers": 8}],
        "drivers": [{"name": "difficulty", "driver": "difficulty", "args": [], "trace_module": "Trace_Difficulty",
                     "n": {"quick": 12000, "thorough": 150000}, "procs": {"quick": 4, "thorough": 12}},
                    dict(peersync("honest", 30, 200, 1, 4), trace_module="Trace_PeerSync")],
        "assumptions": COMMON_ASSUMPTIONS + [
            "block difficulties on the grid are the small integers that survive difficulty_to_compact / compact_to_difficulty unchanged (1..40)",
            "'reject totals outside the envelope' is read as the property lists it: decrease, mismatch within one epoch or across exactly one switch, epoch difficulty moving faster than tau per epoch, total above pure growth / below pure shrinkage at tau per epoch from the start (Difficulty!MustReject); between that and the tight envelope the verdict is only required to equal the transcription",
            "256-bit-scale histories are judged by construction class (legal with every switch within [0.8, 1.25]: must be accepted; arbitrary numbers: must not abort), TLC integers being 32-bit",
        ],
    },
    "C15": {
        "trace_module": "Trace_PeerSync",
        "mc": [MC_PEERSYNC],
        "drivers": [
            {"name": "sampling", "driver": "sampling", "args": [], "trace_module": "Trace_Sampling",
             "n": {"quick": 30, "thorough": 400}, "procs": {"quick": 2, "thorough": 8}},
            peersync("honest", 60, 300, 2, 6),
        ],
        "assumptions": COMMON_ASSUMPTIONS + [
            "256-bit difficulties are judged through their ranks (exact for a predicate that uses only <, <=, =)",
            "required sample counts come from spec/SamplingTable.tla (exact arithmetic, rounded down, 5%+1 tolerance for collisions of the sampler's 1e-9 quantisation); the FlyClient density of the samples is not judged",
        ],
    },
    "C01": {
        "trace_module": "Trace_PeerSync",
        "mc": [MC_PEERSYNC],
        "drivers": [peersync("mut", 60, 500, 3, 10, ["maxmut=60"]), peersync("adv", 50, 350, 3, 3), peersync("honest", 30, 150, 1, 3), replay(200, 2000, 2, 6)],
        "assumptions": COMMON_ASSUMPTIONS + [
            "mutations are constructed to be definitely incorrect answers (DESIGN.md 4 C01); the violated attribute is set by construction",
            "'byte-for-byte unchanged' is checked on the projected trusted state (peer prove states, LAST_STATE, LAST_N_HEADERS) read back from the real objects/RocksDB",
        ],
    },
    "C05": {
        "trace_module": "Trace_PeerSync",
        "mc": [MC_PEERSYNC, MC_PEERSYNC_LIVE, MC_PEERSYNC_LIVE_STRICT],
        "drivers": [peersync("honest", 60, 400)],
        "assumptions": COMMON_ASSUMPTIONS + [
            "honest peers follow DESIGN.md appendix A (RFC 44 server algorithm, cross-checked against the repository's test fixtures)",
            "forks are shallower than last-N for every pair of branches (the property's own restriction)",
        ],
    },
    "C11": {
        "trace_module": "Trace_PeerSync",
        "mc": [MC_PEERSYNC],
        "drivers": [peersync("honest", 40, 300, 3, 8), peersync("tip", 60, 400, 1, 4), replay(300, 3000, 3, 8)],
        "assumptions": COMMON_ASSUMPTIONS,
    },
    "C12": {
        "trace_module": "Trace_PeerSync",
        "mc": [MC_PEERSYNC, MC_PEERSYNC_SHORT],
        "drivers": [peersync("tip", 120, 800, 2, 8), peersync("tipeq", 60, 400, 1, 4), peersync("honest", 30, 200, 2, 4), peersync("adv", 50, 350, 3, 3), replay(200, 2000, 2, 6)],
        "assumptions": COMMON_ASSUMPTIONS,
    },
}
