SPECIFICATION RSpec
CONSTANTS
  MCPeers = {"p1", "p2"}
  MCLastN = 2
  MaxNow = 100
  AnnounceSet = {5, 7, 9, 10, 11, 12}
  ServerTips = {7, 9, 12}
  HonestOnly = FALSE
  BoundaryChoices = {0}
  Depth = 40
INVARIANT Emit
CHECK_DEADLOCK FALSE
