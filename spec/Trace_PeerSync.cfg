SPECIFICATION TraceSpec
INVARIANT TraceInv
PROPERTY TraceProps
POSTCONDITION TraceAccepted
CHECK_DEADLOCK FALSE
