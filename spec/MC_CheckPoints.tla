--------------------------- MODULE MC_CheckPoints ---------------------------
(***************************************************************************)
(* Bounded model of the check point machinery (C07): peers connect, get    *)
(* proven, report check point vectors in messages of every shape (honest   *)
(* peers the true value 1, liars anything), the refresh tick finalizes by  *)
(* quorum, banned peers are disconnected, the process restarts.  The       *)
(* transitions are the operators of module CheckPoints, which the trace    *)
(* specification validates against the real code.                          *)
(***************************************************************************)
EXTENDS CheckPoints, TLC

CONSTANTS Peers, Liars, MaxOut, I, MaxIdx, MaxMsg

R == (MaxOut + 1) \div 2
Proved == (MaxIdx + 2) * I            \* the proven tip number of every proven peer
NoCps == <<0, <<>> >>

VARIABLES final, cps, conn, proven, startCp, lastData
vars == <<final, cps, conn, proven, startCp, lastData>>

Init ==
    /\ final = <<1>> /\ cps = [p \in Peers |-> NoCps]
    /\ conn = {} /\ proven = {} /\ startCp = 0
    /\ lastData = <<>>

Connect(p) ==
    /\ p \notin conn
    /\ conn' = conn \cup {p}
    /\ cps' = [cps EXCEPT ![p] = <<startCp, <<final[startCp + 1]>> >>]
    /\ UNCHANGED <<final, proven, startCp, lastData>>

Drop(ps) ==
    /\ conn' = conn \ ps /\ proven' = proven \ ps
    /\ cps' = [p \in Peers |-> IF p \in ps THEN NoCps ELSE cps[p]]

Disconnect(p) == p \in conn /\ Drop({p}) /\ UNCHANGED <<final, startCp, lastData>>

Prove(p) == p \in conn \ proven /\ proven' = proven \cup {p} /\ UNCHANGED <<final, cps, conn, startCp, lastData>>
\* a peer whose state machine is reset by an error keeps its session and its vector
Unprove(p) == p \in proven /\ proven' = proven \ {p} /\ UNCHANGED <<final, cps, conn, startCp, lastData>>

Values == {1, 2}
Msgs(p) ==
    LET next == NumberOfLast(cps[p], I)
        room == MaxIdx - (CpStart(cps[p]) + Len(CpVals(cps[p])) - 1)
    IN IF p \in Liars
       THEN {<<s, v>> : s \in {next, next + 1, next + I, next - I} \cap Nat,
                        v \in UNION {[1..n -> Values] : n \in 0..IF room + 1 < MaxMsg THEN room + 1 ELSE MaxMsg}}
       ELSE {<<next, [k \in 1..n |-> 1]>> : n \in 0..IF room + 1 < MaxMsg THEN room + 1 ELSE MaxMsg}

Report(p) ==
    /\ p \in conn
    /\ \E m \in Msgs(p) :
        IF p \notin proven THEN UNCHANGED vars      \* ignored
        ELSE LET r == AddCheckPoints(cps[p], I, Proved, m[1], m[2]) IN
             IF r.ok THEN cps' = [cps EXCEPT ![p] = r.cps] /\ UNCHANGED <<final, conn, proven, startCp, lastData>>
             ELSE Drop({p}) /\ UNCHANGED <<final, startCp, lastData>>    \* banned

Refresh ==
    LET data == [p \in proven |-> cps[p]] IN
    \E fin \in FinalizeSet(final, data, R) :
        /\ final' = fin.final
        /\ lastData' = data
        /\ conn' = conn \ fin.ban /\ proven' = proven \ fin.ban
        /\ cps' = [p \in Peers |-> IF p \in fin.ban THEN NoCps
                                   ELSE IF p \in DOMAIN fin.trim THEN TrimCps(cps[p], fin.trim[p]) ELSE cps[p]]
        /\ UNCHANGED startCp

Restart ==
    /\ Drop(Peers) /\ startCp' = Len(final) - 1 /\ UNCHANGED <<final, lastData>>

Next ==
    \/ \E p \in Peers : Connect(p) \/ Disconnect(p) \/ Prove(p) \/ Unprove(p) \/ Report(p)
    \/ Refresh
    \/ Restart

Spec == Init /\ [][Next]_vars

(***************************************************************************)
(* Properties                                                              *)
(***************************************************************************)
TypeOK ==
    /\ Len(final) >= 1 /\ Len(final) <= MaxIdx + 1
    /\ proven \subseteq conn
    /\ \A p \in conn : Len(CpVals(cps[p])) >= 1 /\ CpStart(cps[p]) + Len(CpVals(cps[p])) - 1 <= MaxIdx
    /\ startCp < Len(final)

\* once final never rewritten, index never decreases
AppendOnly == [][IsPrefix(final, final')]_vars
\* what becomes final has a quorum among the proven peers' vectors
Quorum == [][final' # final => QuorumOk(final, final', lastData', R)]_vars
\* fewer liars than the quorum: no wrong value is ever final ...
WrongNeverFinal == (Cardinality(Liars) < R) => \A k \in 1..Len(final) : final[k] = 1
\* ... and they cannot block the honest peers: a refresh finalizes everything a quorum of honest proven
\* peers (whose vectors reach back to the last final index) has delivered
Covered(c) == CpStart(c) + Len(CpVals(c)) - 1
NotBlocked ==
    [][(lastData' # lastData \/ final' # final) =>
        LET hp == {p \in (DOMAIN lastData') \ Liars :
                      CpStart(lastData'[p]) <= Len(final) - 1 /\ Covered(lastData'[p]) >= Len(final) - 1}
        IN (Cardinality(Liars) < R /\ Cardinality(hp) >= R) =>
              \E p \in hp : Len(final') - 1 >= Covered(lastData'[p])]_vars
\* a peer contradicting a final value is banned by the next refresh that looks at the vectors at all, that
\* is, one with at least R proven peers (with fewer, finalize_check_points returns before its clean step;
\* the vectors are used for nothing else, so the contradiction has no effect until then)
ContradictorsBanned ==
    [][((lastData' # lastData \/ final' # final) /\ Cardinality(DOMAIN lastData') >= R) =>
        \A p \in DOMAIN lastData' :
            LET c == lastData'[p] off == Len(final) - 1 - CpStart(c) IN
            (off >= 0 /\ off < Len(CpVals(c)) /\ CpVals(c)[off + 1] # final[Len(final)]) => p \notin conn']_vars
=============================================================================
