------------------------------ MODULE Hostile ------------------------------
(***************************************************************************)
(* C10: what a peer can do to the process by sending bytes.                *)
(*                                                                         *)
(* Every delivery of a byte string on one of the four protocols, and every *)
(* timer tick, is one atomic step of the client that RETURNS: the handler  *)
(* accepts, ignores, bans or disconnects.  The process has exactly one     *)
(* deliberate abort: a valid proof from genesis that confirms a fork       *)
(* deeper than last-N, i.e. a SendLastStateProof for a request that        *)
(* carries the long-fork flag.  Whatever the bytes, the total difficulty   *)
(* of the stored tip never decreases.                                      *)
(***************************************************************************)
EXTENDS World

VARIABLES
    world, peers,
    pow,        \* "eaglesong": headers need real work; "dummy": every header passes the PoW check
    alive,      \* the process runs
    tip, tipTD, \* stored LAST_STATE
    pst         \* peer -> [st: PeerState name, fork: its request carries the long-fork flag]

hvars == <<world, peers, pow, alive, tip, tipTD, pst>>

Outcomes == {"accept", "ignore", "ban", "disconnect"}

\* the trusted tip under arbitrary input
TipSafe ==
    \* (a peer can always extend the proven tip by a block of its own -- for free under the Dummy engine, by
    \* mining it otherwise -- so the tip need not be one of the world's blocks; C12 judges its truthfulness)
    /\ tipTD' >= tipTD
    /\ tip' # tip => tipTD' > tipTD

\* a handler run that returns
Returns == alive /\ alive' = TRUE /\ TipSafe /\ UNCHANGED <<world, peers, pow>>

Deliver(proto, p, outcome) == outcome \in Outcomes /\ Returns
Tick(proto, token) == Returns
\* environment steps of the honest phase (connects, honest answers, RPC): specified by PeerSync / FilterSync
Env == Returns

\* the documented abort
LongForkAbort(p) ==
    /\ alive /\ p \in DOMAIN pst /\ pst[p].fork
    /\ alive' = FALSE
    /\ UNCHANGED <<world, peers, pow, tip, tipTD, pst>>

TypeOK == alive \in BOOLEAN /\ pow \in {"dummy", "eaglesong"}
=============================================================================
