--------------------------- MODULE MC_FilterSync ---------------------------
(***************************************************************************)
(* Bounded model of the filter pipeline (FilterSync.tla + Index.tla): one  *)
(* proven honest peer on a small chain with a transaction graph (a cell    *)
(* created, spent, a second script), every interleaving of                 *)
(*   set_scripts (all / partial / delete, empty lists, later and earlier   *)
(*   start numbers), honest BlockFilters batches of 1..3 blocks, blocks    *)
(*   proofs, block arrivals in any order, filter ticks and restarts.       *)
(* Checked in every reachable state: NoForgedData, CellsSound,             *)
(* HistOnCanon, MatchedAtRightHeight, ScriptsNumberHonest; at quiescence   *)
(* Complete (the index equals the chain for every registered script).      *)
(* The actions are the ones the trace specification validates against the  *)
(* real client; where an action is declarative over the next matched-block *)
(* record (Golomb filters may match more than necessary) the model takes   *)
(* the exact matches.                                                      *)
(***************************************************************************)
EXTENDS FilterSync

CONSTANTS MaxSetScripts, AllowKF

VARIABLE ssCount
mcVars == <<allVars, ssCount>>

Blk(par, n) == [parent |-> par, num |-> n, diff |-> 2, td |-> 2 * (n + 1), ttd |-> 2 * (n + 1),
                ep |-> <<0, n, 100>>, pow |-> TRUE, root |-> TRUE]
\* heights 0..6 = blocks 1..7; script 1 = key 2, script 2 = key 4
MCWorld ==
    [blocks |-> <<Blk(0, 0), Blk(1, 1), Blk(2, 2), Blk(3, 3), Blk(4, 4), Blk(5, 5), Blk(6, 6)>>,
     txs |-> << [b |-> 3, i |-> 0, ins |-> <<>>, outs |-> << <<1, 0, 100, 0>>, <<2, 0, 100, 0>> >>],
                [b |-> 4, i |-> 0, ins |-> << <<1, 0>> >>, outs |-> << <<2, 0, 90, 0>> >>],
                [b |-> 6, i |-> 0, ins |-> << <<1, 1>> >>, outs |-> << <<1, 0, 90, 0>> >>] >>,
     btx |-> << <<>>, <<>>, <<1>>, <<2>>, <<>>, <<3>>, <<>> >>]

P == "p1"
ReadyPeer == [st |-> "Ready", last |-> 7, lastTs |-> 0, proved |-> 7,
              pLastN |-> <<4, 5, 6>>, pReorg |-> <<>>, req |-> NoReq, when |-> 0]
NoBpr == [on |-> FALSE, last |-> 0, hs |-> <<>>, when |-> 0, get |-> FALSE]
PfInit == [cps |-> <<0, <<1>> >>, latest |-> <<0, <<2, 3, 4, 5, 6, 7>> >>, bpr |-> NoBpr,
           br |-> [on |-> FALSE, hs |-> <<>>, when |-> 0], tpr |-> [on |-> FALSE, last |-> 0, hs |-> <<>>, when |-> 0]]

MCInit ==
    /\ TLCSet(43, 0) /\ TLCSet(44, 0) /\ TLCSet(45, 0)
    /\ world = MCWorld
    /\ cfg = [peers |-> {P}, lastN |-> 3, allow |-> AllowKF, interval |-> 100, maxOut |-> 1, liars |-> {}, msgTimeout |-> 2, refreshLag |-> 0]
    /\ now = 0 /\ peer = [p \in {P} |-> ReadyPeer]
    /\ tip = 7 /\ tipTD = 14 /\ lastN = << <<3, 4>>, <<4, 5>>, <<5, 6>> >>
    /\ out = NoOut
    /\ scripts = {} /\ startOf = <<>> /\ minF = 0 /\ mdb = <<>> /\ mmem = {}
    /\ cells = {} /\ hist = {} /\ txs = {} /\ hdrs = {1} /\ nums = {<<0, 1>>}
    /\ cpFinal = <<1>> /\ cached = <<0, <<>> >> /\ pf = [p \in {P} |-> PfInit]
    /\ fetchH = {} /\ fetchT = {} /\ over = {} /\ subst = {}
    /\ ssCount = 0

Lists == { <<>>, << <<2, 0>> >>, << <<2, 3>> >>, << <<4, 0>> >>, << <<2, 0>>, <<4, 0>> >>, << <<4, 4>> >>, << <<2, 5>>, <<4, 1>> >> }

MCSetScripts ==
    /\ ssCount < MaxSetScripts /\ ssCount' = ssCount + 1
    /\ out' = NoOut
    /\ \E cmd \in {"all", "partial", "delete"}, list \in Lists : SetScripts(cmd, list)

\* the honest batch of n filters from minF + 1, with exactly the blocks that touch an active script matched
Batch(n) == [start |-> minF + 1,
             fs |-> [i \in 1..n |-> minF + 1 + i],        \* block id = height + 1
             hs |-> [i \in 1..n |-> minF + 1 + i]]
MustOf(m) ==
    LET active == Unkey({k \in Keys : NumOf(k) < m.start + Len(m.fs)}) IN
    {i \in 1..Len(m.fs) : Unkey(TouchKeys(m.fs[i])) \cap active # {}}
RECURSIVE SeqOfSet(_)
SeqOfSet(S) == IF S = {} THEN <<>> ELSE LET x == CHOOSE y \in S : \A z \in S : y <= z IN <<x>> \o SeqOfSet(S \ {x})
MCRecvFilters ==
    /\ scripts # {}
    /\ \E n \in 1..3 :
        /\ minF + n <= 6
        /\ LET m == Batch(n)
               must == MustOf(m)
               blocks == SeqOfSet({m.hs[i] : i \in must})
               rec == <<m.start, n, [j \in 1..Len(blocks) |-> <<blocks[j], blocks[j] = 7>>]>>
           IN /\ out' = NoOut
              /\ mdb' = IF must = {} THEN mdb ELSE Append(mdb, rec)
              /\ RecvFilters(P, m)
    /\ UNCHANGED <<ssCount, cached, pf, fetchH, fetchT>>

MCBlocksProof ==
    /\ mmem # {} /\ \E e \in mmem : ~e[2]
    /\ out' = NoOut
    /\ RecvBlocksProofMatched(P, [ok |-> TRUE, get |-> TRUE, found |-> {e[1] : e \in mmem}])
    /\ UNCHANGED <<peer, pf, fetchH, fetchT, over, subst, ssCount>> /\ IxUnchanged

MCRecvBlock ==
    /\ \E e \in mmem : e[2] /\ ~e[3] /\ (out' = NoOut /\ RecvBlock(P, e[1], "true"))
    /\ UNCHANGED <<pf, fetchH, fetchT, ssCount>>

MCTick == out' = NoOut /\ FilterTick0 /\ UNCHANGED <<cached, pf, ssCount>>

\* process restart: the in-memory map is gone (the peer is proven again before anything else happens)
MCRestart ==
    /\ mmem # {} /\ mmem' = {} /\ out' = NoOut
    /\ UNCHANGED <<world, cfg, now, peer, tip, tipTD, lastN>>
    /\ UNCHANGED <<scripts, startOf, minF, mdb, cells, hist, txs, hdrs, nums, cpFinal, cached, pf, fetchH, fetchT, over, subst, ssCount>>

MCNext == MCSetScripts \/ MCRecvFilters \/ MCBlocksProof \/ MCRecvBlock \/ MCTick \/ MCRestart
MCSpec == MCInit /\ [][MCNext]_mcVars

MCInv ==
    /\ NoForgedData /\ CellsSound /\ HistOnCanon /\ MatchedAtRightHeight /\ FiltersOfOwnChain /\ ScriptsNumberHonest
    /\ Quiet => Complete
=============================================================================
