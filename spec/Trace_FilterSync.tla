-------------------------- MODULE Trace_FilterSync --------------------------
(***************************************************************************)
(* Trace validation of the real client against PeerSync + FilterSync.      *)
(* Every logged step must be a step of the specification on the variables  *)
(* the properties talk about; volatile request bookkeeping (`pf`,          *)
(* `cached`) is loaded from the log and used as input of the next step.    *)
(***************************************************************************)
EXTENDS FilterSync, Json, IOUtils

Rec == ndJsonDeserialize(IOEnv.TRACE)
VARIABLE l
\* C17: the experiment under way -- the state its runs start from and the outcomes of its serial runs
VARIABLES expPre, expOut

ToSet(s) == {s[i] : i \in DOMAIN s}
AllowIds == IF "ALLOW" \in DOMAIN IOEnv THEN IOEnv.ALLOW ELSE ""
KnownIds == {"KF-C05-stale-longfork", "KF-C05-notlonger", "KF-C09-rollback-number", "KF-C16-txheight", "KF-C06-blockhash", "KF-C03-stale-before-start", "KF-C04-spanning-record", "KF-C06-foreign-branch", "KF-C14-envelope"}
Allow == {id \in KnownIds : \E i \in 1..(Len(AllowIds) - Len(id) + 1) : SubSeq(AllowIds, i, i + Len(id) - 1) = id}
Prop == IF "PROP" \in DOMAIN IOEnv THEN IOEnv.PROP ELSE "C03"

CfgOf(r) == [peers |-> ToSet(r.cfg.peers), lastN |-> r.cfg.lastN, allow |-> Allow, msgTimeout |-> 60, refreshLag |-> 8,
             interval |-> r.cfg.interval, maxOut |-> r.cfg.maxOut,
             \* peers that report invented check points (drivers for C07)
             liars |-> IF "liars" \in DOMAIN r.x THEN ToSet(r.x.liars) ELSE {}]

LcKinds == {"GetLastState", "GetLastStateProof"}
OutOf(r) == [ban |-> ToSet(r.out.ban), drop |-> ToSet(r.out.drop),
             sent |-> {m \in ToSet(r.out.sent) : m.kind \in LcKinds}]

CpReqOf(r) == {<<m.to, m.start>> : m \in {x \in ToSet(r.out.sent) : x.kind = "GetBlockFilterCheckPoints"}}
ReqOf(r, kind) == {<<m.to, m.start>> : m \in {x \in ToSet(r.out.sent) : x.kind = kind}}
MmemOf(st) == {<<e[1], e[2], e[3]>> : e \in ToSet(st.mmem)}

LoadPs(r) ==
    /\ now' = r.st.now /\ peer' = r.st.peer
    /\ tip' = r.st.tip /\ tipTD' = r.st.tipTD /\ lastN' = r.st.lastN
    /\ out' = OutOf(r)

LoadFs(r) ==
    /\ scripts' = ToSet(r.st.scripts) /\ minF' = r.st.minF /\ mdb' = r.st.mdb
    /\ mmem' = MmemOf(r.st)
    /\ cells' = ToSet(r.st.cells) /\ hist' = ToSet(r.st.hist) /\ txs' = ToSet(r.st.txs)
    /\ hdrs' = ToSet(r.st.hdrs) /\ nums' = ToSet(r.st.nums)
    /\ cpFinal' = r.st.cpFinal /\ cached' = r.st.cached /\ pf' = r.st.pf
    /\ fetchH' = ToSet(r.st.fetchH) /\ fetchT' = ToSet(r.st.fetchT)

Oracle(r) ==
    [mode |-> "log", k |-> 0,
     req  |-> [p \in PeerNames |-> r.st.peer[p].req],
     copy |-> [p \in PeerNames |->
                LET cands == {q \in PeerNames : /\ HasProof(peer[q])
                                                /\ peer[q].proved = r.st.peer[p].proved
                                                /\ peer[q].pLastN = r.st.peer[p].pLastN
                                                /\ peer[q].pReorg = r.st.peer[p].pReorg}
                IN IF cands = {} THEN "nobody" ELSE CHOOSE q \in cands : TRUE]]

MsgOf(a) ==
    [last |-> a.last, lastOk |-> a.lastOk, empty |-> a.empty,
     nums |-> a.reorg \o a.samples \o a.lastn, chain |-> a.chain,
     match |-> a.attrs.match, root |-> a.attrs.root, pow |-> a.attrs.pow,
     cont |-> a.attrs.cont, mmem |-> 0, mmr |-> a.attrs.mmr, tau |-> a.attrs.tau, td |-> a.attrs.td]

\* persistent pipeline state and the lock-protected map stay as they are
PipeUnchanged == UNCHANGED <<scripts, startOf, minF, mdb, mmem, cpFinal, fetchH, fetchT, over, subst>> /\ IxUnchanged
PipeUnchangedNoFetch == UNCHANGED <<scripts, startOf, minF, mdb, mmem, cpFinal, over, subst>> /\ IxUnchanged
PersistentUnchanged == UNCHANGED <<scripts, startOf, minF, mdb, cpFinal, over, subst>> /\ IxUnchanged

IsPrefixSeq(a, b) == Len(a) <= Len(b) /\ SubSeq(b, 1, Len(a)) = a

\* honest SendBlocksProof for the request the peer holds
BlocksProofEv(a) ==
    LET bpr == pf[a.p].bpr IN
    /\ UNCHANGED <<over, subst>>
    /\ UNCHANGED <<world, cfg, now, tip, tipTD, lastN>>
    /\ UNCHANGED <<scripts, startOf, minF, mdb, cpFinal>>
    /\ IF ~bpr.on
       THEN /\ out'.ban = {a.p} /\ UNCHANGED <<peer, mmem, fetchH, fetchT>> /\ IxUnchanged
       ELSE IF a.kind # "honest"
       THEN \* a mutated (definitely incorrect) answer: ban, nothing stored; the requested hashes are
            \* marked for another try (the request itself is cleared)
            /\ out'.ban = {a.p} /\ UNCHANGED <<peer, mmem, fetchT>> /\ IxUnchanged
            /\ fetchH' = MarkTimeout(fetchH, ToSet(bpr.hs))
       ELSE IF a.onChain
       THEN /\ out'.ban = {}
            /\ UNCHANGED peer
            /\ LET found == {h \in ToSet(bpr.hs) : h >= 1 /\ IsAnc(world, h, bpr.last) /\ Num(world, h) < Num(world, bpr.last)}
               IN /\ mmem' = IF bpr.get THEN {<<e[1], e[2] \/ e[1] \in found, e[3]>> : e \in mmem} ELSE mmem
                  /\ HeaderFetchEffects(found, ToSet(bpr.hs) \ found)
       ELSE \* the server does not know the requested last header: its tip state, nothing else
            /\ out'.ban = {} /\ UNCHANGED mmem /\ IxUnchanged
            /\ peer' = [peer EXCEPT ![a.p] = ReceiveLastState(peer[a.p], a.tip, now).s]
            /\ fetchH' = MarkTimeout(fetchH, ToSet(bpr.hs)) /\ UNCHANGED fetchT

TxsProofEv(a) ==
    /\ UNCHANGED <<over, subst>>
    /\ UNCHANGED <<world, cfg, now, tip, tipTD, lastN>>
    /\ UNCHANGED <<scripts, startOf, minF, mdb, mmem, cpFinal>>
    /\ IF a.kind = "honest" \/ ~pf[a.p].tpr.on
       THEN TxsProofEffects(a.p, a.onChain, a.tip)
       ELSE /\ out'.ban = {a.p} /\ UNCHANGED <<peer, fetchH>> /\ IxUnchanged
            /\ fetchT' = MarkTimeout(fetchT, ToSet(pf[a.p].tpr.hs))

\* the answer names a block that does not contain the transaction: only the known finding explains it
WrongBlockNote(a) ==
    (a.status = "committed" /\ a.blk # TxOf(world, a.t).b) =>
        /\ "KF-C16-txheight" \in cfg.allow
        /\ a.blk >= 1 /\ Num(world, a.blk) = Num(world, TxOf(world, a.t).b)
        /\ PrintT(<<"KNOWN-FINDING", "KF-C16-txheight", a.t, a.blk>>)

\* C07, consequence 1: with fewer lying peers than the quorum, only true values become final
CpTrue == (Cardinality(cfg.liars) < Required) =>
             \A k \in 0..(Len(cpFinal') - 1) :
                \E b \in BlockIds(world) : Num(world, b) = k * Interval /\ cpFinal'[k + 1] = b
\* C07, consequence 2: they cannot block the agreement of the rest either -- once every request of the honest
\* peers (all proven at the leaf) is answered, the final check point is the last one those peers can deliver
\* ("the rest": the honest peers proven at the leaf; everybody else that takes part in the agreement -- liars, but
\*  also an honest peer that is proven at a lower header and therefore has a shorter vector -- counts against the
\*  bound: finalize_check_points tolerates up to Required - 1 vectors that are shorter than the agreed prefix)
CpNotBlocked(honest, leaf) ==
    LET hp == {p \in honest : HasProof(peer[p]) /\ peer[p].proved = leaf}
        others == {p \in PeerNames : HasProof(peer[p])} \ hp
    IN (Cardinality(cfg.liars) < Required /\ Cardinality(others) < Required /\ Cardinality(hp) >= Required) =>
        (Len(cpFinal) - 1) * Interval + 2 * Interval > Num(world, leaf)

\* the latest hashes stored for peer p / the cached hashes are the true ones of the chain ending in block t
LatestTrue(p, t) == \A i \in 1..Len(pf[p].latest[2]) : pf[p].latest[2][i] = AncAt(world, t, pf[p].latest[1] + i)
CachedTrue(t) == \A i \in 1..Len(cached[2]) : cached[2][i] = AncAt(world, t, cached[1] * Interval + i)
\* ... and so are the check points the answer is compared with (after a reorganisation across a check point they
\* are those of the abandoned branch: final check points are never revised)
CpsTrueFor(p, t) ==
    /\ \A i \in 1..Len(CpVals(pf[p].cps)) : CpVals(pf[p].cps)[i] = AncAt(world, t, (CpStart(pf[p].cps) + i - 1) * Interval)
    /\ \A i \in 1..Len(cpFinal) : cpFinal[i] = AncAt(world, t, (i - 1) * Interval)

\* Bounded liveness ("sync resumes", "after sync has caught up", "continued syncing converges"): the driver has
\* just run its convergence phase -- every peer honest, connected and at its leaf, more rounds of complete
\* traffic than there are blocks, no ban, no abort (a.must).  The rounds take no time: the world is finite, so
\* the peers cannot keep announcing new blocks, and with time passing a peer whose last state stays the same
\* is (rightly) disconnected and cannot be proven again by a client that already stores the final tip.
\* SyncResumes: if a quorum of peers is proven at the stored tip (so that filter hashes can be agreed on) and the
\*   final check points are those of its chain, nothing is pending and every block up to the tip is filtered.
\* TipFollows (a.mustTip: the scripted fork scenario, all peers move to a higher and heavier branch together):
\*   the stored tip is a heaviest announced one.
PipelineDone == mdb = <<>> /\ mmem = {} /\ (scripts = {} \/ minF = Num(world, tip))
CpFinalTrue == \A i \in 1..Len(cpFinal) : cpFinal[i] = AncAt(world, tip, (i - 1) * Interval)
ProvenAtTip == {p \in PeerNames : HasProof(peer[p]) /\ peer[p].proved = tip}
SyncResumes == (Cardinality(ProvenAtTip) >= Required /\ CpFinalTrue /\ ~Tainted) => PipelineDone
TipFollows(tips) == \A t \in tips : TrueTd(world, t) <= TrueTd(world, tip)

\* GET_IDLE_BLOCKS tick (prove_or_download_matched_blocks): afterwards no matched block is left without a request
\* while a peer that could serve it is idle -- so the blocks of a peer that has gone away (its requests are dropped
\* with it) or whose request timed out are asked of somebody else, and the pipeline cannot wait for ever.  Nothing is
\* asked twice, and a request holds at most the configured number of hashes.
ProofAsked == UNION {IF pf'[q].bpr.on THEN ToSet(pf'[q].bpr.hs) ELSE {} : q \in PeerNames}
BlocksAsked == UNION {IF pf'[q].br.on THEN {e[1] : e \in ToSet(pf'[q].br.hs)} ELSE {} : q \in PeerNames}
IdleAsksComplete ==
    LET best == {p \in PeerNames : HasProof(peer'[p]) /\
                    (peer'[p].proved = tip' \/ tip' \in Range(peer'[p].pLastN) \/ tip' \in Range(peer'[p].pReorg))}
    IN /\ (\E p \in best : ~pf'[p].bpr.on) => {e[1] : e \in {x \in mmem' : ~x[2]}} \subseteq ProofAsked
       /\ (\E p \in best : ~pf'[p].br.on) => {e[1] : e \in {x \in mmem' : x[2] /\ ~x[3]}} \subseteq BlocksAsked
       /\ \A p \in PeerNames, q \in PeerNames :
             (p # q /\ pf'[p].br.on /\ pf'[q].br.on) =>
                 {e[1] : e \in ToSet(pf'[p].br.hs)} \cap {e[1] : e \in ToSet(pf'[q].br.hs)} = {}
       /\ \A p \in PeerNames, q \in PeerNames :
             (p # q /\ pf'[p].bpr.on /\ pf'[q].bpr.on /\ pf'[p].bpr.get /\ pf'[q].bpr.get) =>
                 ToSet(pf'[p].bpr.hs) \cap ToSet(pf'[q].bpr.hs) = {}

\* C11: a disconnected peer leaves no request behind
NoRequestsOf(p) == ~pf'[p].bpr.on /\ ~pf'[p].br.on /\ ~pf'[p].tpr.on

QuiescentEv(a) ==
    /\ UNCHANGED psCore /\ PipeUnchanged
    /\ ((Quiet /\ ~Tainted) => Complete)
    /\ ("must" \in DOMAIN a /\ a.must) => SyncResumes
    /\ ("mustTip" \in DOMAIN a /\ a.mustTip) => TipFollows(ToSet(a.tips))

\* C16: the fetch tick sends exactly the requests it books (and books exactly what it sends)
FetchTickSends(r) ==
    LET bp == {m \in ToSet(r.out.sent) : m.kind = "GetBlocksProof"}
        tp == {m \in ToSet(r.out.sent) : m.kind = "GetTransactionsProof"}
    IN /\ \A m \in bp : pf'[m.to].bpr.on /\ ToSet(m.hashes) = Range(pf'[m.to].bpr.hs) /\ pf'[m.to].bpr # pf[m.to].bpr
       /\ \A m \in tp : pf'[m.to].tpr.on /\ ToSet(m.hashes) = Range(pf'[m.to].tpr.hs) /\ pf'[m.to].tpr # pf[m.to].tpr
       /\ \A q \in PeerNames : pf'[q].bpr # pf[q].bpr => \E m \in bp : m.to = q
       /\ \A q \in PeerNames : pf'[q].tpr # pf[q].tpr => \E m \in tp : m.to = q

Step(r) ==
    CASE r.ev = "Connect"    -> Connect(r.a.p) /\ PipeUnchangedNoFetch /\ TimeoutPeers({r.a.p})
      [] r.ev = "Disconnect" -> Disconnect(r.a.p) /\ PipeUnchangedNoFetch /\ TimeoutPeers({r.a.p}) /\ NoRequestsOf(r.a.p)
      [] r.ev = "Advance"    -> Advance(r.a.d) /\ PipeUnchanged
      [] r.ev = "Refresh"    -> /\ RefreshTick(Oracle(r), RequestTimeouts, out'.ban)
                                /\ FinalizeStep /\ CpQuorum
                                /\ TimeoutPeers({p \in PeerNames : peer[p].st # "None" /\ TimedOut(peer[p])} \cup RequestTimeouts)
                                /\ UNCHANGED <<scripts, startOf, minF, mdb, mmem, over, subst>> /\ IxUnchanged
                                /\ IsPrefixSeq(cpFinal, cpFinal')       \* C07: final check points are append-only
      [] r.ev = "LastState"  -> RecvLastState(r.a.p, [b |-> r.a.b, ok |-> r.a.ok], Oracle(r)) /\ PipeUnchanged
      [] r.ev = "Proof"      -> /\ RecvProof(r.a.p, MsgOf(r.a), Oracle(r))
                                \* an honest answer fails the total difficulty check only through the known gap
                                /\ (r.a.kind = "honest" /\ peer[r.a.p].st # "None" /\ HasReq(peer[r.a.p]) /\ MsgOf(r.a).last = peer[r.a.p].req.last
                                    /\ MsgOf(r.a).td = "world" /\ TdApplies(peer[r.a.p], MsgOf(r.a)) /\ ~TdOf(peer[r.a.p], MsgOf(r.a)))
                                      => /\ "KF-C14-envelope" \in cfg.allow /\ TdKnownGap(peer[r.a.p], MsgOf(r.a))
                                         /\ PrintT(<<"KNOWN-FINDING", "KF-C14-envelope", r.a.p, r.a.last>>)
                                \* a proof that moves the peer's proved header to another branch forgets the peer's latest
                                \* filter hashes (they belong to the abandoned branch)
                                /\ (/\ HasProof(peer[r.a.p]) /\ HasProof(peer'[r.a.p])
                                    /\ peer'[r.a.p].proved # peer[r.a.p].proved
                                    /\ ~IsAnc(world, peer[r.a.p].proved, peer'[r.a.p].proved))
                                      => pf'[r.a.p].latest[2] = <<>>
                                /\ UNCHANGED <<startOf, cpFinal>> /\ subst' = subst \cup SpanKept
                                /\ CommitEffects(r.st.peer[r.a.p].pReorg, r.st.peer[r.a.p].pLastN,
                                                 r.st.tip # tip \/ r.st.tipTD # tipTD)
                                /\ (over' # over => PrintT(<<"KNOWN-FINDING", "KF-C09-rollback-number", over'>>))
      [] r.ev = "Restart"    -> Restart /\ PersistentUnchanged /\ mmem' = {} /\ fetchH' = {} /\ fetchT' = {}
      [] r.ev = "SetScripts" -> SetScripts(r.a.cmd, r.a.list)
      [] r.ev = "FilterTick" -> /\ IF r.a.token = 0 THEN FilterTick0 ELSE UNCHANGED psCore /\ PipeUnchanged
                                \* what each tick asks for, and of whom
                                /\ r.a.token = 2 => CpReqOf(r) = CheckPointTickAsks
                                /\ r.a.token = 1 => /\ cached' = Recache(cached, minF)
                                                    /\ ReqOf(r, "GetBlockFilterHashes") \in HashesTickAsks
                                /\ r.a.token = 0 => /\ cached' = cached
                                                    /\ ReqOf(r, "GetBlockFilters") \in FiltersTickAsks(r.a.elapsed)
                                /\ r.a.token = 2 => cached' = cached
      [] r.ev = "IdleTick"   -> UNCHANGED psCore /\ PipeUnchanged /\ IdleAsksComplete
      [] r.ev = "NoAnswer"   -> UNCHANGED psCore /\ PipeUnchanged
      [] r.ev = "FetchTick"  -> FetchTick /\ FetchTickReqRel /\ FetchTickSends(r)
      [] r.ev = "FetchTx"    -> RpcFetchTx(r.a.t, r.a.status, r.a.blk) /\ WrongBlockNote(r.a)
      [] r.ev = "GetTx"      -> RpcGetTx(r.a.t, r.a.status, r.a.blk) /\ WrongBlockNote(r.a)
      [] r.ev = "FetchHeader" -> RpcFetchHeader(r.a.b, r.a.status)
      [] r.ev = "TxsProof"   -> TxsProofEv(r.a)
      [] r.ev = "CheckPoints" -> /\ UNCHANGED psCore /\ PipeUnchanged
                                 /\ RecvCheckPoints(r.a.p, r.a.start, r.a.vals, CpReqOf(r))
      [] r.ev = "FilterHashes" -> \* when the cached hashes are complete the handler calls try_send_get_block_filters,
                                 \* which may recover the earliest matched record like the filters tick
                                 /\ (UNCHANGED psCore /\ PipeUnchanged) \/ (mmem' # mmem /\ FilterTick0)
                                 \* the peer's latest hashes / the cached hashes and the verdict are the specified ones
                                 /\ RecvFilterHashes(r.a.p, [start |-> r.a.start, parent |-> r.a.parent, hs |-> r.a.hs])
                                 \* an honest answer to the client's own request is never punished
                                 \* (unless it contradicts what the peer itself made the client store before)
                                 /\ (r.a.kind = "honest" /\ LatestTrue(r.a.p, r.a.tip) /\ CachedTrue(r.a.tip) /\ CpsTrueFor(r.a.p, r.a.tip)) => out'.ban = {}
      [] r.ev = "Filters"    -> /\ RecvFilters(r.a.p, [start |-> r.a.start, fs |-> r.a.fs, hs |-> r.a.hs])
                                \* progress moves the cached hashes to the interval of the new position, and the next batch is
                                \* requested exactly when the hashes to check it against are there
                                /\ minF' # minF =>
                                     /\ cached' = Recache(cached, minF')
                                     /\ LET asked == {m.start : m \in {x \in ToSet(r.out.sent) : x.kind = "GetBlockFilters"}}
                                        IN IF CouldRequestMore(minF') THEN asked = {minF' + 1} ELSE asked = {}
                                \* (a batch that brings no progress ends in try_send_get_block_filter_hashes, which lets the cached hashes
                                \*  follow the filter position -- e.g. after set_scripts has rewound it)
                                /\ minF' = minF => cached' \in {cached, Recache(cached, minF)}
                                /\ ({x \in subst' \ subst : x < ForeignBase} # {} => PrintT(<<"KNOWN-FINDING", "KF-C06-blockhash", {x \in subst' \ subst : x < ForeignBase}>>))
      [] r.ev = "BlocksProof" -> BlocksProofEv(r.a)
      [] r.ev = "Block"      -> RecvBlock(r.a.p, r.a.b, r.a.body)
      [] r.ev = "Quiescent"  -> QuiescentEv(r.a)
      [] r.ev = "CpQuiescent" -> /\ UNCHANGED psCore /\ PipeUnchanged
                                 /\ CpNotBlocked(ToSet(r.a.honest), r.a.leaf)
      [] r.ev = "Crash"      -> \* process death at a storage write + restart: volatile state is gone; the persistent
                                \* state is whatever the interrupted operation had written (loaded from the log and
                                \* judged by the invariants from here on).  A script whose stored entry changed in the
                                \* interrupted operation starts at its stored number.
                                /\ UNCHANGED <<now>>
                                /\ peer' = [p \in PeerNames |-> NonePeer]
                                /\ mmem' = {} /\ fetchH' = {} /\ fetchT' = {} /\ UNCHANGED subst
                                \* a number lowered by the interrupted operation may come from rollback_to_block
                                /\ over' = {k \in over : \E e \in scripts : e[1] = k /\ e \in scripts'}
                                           \cup {e[1] : e \in {x \in scripts' : \E y \in scripts : y[1] = x[1] /\ y[2] > x[2]}}
                                           \* history entries disappeared: the rollback batch of the interrupted
                                           \* commit was written; scripts at or above the removed blocks over-claim
                                           \cup (IF hist \ hist' = {} THEN {}
                                                 ELSE LET x0 == SetMin({h[2] : h \in hist \ hist'})
                                                      IN {e[1] : e \in {x \in scripts' : x[2] >= x0}})
                                /\ startOf' = [sk \in {e[1] : e \in scripts'} |->
                                                 IF sk \in DOMAIN startOf /\ \E e \in scripts : e[1] = sk /\ e \in scripts'
                                                 THEN startOf[sk]
                                                 ELSE (CHOOSE e \in scripts' : e[1] = sk)[2]]
      [] r.ev = "Panic"      -> \* the only deliberate abort: a valid second proof (from genesis) confirms a long fork
                                /\ r.a.during = "Proof" /\ r.a.msg = "long fork detected"
                                /\ peer[r.a.args.p].req.on /\ peer[r.a.args.p].req.fork
                                /\ r.a.args.kind = "honest"
                                \* ... of a fork that really shares none of the remembered headers
                                /\ \/ ForkIsLong(r.a.args.last)
                                   \/ /\ "KF-C05-stale-longfork" \in cfg.allow
                                      /\ PrintT(<<"KNOWN-FINDING", "KF-C05-stale-longfork", r.a.args.p, r.a.args.last, tip>>)
                                /\ UNCHANGED psCore /\ PipeUnchanged
      [] OTHER               -> FALSE

\* the per-peer unfinalized vectors change only where the specification says so
CpVectors(r) ==
    CASE r.ev \in {"Refresh", "CheckPoints"} -> TRUE      \* FinalizeStep, RecvCheckPoints
      [] r.ev = "Connect" -> /\ CpOnlyChange({r.a.p})
                             /\ (peer[r.a.p].st = "None" /\ peer'[r.a.p].st # "None") =>
                                   \* a new session starts at a final check point (the one of the last start)
                                   /\ CpStart(pf'[r.a.p].cps) + 1 <= Len(cpFinal)
                                   /\ CpVals(pf'[r.a.p].cps) = <<cpFinal[CpStart(pf'[r.a.p].cps) + 1]>>
      [] r.ev = "Disconnect" -> CpOnlyChange({r.a.p}) /\ pf'[r.a.p].cps = <<0, <<>> >>
      [] r.ev \in {"Restart", "Crash"} -> \A p \in PeerNames : pf'[p].cps = <<0, <<>> >>
      [] OTHER -> CpOnlyChange({})

\* What the client asks for is sound in every step (post-state): proofs only for matched blocks / fetch entries it
\* holds, against the stored tip; bodies only of matched blocks that are already proved (C02 / C06: nothing
\* unproved is ever downloaded); filters only from the next unfiltered block on; everything of proven peers only.
SendsSound(r) ==
    \A m \in ToSet(r.out.sent) :
        /\ m.kind \in {"GetBlocksProof", "GetTransactionsProof", "GetBlocks", "GetBlockFilters",
                       "GetBlockFilterHashes", "GetBlockFilterCheckPoints"}
              => HasProof(peer'[m.to])
        /\ m.kind = "GetBlocksProof" =>
              /\ m.last = tip'
              /\ {h \in ToSet(m.hashes) : h >= 1} \subseteq {e[1] : e \in mmem'} \cup {e[1] : e \in fetchH'}
        /\ m.kind = "GetTransactionsProof" =>
              /\ m.last = tip'
              /\ {h \in ToSet(m.hashes) : h >= 1} \subseteq {e[1] : e \in fetchT'}
        \* (the blocks an accepted SendBlocksProof has just proved are asked for even if set_scripts has emptied the
        \*  map meanwhile: a proven block that nobody waits for; its arrival is ignored)
        /\ m.kind = "GetBlocks" =>
              {h \in ToSet(m.hashes) : h >= 1} \subseteq
                  {e[1] : e \in {x \in mmem' : x[2]}}
                  \cup (IF r.ev = "BlocksProof" /\ r.out.ban = <<>> THEN ToSet(r.a.hs) ELSE {})
        /\ m.kind = "GetBlockFilters" => m.start = minF' + 1

\* C17: is the write `label` of operation op inside the operation's critical section (matched-blocks write lock)
\* (since fix 92f2bdb of /repo the fork switch holds the lock until the tip and the peer's prove state are updated)
InLock(op, label) == op \in {"SetScripts", "Filters", "Block", "Fork"}

\* what C17 compares: script set, filter progress, pending matched blocks, index contents, and the proof state
Core == [scripts |-> scripts, minF |-> minF, mdb |-> mdb, mmem |-> mmem, cells |-> cells, hist |-> hist,
         txs |-> txs, hdrs |-> hdrs, nums |-> nums, cpFinal |-> cpFinal,
         tip |-> tip, tipTD |-> tipTD, lastN |-> lastN,
         proved |-> [p \in PeerNames |-> <<peer[p].proved, peer[p].pLastN>>]]

RECURSIVE CapSum(_)
CapSum(S) == IF S = {} THEN 0 ELSE LET e == CHOOSE x \in S : TRUE IN TxOf(world, e[5]).outs[e[4] + 1][3] + CapSum(S \ {e})

ExpStep(r) ==
    CASE r.ev = "ExpPre" ->
            /\ UNCHANGED psCore /\ PipeUnchanged
            /\ IF r.a.idx = 0 THEN expPre' = Core' /\ expOut' = {}
               ELSE Core' = expPre /\ UNCHANGED <<expPre, expOut>>      \* every run of the experiment starts from the same state
      [] r.ev = "ExpSerial" ->
            /\ UNCHANGED psCore /\ PipeUnchanged
            /\ expOut' = expOut \cup {Core'} /\ UNCHANGED expPre

TraceInit ==
    /\ TLCSet(43, 0) /\ TLCSet(44, 0) /\ TLCSet(45, 0)
    /\ expPre = <<>> /\ expOut = {}
    /\ l = 1
    /\ LET r == Rec[1] IN
       /\ world = r.world /\ cfg = CfgOf(r)
       /\ now = r.st.now /\ peer = r.st.peer /\ tip = r.st.tip /\ tipTD = r.st.tipTD /\ lastN = r.st.lastN
       /\ out = OutOf(r)
       /\ scripts = ToSet(r.st.scripts) /\ minF = r.st.minF /\ mdb = r.st.mdb /\ mmem = MmemOf(r.st)
       /\ cells = ToSet(r.st.cells) /\ hist = ToSet(r.st.hist) /\ txs = ToSet(r.st.txs)
       /\ hdrs = ToSet(r.st.hdrs) /\ nums = ToSet(r.st.nums)
       /\ cpFinal = r.st.cpFinal /\ cached = r.st.cached /\ pf = r.st.pf
       /\ fetchH = ToSet(r.st.fetchH) /\ fetchT = ToSet(r.st.fetchT)
       /\ startOf = <<>> /\ over = {} /\ subst = {}

TraceNext ==
    /\ l < Len(Rec)
    /\ l' = l + 1
    /\ LET r == Rec[l + 1] IN
       IF r.ev = "Reset"
       THEN /\ world' = r.world /\ cfg' = CfgOf(r) /\ LoadPs(r) /\ LoadFs(r) /\ startOf' = <<>> /\ over' = {} /\ subst' = {}
            /\ UNCHANGED <<expPre, expOut>>
       ELSE IF r.ev = "Concurrent"
       THEN \* C17: two operations ran on two threads; what they left is what one of the two serial orders leaves
            /\ UNCHANGED <<world, cfg, startOf, over, subst, expPre, expOut>> /\ LoadPs(r) /\ LoadFs(r)
            /\ Core' \in expOut
            \* the lock discipline behind it: set_scripts, the BlockFilters handler and the SendBlock handler do all
            \* their storage writes under the write lock of the matched-blocks map, the fork switch does its
            \* rollback writes and the tip update under it.  While the first operation is
            \* suspended before a write inside its critical section, a second operation that needs the lock cannot
            \* finish.  (blocked = "did not finish within 300 ms while the first was suspended": a slow machine can
            \* only turn FALSE into TRUE, never the reverse.)
            /\ ("label" \in DOMAIN r.a /\ r.a.paused /\ InLock(r.a.a, r.a.label) /\ r.a.b \in {"SetScripts", "Filters", "FiltersNow", "Block"}
                /\ ~("bNoop" \in DOMAIN r.a /\ r.a.bNoop)       \* (the second operation had nothing to deliver)
                \* (... or returns before it takes the lock: a BlockFilters / SendBlock message that is dropped early --
                \*  no scripts, unknown or unproven peer, malformed -- changes nothing when it runs first either)
                /\ ("bEff" \in DOMAIN r.a => r.a.bEff))
                  => r.a.blocked
            \* a reader that took its snapshot before the writer ran reports the index AND the tip of that moment
            /\ r.a.a = "Read" =>
                 /\ r.a.rd.tip = expPre.tip /\ r.a.rd.tipNum = Num(world, expPre.tip)
                 /\ r.a.rd.cap = CapSum({e \in expPre.cells : e[1] = r.a.rd.sk})
       ELSE IF r.ev \in {"ExpPre", "ExpSerial"}
       THEN UNCHANGED <<world, cfg>> /\ LoadPs(r) /\ LoadFs(r) /\ ExpStep(r)
       ELSE /\ UNCHANGED <<expPre, expOut>>
            /\ r.ev # "DeadStore"     \* C08: a store that aborts on every start is never a step
            /\ UNCHANGED <<world, cfg>> /\ LoadPs(r) /\ LoadFs(r) /\ Step(r)
            /\ (r.ev \notin {"Crash", "Panic", "Restart"} => SendsSound(r))
            /\ CpAppendOnly                \* C07: at every step, crashes included
            /\ CpTrue
            /\ CpVectors(r)

TraceSpec == TraceInit /\ [][TraceNext]_<<l, allVars, expPre, expOut>>

StepProps ==
    /\ (Rec[l'].ev \notin {"Reset", "Crash", "Concurrent"}) =>
          /\ TipOnlyHeavier /\ PeerDiagram /\ ProofOnlyWhenRequested /\ LastStateKeepsProof

TraceProps == [][StepProps]_<<l, allVars, expPre, expOut>>
IndexChanged == Rec[l'].ev # "Concurrent" /\ (Rec[l'].ev = "Crash" \/ cells' # cells \/ hist' # hist \/ scripts' # scripts \/ tip' # tip \/ startOf' # startOf \/ world' # world)
P_CellsSound == [][(IndexChanged /\ ~Tainted') => CellsSound']_<<l, allVars, expPre, expOut>>
P_HistOnCanon == [][(IndexChanged /\ ~Tainted') => HistOnCanon']_<<l, allVars, expPre, expOut>>
P_ScriptsNumberHonest == [][(IndexChanged /\ ~Tainted') => ScriptsNumberHonest']_<<l, allVars, expPre, expOut>>
P_PeerSync == [][(Rec[l'].ev \notin {"Reset", "Crash", "Concurrent"}) => (TipOnlyHeavier /\ PeerDiagram /\ ProofOnlyWhenRequested /\ LastStateKeepsProof)]_<<l, allVars, expPre, expOut>>

TraceInv ==
    /\ TypeOK /\ LastNAncestors /\ ProvedAreValid
    /\ (tip # Genesis => TipTruthful)
    /\ NoForgedData
    /\ MatchedAtRightHeight /\ FiltersOfOwnChain
    /\ NoOrphanFetch
    /\ FetchedTruthful

TraceAccepted ==
    LET d == TLCGet("stats").diameter IN
    IF d = Len(Rec) THEN TRUE
    ELSE /\ PrintT(<<"TRACE-REJECTED line", d + 1, "scenario", Rec[d + 1].sc, "event", Rec[d + 1].ev>>)
         /\ FALSE
=============================================================================
