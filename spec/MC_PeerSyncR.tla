---------------------------- MODULE MC_PeerSyncR ----------------------------
(***************************************************************************)
(* Specification -> implementation: behaviours of MC_PeerSync as scenarios *)
(* for the real client.  Every disjunct of the next-state relation records *)
(* the ENVIRONMENT event it stands for (who connects, which block is       *)
(* announced, from which tip the outstanding proof request is answered, or *)
(* which check the answer fails); `tlc -simulate` prints one scenario per  *)
(* behaviour (REPLAY lines).  The harness (peersync mode=replay) builds    *)
(* the same world into real headers, executes the events -- the client     *)
(* draws its own requests, the honest server answers what it really asked  *)
(* -- and the recorded trace is validated against PeerSync.tla like any    *)
(* other: the model supplies the event orders, the trace specification     *)
(* the verdict.                                                            *)
(***************************************************************************)
EXTENDS MC_PeerSync, Json

CONSTANTS Depth
VARIABLE path
rVars == <<psVars, path>>

Ev(k, p, b, x) == [k |-> k, p |-> p, b |-> b, x |-> x]

RInit == MCInit /\ path = <<>>

\* which of the model's proof messages is this: answered honestly from server tip t, or failing check f
ProofEvents(p) ==
    LET s == peer[p] IN
    IF ~HasReq(s) THEN {<<m, Ev("Proof", p, 7, "unsolicited")>> : m \in ProofMsgs(p)}
    ELSE {<<LET a == HonestAnswer(world, LastN, s.req, t) IN
            [last |-> a.last, lastOk |-> Mined(world, a.last) /\ Rooted(world, a.last),
             empty |-> ~a.onChain, nums |-> a.nums, chain |-> a.last,
             match |-> "ok", root |-> "world", pow |-> "world", cont |-> "ok", mmr |-> "ok",
             tau |-> "world", td |-> "ok"], Ev("Proof", p, t, "honest")>> : t \in ServerTips}
         \cup (IF HonestOnly THEN {} ELSE
               {<<[last |-> s.req.last, lastOk |-> TRUE, empty |-> FALSE,
                   nums |-> HonestAnswer(world, LastN, s.req, s.req.last).nums, chain |-> s.req.last,
                   match |-> B(f # "match"), root |-> B(f # "root"), pow |-> B(f # "pow"), cont |-> B(f # "cont"),
                   mmr |-> B(f # "mmr"), tau |-> "ok", td |-> "ok"], Ev("Proof", p, s.req.last, f)>>
                  : f \in {"match", "root", "pow", "cont", "mmr"}})

\* (a generator: events the real environment cannot produce or that are no-ops -- messages of peers without a
\*  session -- are left to MC_PeerSync, which explores them all)
RNext ==
    /\ Len(path) < Depth
    /\ \/ \E p \in MCPeers : peer[p].st = "None" /\ Connect(p) /\ path' = Append(path, Ev("Connect", p, 0, ""))
       \/ \E p \in MCPeers : peer[p].st # "None" /\ Disconnect(p) /\ path' = Append(path, Ev("Disconnect", p, 0, ""))
       \/ \E d \in {1, 3} : Advance(d) /\ path' = Append(path, Ev("Advance", "", d, ""))
       \/ (\E o \in Oracles : RefreshTick(o, {}, {})) /\ path' = Append(path, Ev("Refresh", "", 0, ""))
       \/ \E p \in MCPeers, b \in AnnounceSet :
            /\ peer[p].st # "None"
            /\ \E o \in Oracles : RecvLastState(p, [b |-> b, ok |-> Mined(world, b) /\ Rooted(world, b)], o)
            /\ path' = Append(path, Ev("LastState", p, b, ""))
       \/ \E p \in MCPeers : \E me \in ProofEvents(p) :
            /\ peer[p].st # "None"
            /\ \E o \in Oracles : RecvProof(p, me[1], o)
            /\ path' = Append(path, me[2])
       \/ /\ \A i \in 1..Len(path) : path[i].k # "Restart"        \* at most one restart per scenario
          /\ Restart /\ path' = Append(path, Ev("Restart", "", 0, ""))

RSpec == RInit /\ [][RNext]_rVars

\* one line per finished behaviour
Emit == (Len(path) = Depth) => PrintT(<<"REPLAY", ToJson(path)>>)
=============================================================================
