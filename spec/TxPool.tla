------------------------------- MODULE TxPool -------------------------------
(***************************************************************************)
(* C18: send_transaction / estimate_cycles, the pending pool and its       *)
(* relay.                                                                  *)
(*                                                                         *)
(*   desc[t] = [ins, deps, cls, nouts]   a submitted transaction:          *)
(*     ins, deps: sequences of <<tx, output index>> (cell deps by code)    *)
(*     cls: "valid" or the one rule it breaks ("capacity", "dupinput",     *)
(*          "since", "script", "structure")                                *)
(*   stored: the transactions the store holds (indexed or fetched), with   *)
(*           their output counts: stored[t] = number of outputs            *)
(*   pool:   pending transactions, oldest first                            *)
(*   ann[t]: peers (by peer id) the hash of pool member t was announced to *)
(*   opened: peers with an open relay protocol                             *)
(*   ever:   history variable, the <<peer, tx>> announcements made since    *)
(*           tx (last) became a member of the pool                         *)
(***************************************************************************)
EXTENDS Integers, Sequences, FiniteSets

VARIABLES desc, stored, limit, pool, ann, opened, ever, reply
tvars == <<desc, stored, limit, pool, ann, opened, ever, reply>>

ToSetT(s) == {s[i] : i \in 1..Len(s)}
InPool(t) == \E i \in 1..Len(pool) : pool[i] = t
NOuts(t) == IF t \in DOMAIN stored THEN stored[t] ELSE IF t \in DOMAIN desc THEN desc[t].nouts ELSE 0
\* the client knows a cell: output of a stored or of a pending transaction (every known cell counts as live)
Known(r) == (r[1] \in DOMAIN stored \/ InPool(r[1])) /\ r[2] < NOuts(r[1])

Admissible(t) ==
    /\ desc[t].cls = "valid"
    /\ \A r \in ToSetT(desc[t].ins) \cup ToSetT(desc[t].deps) : Known(r)

Without(s, t) == SelectSeq(s, LAMBDA x : x # t)
\* PendingTxs::push: (re)insert at the young end, evict the oldest beyond the limit
Pushed(t) ==
    LET p1 == Append(Without(pool, t), t)
    IN IF Len(p1) > limit THEN Tail(p1) ELSE p1

\* send_transaction / estimate_cycles;  res = "ok" | "err"
Submit(t, kind, res) ==
    /\ res = (IF Admissible(t) THEN "ok" ELSE "err")
    /\ IF res = "ok" /\ kind = "send"
       THEN /\ pool' = Pushed(t)
            \* the announcements of a resubmitted transaction are remembered
            /\ ann' = [x \in ToSetT(Pushed(t)) |-> IF x \in DOMAIN ann THEN ann[x] ELSE {}]
       ELSE UNCHANGED <<pool, ann>>
    /\ reply' = {}
    \* an evicted transaction that is submitted again later is a new member of the pool
    /\ ever' = {pr \in ever : pr[2] \in ToSetT(pool')}
    /\ UNCHANGED <<desc, stored, limit, opened>>

Unannounced(p) == {t \in ToSetT(pool) : p \notin ann[t]}
Announce(ps) ==
    /\ ann' = [t \in DOMAIN ann |-> ann[t] \cup {p \in ps : t \in Unannounced(p)}]
    /\ reply' = {<<p, Unannounced(p)>> : p \in {q \in ps : Unannounced(q) # {}}}
    /\ ever' = ever \cup UNION {{<<p, t>> : t \in Unannounced(p)} : p \in ps}

\* the relay protocol is opened with p: the pool is announced (if it has members)
RelayConnect(p) ==
    /\ opened' = opened \cup {p}
    /\ Announce({p})
    /\ UNCHANGED <<desc, stored, limit, pool>>

RelayDisconnect(p) ==
    /\ opened' = opened \ {p} /\ reply' = {}
    /\ UNCHANGED <<desc, stored, limit, pool, ann, ever>>

\* the periodic check: every opened peer hears the hashes it has not heard yet
RelayTick ==
    /\ opened # {}                       \* (with no opened peer the client asks the network layer to open some)
    /\ Announce(opened)
    /\ UNCHANGED <<desc, stored, limit, pool, opened>>

(***************************************************************************)
(* Properties                                                              *)
(***************************************************************************)
PoolBounded == Len(pool) <= limit
PoolNoDup == \A i, j \in 1..Len(pool) : pool[i] = pool[j] => i = j
\* everything in the pool was admissible when it came in: in particular its class is "valid"
OnlyValidPending == \A t \in ToSetT(pool) : desc[t].cls = "valid"
\* each pending hash is announced to a given peer at most once (while it stays in the pool)
AnnounceOnce == [][\A pr \in reply' : \A t \in pr[2] : <<pr[1], t>> \notin ever]_tvars
\* get_transaction: "pending" exactly for pool members that are not stored
TxStatus(t) == IF t \in DOMAIN stored THEN "committed" ELSE IF InPool(t) THEN "pending" ELSE "unknown"
=============================================================================
