SPECIFICATION TraceSpec
INVARIANT TraceInv
PROPERTY P_PeerSync
PROPERTY P_CellsSound
PROPERTY P_HistOnCanon
PROPERTY P_ScriptsNumberHonest
POSTCONDITION TraceAccepted
CHECK_DEADLOCK FALSE
