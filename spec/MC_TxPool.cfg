SPECIFICATION Spec
INVARIANT Inv
PROPERTY AnnounceOnce
CHECK_DEADLOCK FALSE
