------------------------------ MODULE Sampling ------------------------------
(***************************************************************************)
(* Well-formedness of GetLastStateProof (property C15), stated over the    *)
(* ORDER structure of the difficulties only (<, <=, =), so that the same   *)
(* predicate judges small integers (traces of the sync drivers) and ranks  *)
(* of 256-bit values (driver `sampling`).                                  *)
(*                                                                         *)
(*   q = [startNum, lastNum, startTd, lastTd, bnd, ds, nosample, tight]    *)
(*   nosample: at most last-N blocks are missing (lastNum - startNum <= N) *)
(*   tight: bnd = startTd + 1, i.e. the open interval (start, boundary)    *)
(*   contains no integer at all; only then a sample equal to the start     *)
(*   difficulty is tolerated (nothing else is expressible).                *)
(***************************************************************************)
EXTENDS Integers, Sequences

StrictlyIncreasing(s) == \A i \in 1..(Len(s) - 1) : s[i] < s[i + 1]

WellFormed(q) ==
    /\ q.startNum < q.lastNum
    /\ q.startTd <= q.lastTd
    /\ q.startTd <= q.bnd /\ q.bnd <= q.lastTd
    /\ StrictlyIncreasing(q.ds)
    /\ \A i \in 1..Len(q.ds) : (q.startTd < q.ds[i] \/ (q.tight /\ q.startTd = q.ds[i])) /\ q.ds[i] < q.bnd
    /\ IF q.nosample
       THEN q.ds = <<>> /\ q.bnd = q.startTd
       ELSE Len(q.ds) >= 1

\* the request must be refused (None) exactly in these cases
MustRefuse(q) == q.startTd > q.lastTd \/ q.startNum >= q.lastNum
=============================================================================
