--------------------------- MODULE Trace_Sampling ---------------------------
(***************************************************************************)
(* C15 at scale: the real build_prove_request_content(_from_genesis) is    *)
(* called for a grid of (blocks, lastN) rows with 2^64-scale numbers and   *)
(* 256-bit difficulties; the harness logs the RANKS of the difficulties    *)
(* (an exact abstraction for a predicate that only uses <, <=, =) and the  *)
(* number of distinct samples; the required number comes from the table    *)
(* computed with exact arithmetic (SamplingTable).                         *)
(***************************************************************************)
EXTENDS Sampling, SamplingTable, Json, IOUtils, TLC

Rec == ndJsonDeserialize(IOEnv.TRACE)
VARIABLE l

AllowIds == IF "ALLOW" \in DOMAIN IOEnv THEN IOEnv.ALLOW ELSE ""
Allow == {id \in {"KF-C15-resolution"} : \E i \in 1..(Len(AllowIds) - Len(id) + 1) : SubSeq(AllowIds, i, i + Len(id) - 1) = id}

Q(a) == [startNum |-> 0, lastNum |-> 1, startTd |-> a.startTd, lastTd |-> a.lastTd, bnd |-> a.bnd,
         ds |-> a.ds, nosample |-> NoSampleRow(a.row), tight |-> a.tight]

ReqOk(a) ==
    IF a.refuse
    THEN \* start above last in difficulty, or not below it in number: no request may be built
         a.none
    ELSE /\ ~a.none
         /\ WellFormed(Q(a))
         /\ \/ Len(a.ds) >= MinDistinct(a.row)
            \/ \* KF-C15-resolution: with blocks/lastN >= 5e7 the 1e-9 resolution of sampling::multiply merges
               \* many draws near the boundary; fewer distinct difficulties than the bound requires are sent
               /\ "KF-C15-resolution" \in Allow /\ CoarseRow(a.row) /\ Len(a.ds) >= 1
               /\ PrintT(<<"KNOWN-FINDING", "KF-C15-resolution", a.row>>)
         \* the request names the expected start: in no-sample mode the first remembered last-N
         \* header below the start that still covers the last block (rebase), else the start itself
         /\ LET cands == IF NoSampleRow(a.row) /\ a.small
                         THEN {i \in 1..Len(a.stored) : a.stored[i] < a.startNum /\ a.lastNum <= a.stored[i] + a.lastN}
                         ELSE {}
                exp == IF cands = {} THEN 0 ELSE CHOOSE i \in cands : \A j \in cands : i <= j
            IN /\ a.reqStartIdx = exp
               /\ a.reqStartNumOk

TraceInit == l = 1
TraceNext == l <= Len(Rec) /\ l' = l + 1 /\ (Rec[l].ev = "Req" => ReqOk(Rec[l].a))
TraceSpec == TraceInit /\ [][TraceNext]_l
TraceAccepted ==
    LET d == TLCGet("stats").diameter IN
    IF d = Len(Rec) + 1 THEN TRUE
    ELSE /\ PrintT(<<"TRACE-REJECTED line", d, "scenario", Rec[d].sc, "event", Rec[d].ev>>) /\ FALSE
=============================================================================
