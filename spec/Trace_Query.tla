---------------------------- MODULE Trace_Query ----------------------------
(***************************************************************************)
(* Trace validation for C13: pages returned by the real RPC implementation *)
(* against Query.tla, over the index read back from RocksDB (QIndex).      *)
(***************************************************************************)
EXTENDS Query, Json, IOUtils, TLC, FiniteSets

Rec == ndJsonDeserialize(IOEnv.TRACE)
Allow == IF "ALLOW" \in DOMAIN IOEnv THEN IOEnv.ALLOW ELSE ""
ToSet(s) == {s[i] : i \in 1..Len(s)}

VARIABLES l, world, sb, cells, hist, tip
qvars == <<l, world, sb, cells, hist, tip>>

QOf(a) == a.q

\* decoded cursor [script id, num, ti, io, ioType (-1 cells), key prefix byte] -> key bytes
CurKey(c) == IF c[5] < 0 THEN sb[c[1]] \o BE8(c[2]) \o BE4(c[3]) \o BE4(c[4])
             ELSE sb[c[1]] \o BE8(c[2]) \o BE4(c[3]) \o BE4(c[4]) \o <<c[5]>>
AfterCursor(desc, cur, k) == cur = <<>> \/ Before(desc, CurKey(cur), k)

\* a returned cell [tx, out index, num, tx index, hasData] as an index entry
CellOfRes(x, stype) ==
    LET out == TxOf(world, x[1]).outs[x[2] + 1] IN
    <<2 * (IF stype = 0 THEN out[1] ELSE out[2]) + stype, x[3], x[4], x[2], x[1]>>
CellResOk(x, stype) ==
    /\ x[1] >= 1 /\ x[1] <= Len(world.txs) /\ x[2] + 1 <= Len(TxOf(world, x[1]).outs)
    /\ CellOfRes(x, stype) \in cells

\* a returned history entry [tx, num, ti, io, ioType]: its script key comes from the index itself
HistOfRes(x, stype, q) ==
    {h \in hist : h[6] = x[1] /\ h[2] = x[2] /\ h[3] = x[3] /\ h[4] = x[4] /\ h[5] = x[5] /\ h[1] % 2 = stype
                  /\ IsPrefixOf(q.script, sb[h[1] \div 2])}

CellsPage(r) ==
    LET q == QOf(r.a)
        M == {e \in cells : CellMatches(world, sb, q, e)}
        C == {CellKey(sb, e) : e \in {m \in M : AfterCursor(r.a.desc, r.a.cursor, CellKey(sb, m))}}
    IN /\ ~r.err
       /\ \A i \in 1..Len(r.res) : CellResOk(r.res[i], q.stype) /\ r.res[i][5] = q.withData
       /\ PageOk(r.a.desc, r.a.limit, [i \in 1..Len(r.res) |-> CellKey(sb, CellOfRes(r.res[i], q.stype))], C)
       /\ r.next = (IF r.res = <<>> THEN <<>>
                    ELSE LET e == CellOfRes(r.res[Len(r.res)], q.stype) IN <<e[1] \div 2, e[2], e[3], e[4], -1, r.next[6]>>)

CellsDone(r) ==
    LET q == QOf(r.a)
        C == {CellKey(sb, e) : e \in {m \in cells : CellMatches(world, sb, q, m)}}
    IN /\ \A i \in 1..Len(r.all) : CellResOk(r.all[i], q.stype)
       \* every matching entry exactly once, in key order (descending = the reverse)
       /\ PageOk(r.a.desc, Cardinality(C), [i \in 1..Len(r.all) |-> CellKey(sb, CellOfRes(r.all[i], q.stype))], C)
       /\ Len(r.all) = Cardinality(C)

CapacityEv(r) ==
    LET q == QOf(r.a)
        M == {e \in cells : CellMatches(world, sb, q, e)}
        RECURSIVE Sum(_)
        Sum(S) == IF S = {} THEN 0 ELSE LET e == CHOOSE x \in S : TRUE IN TxOf(world, e[5]).outs[e[4] + 1][3] + Sum(S \ {e})
    IN /\ r.cap = Sum(M) /\ r.rem = 0
       /\ r.tip = tip /\ r.tipNum = Num(world, tip)

\* flattened grouped result: [tx, num, ti, <<<<ioType, io>>...>>] -> entries [tx, num, ti, io, ioType]
RECURSIVE Flatten(_)
Flatten(gs) ==
    IF gs = <<>> THEN <<>>
    ELSE LET g == Head(gs) IN [i \in 1..Len(g[4]) |-> <<g[1], g[2], g[3], g[4][i][2], g[4][i][1]>>] \o Flatten(Tail(gs))

TxKeyOk(x, q) == Cardinality(HistOfRes(x, q.stype, q)) = 1
TxKey(x, q) == HistKey(sb, CHOOSE h \in HistOfRes(x, q.stype, q) : TRUE)

TxsPage(r) ==
    LET q == QOf(r.a)
        M == {h \in hist : HistMatches(sb, hist, q, h)}
        C == {HistKey(sb, h) : h \in {m \in M : AfterCursor(r.a.desc, r.a.cursor, HistKey(sb, m))}}
        flat == IF q.group THEN Flatten(r.res) ELSE r.res
        R == [i \in 1..Len(flat) |-> TxKey(flat[i], q)]
    IN /\ ~r.err
       /\ \A i \in 1..Len(flat) : TxKeyOk(flat[i], q)
       /\ IF ~q.group
          THEN /\ PageOk(r.a.desc, r.a.limit, R, C)
               /\ r.next = (IF flat = <<>> THEN <<>>
                            ELSE LET h == CHOOSE h \in HistOfRes(flat[Len(flat)], q.stype, q) : TRUE
                                 IN <<h[1] \div 2, h[2], h[3], h[4], h[5], r.next[6]>>)
          ELSE \* grouped: at most `limit` groups, each a run of one transaction, neighbours differ; the entries are
               \* the first ones after the cursor; a short page is complete
               /\ Len(r.res) <= r.a.limit
               /\ \A i \in 1..(Len(r.res) - 1) : r.res[i][1] # r.res[i + 1][1]
               /\ \A i \in 1..Len(r.res) : r.res[i][4] # <<>>
               /\ IsFirstOf(r.a.desc, R, C)
               /\ Len(r.res) < r.a.limit => \A c \in C : \E i \in 1..Len(R) : R[i] = c

TxsDone(r) ==
    LET q == QOf(r.a)
        C == {HistKey(sb, h) : h \in {m \in hist : HistMatches(sb, hist, q, m)}}
        flat == IF q.group THEN Flatten(r.all) ELSE r.all
    IN /\ \A i \in 1..Len(flat) : TxKeyOk(flat[i], q)
       /\ PageOk(r.a.desc, Cardinality(C), [i \in 1..Len(flat) |-> TxKey(flat[i], q)], C)
       /\ Len(flat) = Cardinality(C)

TraceInit ==
    /\ l = 1
    /\ LET r == Rec[1] IN
       /\ r.ev = "QIndex"
       /\ world = r.world /\ sb = r.sbytes
       /\ cells = ToSet(r.st.cells) /\ hist = ToSet(r.st.hist) /\ tip = r.st.tip

TraceNext ==
    /\ l < Len(Rec)
    /\ l' = l + 1
    /\ LET r == Rec[l + 1] IN
       IF r.ev = "QIndex"
       THEN /\ world' = r.world /\ sb' = r.sbytes
            /\ cells' = ToSet(r.st.cells) /\ hist' = ToSet(r.st.hist) /\ tip' = r.st.tip
       ELSE /\ UNCHANGED <<world, sb, cells, hist, tip>>
            /\ CASE r.ev = "Cells" -> CellsPage(r)
                 [] r.ev = "CellsDone" -> CellsDone(r)
                 [] r.ev = "Capacity" -> CapacityEv(r)
                 [] r.ev = "Txs" -> TxsPage(r)
                 [] r.ev = "TxsDone" -> TxsDone(r)
                 [] OTHER -> FALSE       \* Panic included

TraceSpec == TraceInit /\ [][TraceNext]_qvars

TraceAccepted ==
    LET d == TLCGet("stats").diameter IN
    IF d = Len(Rec) THEN TRUE
    ELSE /\ PrintT(<<"TRACE-REJECTED line", d + 1, "scenario", Rec[d + 1].sc, "event", Rec[d + 1].ev>>)
         /\ FALSE
=============================================================================
