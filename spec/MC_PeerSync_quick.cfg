SPECIFICATION MCSpec
CONSTANTS
  MCPeers = {"p1", "p2"}
  MCLastN = 2
  MaxNow = 2
  AnnounceSet = {5, 7, 9, 10}
  ServerTips = {7, 9}
  HonestOnly = FALSE
  BoundaryChoices = {0}
CONSTRAINT TimeBound
INVARIANT MCInv
PROPERTY MCProps
CHECK_DEADLOCK FALSE
