\* the rollback target before fix 10f415f (start of the latest kept record + 1 even when the record lies wholly
\* below the fork point): expected to fail
SPECIFICATION MCSpec
CONSTANTS
  MaxSetScripts = 2
  AllowKF = {"KF-C03-stale-before-start", "KF-C04-spanning-record", "KF-C09-rollback-number"}
  RollbackTarget <- OldRollbackTarget
INVARIANT MCInv
CHECK_DEADLOCK FALSE
