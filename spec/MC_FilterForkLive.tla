------------------------- MODULE MC_FilterForkLive -------------------------
(***************************************************************************)
(* Liveness of the filter pipeline under fairness (C04 "sync resumes ...   *)
(* without ever getting stuck waiting for a block of the abandoned         *)
(* branch", C03 "after sync has caught up", C09): the model MC_FilterFork  *)
(* (set_scripts at any time, at most MaxSetScripts times; the peer         *)
(* reorganises at any point of the pipeline; restarts, at most MaxRestarts)*)
(* with weak fairness of the peer's honest traffic -- the next batch of    *)
(* filters, the answer to the blocks-proof request, the arrival of a       *)
(* requested block -- and of the client's filter tick.  Checked on the     *)
(* complete state graph (no state constraint): eventually the pipeline is  *)
(* quiet for good (nothing pending, everything filtered up to the tip),    *)
(* and then the index is complete (MCInv: Quiet => Complete).              *)
(***************************************************************************)
EXTENDS MC_FilterFork

CONSTANTS MaxRestarts,
          StrictResume   \* TRUE: the property as stated (no exception for the known finding)

VARIABLE restarts
lvVars == <<mcVars, restarts>>

LInit == MCInit /\ restarts = 0

LRestart == restarts < MaxRestarts /\ restarts' = restarts + 1 /\ MCRestart

LNext ==
    \/ (MCSetScripts \/ MCRecvFilters \/ MCBlocksProof \/ MCRecvBlock \/ MCTick \/ MCFork) /\ UNCHANGED restarts
    \/ LRestart

Fairness ==
    /\ WF_lvVars(MCRecvFilters /\ UNCHANGED restarts)
    /\ WF_lvVars(MCBlocksProof /\ UNCHANGED restarts)
    /\ WF_lvVars(MCRecvBlock /\ UNCHANGED restarts)
    /\ WF_lvVars(MCTick /\ UNCHANGED restarts)

LSpec == LInit /\ [][LNext]_lvVars /\ Fairness

\* a pending record names a block that the proven chain does not have: only KF-C04-spanning-record explains it
StuckOnKnown ==
    /\ ~StrictResume
    /\ "KF-C04-spanning-record" \in cfg.allow
    /\ \E i \in 1..Len(mdb) : \E j \in 1..Len(mdb[i][3]) : ~IsAnc(world, mdb[i][3][j][1], tip)

\* nothing pending and every filter up to the tip examined.  (The scripts' own numbers may stay one batch behind:
\* a batch without matches that arrives while a record is pending moves the filter position only -- fix 952dfc8 --
\* and the completion of the record raises the scripts to the end of ITS range; the next batch catches up.  TLC
\* shows this when Quiet is demanded instead.)
Settled == mdb = <<>> /\ mmem = {} /\ minF = Num(world, tip)

Resumes == <>[](scripts = {} \/ Settled \/ StuckOnKnown)
=============================================================================
