SPECIFICATION LSpec
CONSTANTS
  MaxSetScripts = 1
  MaxRestarts = 1
  StrictResume = TRUE
  AllowKF = {"KF-C03-stale-before-start", "KF-C04-spanning-record", "KF-C09-rollback-number"}
PROPERTY Resumes
CHECK_DEADLOCK FALSE
