----------------------------- MODULE FilterSync -----------------------------
(***************************************************************************)
(* The filter pipeline and the script index:                               *)
(*   set_scripts -> BlockFilters batches -> matched-block records ->       *)
(*   GetBlocksProof -> GetBlocks -> filter_block -> update_block_number,   *)
(*   and the fork rollback of commit_prove_state.                          *)
(* Persistent state (RocksDB): scripts, minF, mdb, the five index          *)
(* keyspaces, cpFinal.  Volatile: mmem (Peers.matched_blocks, which is     *)
(* also the global lock), cached filter hashes, per-peer filter data.      *)
(*                                                                         *)
(* Filter hashes are identified with block ids: the chained filter hash of *)
(* block b is "fid b" (SimChain gives every block a unique filter).        *)
(***************************************************************************)
EXTENDS PeerSync, Index, CheckPoints

VARIABLES
    scripts,   \* set of <<sk, number>>: FILTER_SCRIPTS (one entry per key)
    startOf,   \* history: sk -> the number given at set_scripts (spec-only)
    minF,      \* MIN_FILTERED_NUMBER
    mdb,       \* MATCHED_BLOCKS records in key order: <<start, count, << <<block, proved>> ... >> >>
    mmem,      \* Peers.matched_blocks: set of <<block, proved, downloaded>>
    cells, hist, txs, hdrs, nums,   \* the index keyspaces (see Index)
    cpFinal,   \* finalized check points (fids), cpFinal[i + 1] = check point i
    cached,    \* <<check point index, << fids >> >>: cached_block_filter_hashes
    pf,        \* peer -> [cps, latest, bpr, br, tpr]: per-peer filter / request bookkeeping
    fetchH, fetchT,  \* fetching_headers / fetching_txs: sets of <<id, added, firstSent (-1 = never), timeout, missing>>
    over,      \* history (spec-only): script keys whose stored number was set by rollback_to_block(x) to x
               \* (known finding KF-C09-rollback-number) and not yet confirmed by a filtering pass
    subst      \* history (spec-only): blocks recorded as matched through a BlockFilters message whose block
               \* hash at that position is not the block the filter belongs to (known finding KF-C06-blockhash)

ForeignBase == 100000

fsVars == <<scripts, startOf, minF, mdb, mmem, cells, hist, txs, hdrs, nums, cpFinal, cached, pf, fetchH, fetchT, over, subst>>
allVars == <<psVars, fsVars>>

Interval == cfg.interval
MaxOut == cfg.maxOut
Required == (MaxOut + 1) \div 2

(***************************************************************************)
(* Check points (C07): operators of module CheckPoints over the state      *)
(***************************************************************************)
\* the vectors finalize_check_points looks at: those of the peers proven in pm
CpData(pm) == [p \in {q \in PeerNames : HasProof(pm[q])} |-> pf[p].cps]
CpOnlyChange(ps) == \A q \in PeerNames \ ps : pf'[q].cps = pf[q].cps

\* BlockFilterCheckPoints from p: [start, vals]; sentReq: the GetBlockFilterCheckPoints sent in reply
RecvCheckPoints(p, start, vals, sentReq) ==
    LET s == peer[p] IN
    /\ CpOnlyChange({p})
    /\ IF s.st = "None" \/ ~HasProof(s)
       THEN /\ out'.ban = {} /\ pf'[p].cps = pf[p].cps
       ELSE \E r \in {AddCheckPoints(pf[p].cps, Interval, Num(world, s.proved), start, vals)} :
            /\ pf'[p].cps = r.cps
            /\ out'.ban = IF r.ok THEN {} ELSE {p}
            /\ r.ok => (sentReq = IF NumberOfLast(r.cps, Interval) + 2 * Interval <= Num(world, s.proved)
                                      THEN {<<p, NumberOfLast(r.cps, Interval)>>} ELSE {})

\* the finalization at the end of the refresh tick; peer' is the peer map after the tick's requests
FinalizeStep ==
    \E fin \in FinalizeSet(cpFinal, CpData(peer'), Required) :
        /\ cpFinal' = fin.final
        /\ out'.ban = fin.ban
        /\ \A p \in PeerNames :
              pf'[p].cps = IF p \in DOMAIN fin.trim THEN TrimCps(pf[p].cps, fin.trim[p]) ELSE pf[p].cps
        /\ \A p \in DOMAIN fin.trim : fin.trim[p] > 0 => pf'[p].latest = <<(CpStart(pf'[p].cps)) * Interval, <<>> >>

\* C07: what became final in this step is backed by a quorum of the currently proven peers
CpQuorum == QuorumOk(cpFinal, cpFinal', CpData(peer'), Required)
CpAppendOnly == IsPrefix(cpFinal, cpFinal')

\* the check point tick of the filter protocol: asks every proven peer that can deliver more
CheckPointTickAsks ==
    {<<p, NumberOfLast(pf[p].cps, Interval)>> :
        p \in {q \in PeerNames : /\ HasProof(peer[q])
                                  /\ NumberOfLast(pf[q].cps, Interval) + 2 * Interval <= Num(world, peer[q].proved)}}

Ix == [cells |-> cells, hist |-> hist, txs |-> txs, hdrs |-> hdrs, nums |-> nums, hit |-> FALSE]
SetIx(ix) ==
    /\ cells' = ix.cells /\ hist' = ix.hist /\ txs' = ix.txs /\ hdrs' = ix.hdrs /\ nums' = ix.nums
IxUnchanged == UNCHANGED <<cells, hist, txs, hdrs, nums>>

Keys == {e[1] : e \in scripts}
NumOf(sk) == (CHOOSE e \in scripts : e[1] = sk)[2]
\* KF-C09-rollback-number: rollback_to_block(x) stores x as the block number of the rolled-back
\* scripts although block x itself was removed (MIN_FILTERED_NUMBER becomes x - 1).  With the
\* finding allowed, such a script is judged as filtered up to x - 1.
HonestNumOf(sk) ==
    IF "KF-C09-rollback-number" \in cfg.allow /\ sk \in over /\ NumOf(sk) > 0 THEN NumOf(sk) - 1 ELSE NumOf(sk)
SetMin(S) == CHOOSE x \in S : \A y \in S : x <= y

\* Storage::update_block_number(n): every script below n is raised to n
Raise(sc, n) == {<<e[1], IF e[2] < n THEN n ELSE e[2]>> : e \in sc}

RecBlocks(rec) == {<<rec[3][i][1], rec[3][i][2], FALSE>> : i \in 1..Len(rec[3])}

(***************************************************************************)
(* set_scripts (BlockFilterRpcImpl::set_scripts + update_filter_scripts)   *)
(*   list: sequence of <<sk, number>>                                      *)
(***************************************************************************)
RECURSIVE Upsert(_, _)
Upsert(sc, list) ==
    IF list = <<>> THEN sc
    ELSE Upsert({e \in sc : e[1] # Head(list)[1]} \cup {Head(list)}, Tail(list))

RECURSIVE UpsertFn(_, _)
UpsertFn(f, list) ==
    IF list = <<>> THEN f
    ELSE UpsertFn([x \in (DOMAIN f) \cup {Head(list)[1]} |-> IF x = Head(list)[1] THEN Head(list)[2] ELSE f[x]], Tail(list))

ListNums(list) == {list[i][2] : i \in 1..Len(list)}
ListKeys(list) == {list[i][1] : i \in 1..Len(list)}

\* pending matched records are discarded: the filters of their ranges are synced again
Rewind(m) == IF mdb = <<>> THEN m ELSE Min(m, IF mdb[1][1] = 0 THEN 0 ELSE mdb[1][1] - 1)

SetScripts(cmd, list) ==
    /\ UNCHANGED psCore
    /\ over' = IF cmd = "all" THEN {} ELSE over \ ListKeys(list)
    /\ UNCHANGED subst
    /\ UNCHANGED <<cpFinal, cached, pf, fetchH, fetchT>>
    /\ mmem' = {}                 \* the RPC clears the in-memory map in every case
    /\ IF cmd = "all"
       THEN /\ scripts' = Upsert({}, list)
            /\ startOf' = UpsertFn(<<>>, list)
            /\ minF' = Rewind(IF list = <<>> THEN minF ELSE SetMin(ListNums(list)))
            /\ mdb' = <<>>
            /\ IxUnchanged        \* genesis cells never belong to world scripts
       ELSE IF list = <<>>
       THEN UNCHANGED <<scripts, startOf, minF, mdb>> /\ IxUnchanged
       ELSE IF cmd = "partial"
       THEN /\ scripts' = Upsert(scripts, list)
            /\ startOf' = UpsertFn(startOf, list)
            /\ minF' = Rewind(IF scripts = {} THEN SetMin(ListNums(list))
                              ELSE Min(SetMin(ListNums(list)), minF))
            /\ mdb' = <<>>
            /\ IxUnchanged
       ELSE \* delete
            /\ scripts' = {e \in scripts : e[1] \notin ListKeys(list)}
            /\ startOf' = [x \in (DOMAIN startOf) \ ListKeys(list) |-> startOf[x]]
            /\ minF' = Rewind(minF)
            /\ mdb' = <<>>
            /\ IxUnchanged

(***************************************************************************)
(* BlockFilters                                                            *)
(*   m = [start, fs, hs]: fs[i] = block whose filter data is sent at       *)
(*   position i (0 = tampered bytes), hs[i] = the block hash sent with it  *)
(***************************************************************************)
\* get_latest_block_filter_hashes: agreed prefix of the proven peers' latest hashes
LatestOf(p) == pf[p].latest
ProvenWithLatest ==
    {p \in PeerNames : HasProof(peer[p]) /\ LatestOf(p)[1] = (Len(cpFinal) - 1) * Interval}

RECURSIVE Agree(_, _, _, _)
\* the SET of possible agreed prefixes: when two values reach the quorum with the same (maximal) count the
\* implementation takes whichever its hash map yields first
Agree(ps, idx, lenMax, acc) ==
    IF idx > lenMax THEN {acc}
    ELSE LET vals == {LatestOf(p)[2][idx] : p \in {q \in ps : Len(LatestOf(q)[2]) >= idx}}
             cnt(v) == Cardinality({p \in ps : Len(LatestOf(p)[2]) >= idx /\ LatestOf(p)[2][idx] = v})
             best == {v \in vals : \A u \in vals : cnt(u) <= cnt(v)}
         IN IF best = {} \/ \E v \in best : cnt(v) < Required THEN {acc}
            ELSE UNION {Agree(IF cnt(v) # Cardinality(ps)
                              THEN {p \in ps : Len(LatestOf(p)[2]) >= idx /\ LatestOf(p)[2][idx] = v} ELSE ps,
                              idx + 1, lenMax, Append(acc, v)) : v \in best}

SortedLens(ps) ==
    LET ls == {<<Len(LatestOf(p)[2]), p>> : p \in ps} IN ls

\* the required-th smallest length
LengthMax(ps) ==
    LET lens == [p \in ps |-> Len(LatestOf(p)[2])]
        cands == {n \in {lens[p] : p \in ps} :
                    /\ Cardinality({p \in ps : lens[p] < n}) < Required
                    /\ Cardinality({p \in ps : lens[p] <= n}) >= Required}
    IN IF cands = {} THEN 0 ELSE CHOOSE n \in cands : TRUE

LatestQuorums ==
    IF Cardinality(ProvenWithLatest) < Required THEN {<<>>}
    ELSE Agree(ProvenWithLatest, 1, LengthMax(ProvenWithLatest), <<>>)

\* [ok, parent, exp]: the parent filter hash and the expected hashes for a batch starting at `start`
Expected(start, lq) ==
    LET finalIdx == Len(cpFinal) - 1
        finalNum == finalIdx * Interval
    IN IF start <= finalNum
       THEN LET cNum == cached[1] * Interval IN
            IF start <= cNum \/ start > cNum + Interval \/ cached[2] = <<>>
            THEN [ok |-> FALSE, parent |-> 0, exp |-> <<>>]
            ELSE IF start = cNum + 1
            THEN [ok |-> TRUE, parent |-> cpFinal[cached[1] + 1], exp |-> cached[2]]
            ELSE LET si == start - cNum - 2 IN
                 IF si + 1 > Len(cached[2]) THEN [ok |-> FALSE, parent |-> 0, exp |-> <<>>]   \* ignored (the code indexed out of bounds here before fix dd499e4)
                 ELSE [ok |-> TRUE, parent |-> cached[2][si + 1],
                       exp |-> SubSeq(cached[2], si + 2, Len(cached[2]))]
       ELSE IF start = finalNum + 1
            THEN [ok |-> TRUE, parent |-> cpFinal[finalIdx + 1], exp |-> lq]
            ELSE LET si == start - finalNum - 2 IN
                 IF si >= Len(lq) THEN [ok |-> FALSE, parent |-> 0, exp |-> <<>>]
                 ELSE [ok |-> TRUE, parent |-> lq[si + 1], exp |-> SubSeq(lq, si + 2, Len(lq))]

(***************************************************************************)
(* BlockFilterHashes (BlockFilterHashesProcess + LatestBlockFilterHashes:: *)
(* update_latest_block_filter_hashes), transcribed.                        *)
(*   result: [res: "ok" | "ignore" | "ban", latest, cached]                *)
(***************************************************************************)
SeqFrom(s, i) == IF i > Len(s) THEN <<>> ELSE SubSeq(s, i, Len(s))      \* s[i..] (1-based)
\* the common part of two sequences agrees
ZipAgrees(a, b) == \A i \in 1..Min(Len(a), Len(b)) : a[i] = b[i]

UpdateLatest(lat, lastProved, finalNum, finalCp, start, parent, hs0) ==
    LET no(r) == [res |-> r, latest |-> lat] IN
    IF hs0 = <<>> THEN no("ban")
    ELSE IF finalNum >= lastProved \/ finalNum # lat[1] \/ start > lastProved THEN no("ignore")
    ELSE LET end0 == start + Len(hs0) - 1 IN
    IF finalNum >= end0 \/ start > lat[1] + Len(lat[2]) + 1 THEN no("ignore")
    ELSE LET hs == IF end0 > lastProved THEN SubSeq(hs0, 1, Len(hs0) - (end0 - lastProved)) ELSE hs0
             inner == lat[2]
             \* <<ok, start index into the old hashes, start index into the new ones>> (0-based)
             pos == IF start <= finalNum
                    THEN <<hs[finalNum - start + 1] = finalCp, 0, finalNum - start + 1>>
                    ELSE IF start = finalNum + 1 THEN <<parent = finalCp, 0, 0>>
                    ELSE <<inner[start - finalNum - 1] = parent, start - finalNum - 1, 0>>
         IN IF ~pos[1] THEN no("ban")
            ELSE IF ~ZipAgrees(SeqFrom(inner, pos[2] + 1), SeqFrom(hs, pos[3] + 1)) THEN no("ignore")
            ELSE LET idx == pos[3] + (Len(inner) - pos[2]) IN
                 [res |-> "ok", latest |-> <<lat[1], IF idx < Len(hs) THEN inner \o SeqFrom(hs, idx + 1) ELSE inner>>]

\* the cached hashes (below the last final check point)
UpdateCached(start, parent, hs) ==
    LET cNum == cached[1] * Interval
        nextNum == (cached[1] + 1) * Interval
        ch == cached[2]
        no(r) == [res |-> r, cached |-> cached]
    IN IF start > cNum + Len(ch) + 1 THEN no("ignore")
       ELSE LET cCp == cpFinal[cached[1] + 1]
                nextCp == cpFinal[cached[1] + 2]
                end == start + Len(hs) - 1
                offset == start - (cNum + 1)
            IN IF start = cNum + 1 /\ cCp # parent THEN no("ban")
               ELSE IF start # cNum + 1 /\ ch[start - cNum - 1] # parent THEN no("ignore")
               \* (since fix 99a691b of /repo also a response that ends exactly AT the next check point must end with its value)
               ELSE IF end >= nextNum /\ hs[Len(hs) - (end - nextNum)] # nextCp THEN no("ban")
               ELSE IF ~ZipAgrees(SeqFrom(ch, offset + 1), hs) THEN no("ignore")
               ELSE LET startIndex == Len(ch) - offset
                        newSize == IF end > nextNum THEN Len(hs) - (end - nextNum) ELSE Len(hs)
                    IN [res |-> "ok",
                        cached |-> <<cached[1], IF startIndex < newSize THEN ch \o SubSeq(hs, startIndex + 1, newSize) ELSE ch>>]

\* m = [start, parent, hs]
RecvFilterHashes(p, m) ==
    LET s == peer[p]
        finalNum == (Len(cpFinal) - 1) * Interval
        cNum == cached[1] * Interval
        nextNum == (cached[1] + 1) * Interval
        same == /\ out'.ban = {} /\ cached' = cached /\ pf'[p].latest = pf[p].latest
    IN
    /\ \A q \in PeerNames \ {p} : pf'[q].latest = pf[q].latest
    /\ IF s.st = "None" \/ ~HasProof(s) THEN same
       ELSE IF m.hs = <<>> /\ ~(m.start > finalNum) /\ ~(m.start <= finalNum /\ cNum < m.start /\ m.start <= nextNum) THEN same
       ELSE IF m.start <= finalNum /\ cNum < m.start /\ m.start <= nextNum
       THEN \E r \in {UpdateCached(m.start, m.parent, m.hs)} :
              /\ cached' = r.cached /\ pf'[p].latest = pf[p].latest
              /\ out'.ban = IF r.res = "ban" THEN {p} ELSE {}
       ELSE IF m.start > finalNum
       THEN \E r \in {UpdateLatest(pf[p].latest, Num(world, s.proved), finalNum, cpFinal[Len(cpFinal)], m.start, m.parent, m.hs)} :
              /\ pf'[p].latest = r.latest /\ cached' = cached
              /\ out'.ban = IF r.res = "ban" THEN {p} ELSE {}
       ELSE same

\* Peers::update_min_filtered_block_number: the cached hashes belong to the check point interval the filter
\* sync is in; they are dropped when it moves to another interval
Recache(c, m) == IF c[1] # m \div Interval THEN <<m \div Interval, <<>> >> ELSE c

\* could_request_more_block_filters(final index, m), on the state after the step
CouldRequestMore(m) ==
    LET should == m \div Interval
        finalIdx == Len(cpFinal') - 1
    IN IF should >= finalIdx
       THEN \E lq \in LatestQuorums : finalIdx * Interval + Len(lq) >= m + 1
       ELSE cached'[1] = should /\ Len(cached'[2]) = Interval

\* GET_BLOCK_FILTERS tick (try_send_get_block_filters(immediately = FALSE)): the SET of possible requests
\* <<peer, start>>.  The request goes to a proven peer of maximal total difficulty; with a matched record in the
\* store only when the in-memory map was empty (it is recovered by this tick); otherwise only when the last
\* request is old enough (elapsed).  Evaluated on a step that leaves cpFinal, cached and pf unchanged.
FiltersTickAsks(elapsed) ==
    LET proven == {p \in PeerNames : HasProof(peer[p])}
        best == {p \in proven : \A q \in proven : Td(world, peer[q].proved) <= Td(world, peer[p].proved)}
        want == IF mdb # <<>> THEN mmem = {} /\ CouldRequestMore(minF)
                ELSE scripts # {} /\ elapsed /\ CouldRequestMore(minF)
    IN IF proven = {} \/ ~want THEN {{}} ELSE {{<<p, minF + 1>>} : p \in best}

\* GET_BLOCK_FILTER_HASHES tick (try_send_get_block_filter_hashes): the cached hashes follow the filter position
\* (Recache); while they are incomplete and below the final check point one proven peer whose check point
\* vector starts at or above the final index is asked (random choice) for the next missing hash; once the
\* position is in the last, unfinalized stretch every proven peer whose latest hashes start at the final check
\* point and end less than two intervals below its proved number is asked for more
HashesTickAsks ==
    LET fin == Len(cpFinal) - 1
        c == Recache(cached, minF)
    IN IF c[1] < fin /\ Len(c[2]) < Interval
       THEN LET best == {p \in PeerNames : HasProof(peer[p]) /\ CpStart(pf[p].cps) >= fin} IN
            IF best = {} THEN {{}} ELSE {{<<p, c[1] * Interval + Len(c[2]) + 1>>} : p \in best}
       ELSE IF c[1] >= fin
       THEN {{<<p, LatestOf(p)[1] + Len(LatestOf(p)[2]) + 1>> :
                p \in {q \in PeerNames :
                         /\ HasProof(peer[q]) /\ LatestOf(q)[1] = fin * Interval
                         /\ \E last \in {LatestOf(q)[1] + Len(LatestOf(q)[2])} :
                               /\ last < Num(world, peer[q].proved)
                               /\ Num(world, peer[q].proved) - last < 2 * Interval}}}
       ELSE {{}}

\* chained hash: filter data of block f on top of parent hash `par` gives fid f iff par is fid of f's parent
ChainHash(par, f) == IF f # 0 /\ Par(world, f) = par THEN f ELSE -1

RECURSIVE ChainOk(_, _, _, _)
ChainOk(par, fs, exp, limit) ==
    IF limit = 0 THEN TRUE
    ELSE LET h == ChainHash(par, Head(fs)) IN
         h = Head(exp) /\ h # -1 /\ ChainOk(h, Tail(fs), Tail(exp), limit - 1)

\* does block b touch script key sk (an output with it, or an input spending a cell with it)
TouchKeys(b) ==
    UNION {UNION {OutScriptKeys(TxOf(world, t).outs[o]) : o \in 1..Len(TxOf(world, t).outs)}
           \cup UNION {IF TxOf(world, t).ins[i][1] = 0 THEN {}
                       ELSE OutScriptKeys(TxOf(world, TxOf(world, t).ins[i][1]).outs[TxOf(world, t).ins[i][2] + 1])
                       : i \in 1..Len(TxOf(world, t).ins)}
           : t \in {world.btx[b][k] : k \in 1..Len(world.btx[b])}}
\* the filter holds script HASHES: lock and type use of the same script are indistinguishable
Unkey(ks) == {k \div 2 : k \in ks}

RecvFilters(p, m) ==
    LET s == peer[p]
        n == Len(m.fs)
    IN
    /\ UNCHANGED <<world, cfg, now, peer, tip, tipTD, lastN>>
    /\ UNCHANGED <<startOf, cpFinal>>
    /\ IF scripts = {} \/ s.st = "None" \/ ~HasProof(s)
       THEN /\ out'.ban = {} /\ UNCHANGED <<scripts, minF, mdb, mmem>> /\ IxUnchanged
       ELSE IF minF + 1 # m.start
       THEN \* not the expected batch: only the "finished" bookkeeping
            /\ out'.ban = {}
            /\ scripts' = IF mdb = <<>> THEN Raise(scripts, minF) ELSE scripts
            /\ UNCHANGED <<minF, mdb, mmem>> /\ IxUnchanged
       ELSE IF Len(m.fs) # Len(m.hs)
       THEN /\ out'.ban = {p} /\ UNCHANGED <<scripts, minF, mdb, mmem>> /\ IxUnchanged
       ELSE IF n = 0
       THEN /\ out'.ban = {} /\ UNCHANGED <<scripts, minF, mdb, mmem>> /\ IxUnchanged
       ELSE \E e \in {Expected(m.start, lq) : lq \in LatestQuorums} :
            IF ~e.ok
            THEN /\ out'.ban = {} /\ UNCHANGED <<scripts, minF, mdb, mmem>> /\ IxUnchanged
            ELSE LET limit == Min(n, Len(e.exp)) IN
                 IF ~ChainOk(e.parent, m.fs, e.exp, limit)
                 THEN \* BlockFilterDataIsUnexpected
                      /\ out'.ban = {p} /\ UNCHANGED <<scripts, minF, mdb, mmem>> /\ IxUnchanged
                 ELSE
                 LET active == Unkey({k \in Keys : NumOf(k) < m.start + limit})
                     must == {i \in 1..limit : Unkey(TouchKeys(m.fs[i])) \cap active # {}}
                     newF == m.start - 1 + limit
                 IN
                 /\ out'.ban = {}
                 /\ minF' = newF
                 /\ IxUnchanged
                 /\ IF limit = 0
                    THEN UNCHANGED <<mdb, mmem>> /\ scripts' = IF mmem = {} /\ mdb = <<>> THEN Raise(scripts, newF) ELSE scripts
                    ELSE
                    \* the matched positions: a superset of `must` (Golomb filters have false positives)
                    \/ /\ mdb' = mdb /\ must = {}
                       /\ scripts' = IF mmem = {} /\ mdb = <<>> THEN Raise(scripts, newF) ELSE scripts
                       /\ UNCHANGED mmem
                    \/ /\ Len(mdb') = Len(mdb) + 1
                       /\ \E at \in 1..Len(mdb') :
                            LET rec == mdb'[at] IN
                            /\ rec[1] = m.start /\ rec[2] = limit
                            /\ [i \in 1..(Len(mdb') - 1) |-> IF i < at THEN mdb'[i] ELSE mdb'[i + 1]] = mdb
                            /\ \E pos \in SUBSET (1..limit) :
                                 /\ must \subseteq pos /\ pos # {}
                                 /\ Len(rec[3]) = Cardinality(pos)
                                 /\ {rec[3][j][1] : j \in 1..Len(rec[3])} = {m.hs[i] : i \in pos}
                                 /\ \A j \in 1..Len(rec[3]) : rec[3][j][2] = (rec[3][j][1] = s.proved)
                       /\ UNCHANGED scripts
                       /\ mmem' = IF mmem = {} THEN RecBlocks(mdb'[1]) ELSE mmem
                    \* a record with the same start number is already in the store (the process died between the
                    \* record's put and the progress put, and the batch is processed again): the put replaces it
                    \/ /\ Len(mdb') = Len(mdb)
                       /\ \E at \in 1..Len(mdb) :
                            LET rec == mdb'[at] IN
                            /\ mdb[at][1] = m.start
                            /\ rec[1] = m.start /\ rec[2] = limit
                            /\ \A i \in 1..Len(mdb) : i # at => mdb'[i] = mdb[i]
                            /\ \E pos \in SUBSET (1..limit) :
                                 /\ must \subseteq pos /\ pos # {}
                                 /\ Len(rec[3]) = Cardinality(pos)
                                 /\ {rec[3][j][1] : j \in 1..Len(rec[3])} = {m.hs[i] : i \in pos}
                                 /\ \A j \in 1..Len(rec[3]) : rec[3][j][2] = (rec[3][j][1] = s.proved)
                       /\ UNCHANGED scripts
                       /\ mmem' = IF mmem = {} THEN RecBlocks(mdb'[1]) ELSE mmem
    \* (history variables last: they are functions of the new state)
    \* a script whose number is raised (or confirmed: number <= the new filtered number while nothing is
    \* pending) by update_block_number no longer over-claims
    /\ over' = IF scripts' # scripts \/ (mdb' = <<>> /\ mmem' = {} /\ minF' # minF)
               THEN {k \in over : \E e \in scripts' : e[1] = k /\ e[2] > minF'} ELSE over
    \* blocks that enter a matched record although the filter at their position belongs to another block
    /\ subst' = subst \cup (IF Len(mdb') > Len(mdb) /\ Len(m.fs) = Len(m.hs)
                            THEN {m.hs[i] : i \in {j \in 1..Len(m.hs) : m.hs[j] # m.fs[j]}}
                                 \cap (UNION {{mdb'[i][3][j][1] : j \in 1..Len(mdb'[i][3])} : i \in 1..Len(mdb')})
                            ELSE {})
                     \* KF-C06-foreign-branch: accepted filters that belong to blocks of another branch than the client's
                     \* proven one (the peers that supplied the hashes moved on; filter hashes are not bound to the
                     \* proven chain), remembered as ForeignBase + block
                     \cup (IF minF' > minF /\ minF + 1 = m.start
                           THEN {ForeignBase + m.fs[i] : i \in {j \in 1..Min(minF' - minF, Len(m.fs)) :
                                     m.fs[j] >= 1 /\ m.fs[j] # AncAt(world, tip, m.start + j - 1)}}
                           ELSE {})

(***************************************************************************)
(* SendBlocksProof for matched blocks (the fetch part is in module Fetch)  *)
(*   m = [ok, found]: ok = the answer passes every check; found: blocks    *)
(***************************************************************************)
RecvBlocksProofMatched(p, m) ==
    /\ UNCHANGED <<world, cfg, now, tip, tipTD, lastN>>
    /\ UNCHANGED <<scripts, startOf, minF, mdb, cpFinal, cached>>
    /\ IF m.ok /\ m.get
       THEN mmem' = {<<e[1], e[2] \/ e[1] \in m.found, e[3]>> : e \in mmem}
       ELSE UNCHANGED mmem

(***************************************************************************)
(* SendBlock                                                               *)
(***************************************************************************)
RECURSIVE SortByNum(_)
SortByNum(S) ==
    IF S = {} THEN <<>>
    ELSE LET b == CHOOSE x \in S : \A y \in S : Num(world, x) <= Num(world, y) IN
         <<b>> \o SortByNum(S \ {b})

\* body: "true" = the block of the world, "forged" = a body that is not the header's
RecvBlock(p, b, body) ==
    IF body # "true"
    THEN \* the body does not match the (proved) header: ban, the block is ignored
         /\ out'.ban = {p}
         /\ UNCHANGED <<world, cfg, now, peer, tip, tipTD, lastN>>
         /\ UNCHANGED <<scripts, startOf, minF, mdb, mmem, cpFinal, cached, over, subst>> /\ IxUnchanged
    ELSE
    /\ UNCHANGED subst
    /\ UNCHANGED <<world, cfg, now, peer, tip, tipTD, lastN>>
    /\ UNCHANGED <<startOf, minF, cpFinal, cached>>
    /\ out'.ban = {}
    /\ LET hit == {e \in mmem : e[1] = b /\ e[2]}
           m1 == (mmem \ hit) \cup {<<e[1], e[2], TRUE>> : e \in hit}
       IN IF m1 # {} /\ \A e \in m1 : e[3]
          THEN \* all matched blocks of the earliest record arrived: index them in number order
               /\ mdb # <<>>
               /\ LET rec == mdb[1]
                      ix == FilterBlocks(world, Ix, SortByNum({e[1] : e \in m1}), scripts)
                  IN /\ body = "true"
                     /\ {e[1] : e \in m1} = {rec[3][i][1] : i \in 1..Len(rec[3])}
                     /\ SetIx(ix)
                     /\ scripts' = Raise(scripts, rec[1] + rec[2] - 1)
                     /\ mdb' = Tail(mdb)
                     /\ mmem' = IF Tail(mdb) = <<>> THEN {} ELSE RecBlocks(mdb[2])
          ELSE /\ mmem' = m1 /\ UNCHANGED <<scripts, mdb>> /\ IxUnchanged
    /\ over' = IF mdb' # mdb THEN {k \in over : NumOf(k) > mdb[1][1] + mdb[1][2] - 1} ELSE over

(***************************************************************************)
(* Ticks that touch mmem: recovery of the earliest record after a restart  *)
(***************************************************************************)
FilterTick0 ==
    /\ UNCHANGED psCore /\ UNCHANGED <<over, subst, fetchH, fetchT>>
    /\ UNCHANGED <<scripts, startOf, minF, mdb, cpFinal>> /\ IxUnchanged
    /\ mmem' = IF mdb # <<>> /\ mmem = {} /\ \E p \in PeerNames : HasProof(peer[p])
               THEN RecBlocks(mdb[1]) ELSE mmem

(***************************************************************************)
(* Fork handling of commit_prove_state (a step of RecvProof): given the    *)
(* tip change decided by PeerSync, what happens to the pipeline            *)
(***************************************************************************)
\* records with start > f are dropped; the first kept one (scanning from the latest) decides the target.
\* KF-C04-spanning-record: a kept record may start at or before the fork block f and reach beyond it; it then
\* holds hashes of the abandoned branch (see MatchedAtRightHeight)
RECURSIVE KeepUpTo(_, _)
KeepUpTo(recs, f) ==
    IF recs = <<>> THEN <<>>
    ELSE IF recs[Len(recs)][1] > f THEN KeepUpTo(SubSeq(recs, 1, Len(recs) - 1), f)
    ELSE recs

\* rollback_to_fork_number: the blocks after the fork number f are removed; when the latest kept record reaches
\* beyond f (KF-C04-spanning-record) everything after its start.  A kept record that ends at or below f holds
\* blocks of the common chain only and changes nothing (before fix 10f415f of /repo the target was its start + 1 in
\* that case too: scripts above it were lowered into the record's range and raised again, over blocks that had
\* been rolled back for them, when the record's blocks arrived)
RollbackTarget(kept, f) ==
    IF kept # <<>> /\ kept[Len(kept)][1] + kept[Len(kept)][2] > f + 1 THEN kept[Len(kept)][1] + 1 ELSE f + 1

RolledKeys(x) == {k \in Keys : NumOf(k) >= x}

RollbackTo(x) ==
    \* the history of every registered script is scanned (entries above a script's own number exist
    \* when the process died between filter_block and update_block_number)
    LET R == Keys
        ix == Rollback(world, Ix, x, R)
    IN /\ SetIx(ix)
       /\ scripts' = {<<e[1], IF e[2] >= x THEN x ELSE e[2]>> : e \in scripts}
       /\ minF' = IF minF >= x THEN (IF x = 0 THEN 0 ELSE x - 1) ELSE minF

\* rg / nl: reorg section and last-N headers of the prove state of an accepted proof that makes
\* the tip heavier (tipMoves); the decision is PeerSync!ForkDecision, evaluated in the PRE state
CommitEffects(rg, nl, tipMoves) ==
    IF ~tipMoves THEN UNCHANGED <<scripts, minF, mdb, mmem, over>> /\ IxUnchanged
    ELSE LET fd == ForkDecision(rg, nl) IN
         IF fd.kind = "one"
         THEN /\ mdb' = SelectSeq(mdb, LAMBDA r : r[1] = 0)
              /\ mmem' = {}
              /\ RollbackTo(1) /\ over' = over \cup RolledKeys(1)
         ELSE IF fd.kind = "to"
         THEN LET kept == KeepUpTo(mdb, fd.f)
                  x == RollbackTarget(kept, fd.f)
              IN /\ mdb' = kept /\ mmem' = {} /\ RollbackTo(x) /\ over' = over \cup RolledKeys(x)
         ELSE UNCHANGED <<scripts, minF, mdb, mmem, over>> /\ IxUnchanged

(***************************************************************************)
(* fetch_header / fetch_transaction bookkeeping (Peers fetching maps) and   *)
(* answers SendBlocksProof / SendTransactionsProof for them                 *)
(***************************************************************************)
Entry(S, id) == {e \in S : e[1] = id}
NewEntry(id) == <<id, now, -1, FALSE, FALSE>>

\* status the RPC computes from a fetch table S for `id` (when the data is not stored yet)
FetchStatusOf(S, id) ==
    IF Entry(S, id) = {} THEN "added"
    ELSE LET e == CHOOSE x \in Entry(S, id) : TRUE IN
         IF e[5] THEN "not_found" ELSE IF e[3] # -1 THEN "fetching" ELSE "added"

\* the table after the call: a missing entry is re-added, an unknown one added
AfterFetchCall(S, id) ==
    IF Entry(S, id) = {} THEN S \cup {NewEntry(id)}
    ELSE LET e == CHOOSE x \in Entry(S, id) : TRUE IN
         IF e[5] THEN (S \ {e}) \cup {NewEntry(id)} ELSE S

\* get_transaction_with_header: the block a stored transaction is reported in (via its NUMBER)
ReportedBlockOf(t) ==
    LET e == CHOOSE x \in StoredTx(Ix, t) : TRUE
        bs == {n[2] : n \in {m \in nums : m[1] = e[2]}}
    IN IF bs = {} THEN 0 ELSE CHOOSE b \in bs : TRUE

\* fetch_transaction(t): [status, blk]
RpcFetchTx(t, status, blk) ==
    /\ UNCHANGED psCore /\ UNCHANGED <<over, subst>>
    /\ UNCHANGED <<scripts, startOf, minF, mdb, mmem, cpFinal, cached, pf, fetchH>> /\ IxUnchanged
    /\ IF StoredTx(Ix, t) # {}
       THEN /\ status = "committed" /\ blk = ReportedBlockOf(t) /\ UNCHANGED fetchT
       ELSE /\ status = FetchStatusOf(fetchT, t) /\ fetchT' = AfterFetchCall(fetchT, t)

RpcGetTx(t, status, blk) ==
    /\ UNCHANGED psCore /\ UNCHANGED <<over, subst>>
    /\ UNCHANGED <<scripts, startOf, minF, mdb, mmem, cpFinal, cached, pf, fetchH, fetchT>> /\ IxUnchanged
    /\ IF StoredTx(Ix, t) # {}
       THEN status = "committed" /\ blk = ReportedBlockOf(t)
       ELSE status = "unknown"

RpcFetchHeader(b, status) ==
    /\ UNCHANGED psCore /\ UNCHANGED <<over, subst>>
    /\ UNCHANGED <<scripts, startOf, minF, mdb, mmem, cpFinal, cached, pf, fetchT>> /\ IxUnchanged
    /\ IF b \in hdrs
       THEN status = "fetched" /\ UNCHANGED fetchH
       ELSE status = FetchStatusOf(fetchH, b) /\ fetchH' = AfterFetchCall(fetchH, b)

\* peers whose prove state contains the stored tip header
BestPeers ==
    {p \in PeerNames : HasProof(peer[p]) /\
        (peer[p].proved = tip \/ tip \in Range(peer[p].pLastN) \/ tip \in Range(peer[p].pReorg))}

ToFetch(S) == {e \in S : e[3] = -1 \/ e[4]}
MarkSent(S, ids) == {IF e[1] \in ids THEN <<e[1], e[2], IF e[3] = -1 THEN now ELSE e[3], FALSE, e[5]>> ELSE e : e \in S}
MarkTimeout(S, ids) == {IF e[1] \in ids THEN <<e[1], e[2], e[3], TRUE, e[5]>> ELSE e : e \in S}
MarkMissing(S, ids) == {IF e[1] \in ids THEN <<e[1], e[2], e[3], e[4], TRUE>> ELSE e : e \in S}
Without(S, ids) == {e \in S : e[1] \notin ids}

\* fetch_headers_txs: entries never sent or timed out go to an idle best peer
FetchTick ==
    /\ UNCHANGED psCore /\ UNCHANGED <<over, subst>>
    /\ UNCHANGED <<scripts, startOf, minF, mdb, mmem, cpFinal, cached>> /\ IxUnchanged
    /\ IF (fetchH = {} /\ fetchT = {}) \/ BestPeers = {}
       THEN UNCHANGED <<fetchH, fetchT>>
       ELSE /\ fetchH' = IF ToFetch(fetchH) # {} /\ \E p \in BestPeers : ~pf[p].bpr.on
                         THEN MarkSent(fetchH, {e[1] : e \in ToFetch(fetchH)}) ELSE fetchH
            /\ fetchT' = IF ToFetch(fetchT) # {} /\ \E p \in BestPeers : ~pf[p].tpr.on
                         THEN MarkSent(fetchT, {e[1] : e \in ToFetch(fetchT)}) ELSE fetchT

\* the request side of the fetch tick (which peer holds which request afterwards): everything that was never sent
\* or has timed out goes, one request per kind, to ONE best peer whose slot of that kind is free; nothing else
\* changes.  (Chunks of GET_BLOCKS_PROOF_LIMIT = 1000 hashes are not modelled.)  Relational: MC_Fetch generates
\* the outcomes, the trace specification checks the logged one.
FetchTickReqRel ==
    LET go == ~(fetchH = {} /\ fetchT = {}) /\ BestPeers # {}
        hids == {e[1] : e \in ToFetch(fetchH)}
        tids == {e[1] : e \in ToFetch(fetchT)}
        idleB == {p \in BestPeers : ~pf[p].bpr.on}
        idleT == {p \in BestPeers : ~pf[p].tpr.on}
    IN /\ IF go /\ hids # {} /\ idleB # {}
          THEN \E p \in idleB : /\ pf'[p].bpr.on /\ pf'[p].bpr.last = tip /\ ~pf'[p].bpr.get
                                /\ Range(pf'[p].bpr.hs) = hids
                                /\ \A q \in PeerNames \ {p} : pf'[q].bpr = pf[q].bpr
          ELSE \A q \in PeerNames : pf'[q].bpr = pf[q].bpr
       /\ IF go /\ tids # {} /\ idleT # {}
          THEN \E p \in idleT : /\ pf'[p].tpr.on /\ pf'[p].tpr.last = tip
                                /\ Range(pf'[p].tpr.hs) = tids
                                /\ \A q \in PeerNames \ {p} : pf'[q].tpr = pf[q].tpr
          ELSE \A q \in PeerNames : pf'[q].tpr = pf[q].tpr
       /\ \A q \in PeerNames : pf'[q].cps = pf[q].cps /\ pf'[q].latest = pf[q].latest /\ pf'[q].br = pf[q].br

\* what remove_peer / a refresh timeout does for peer p's outstanding fetch requests
TimeoutPeers(ps) ==
    /\ fetchH' = MarkTimeout(fetchH, UNION {IF pf[p].bpr.on THEN Range(pf[p].bpr.hs) ELSE {} : p \in ps})
    /\ fetchT' = MarkTimeout(fetchT, UNION {IF pf[p].tpr.on THEN Range(pf[p].tpr.hs) ELSE {} : p \in ps})

\* peers whose blocks-proof / blocks / txs-proof request is overdue (refresh_all_peers)
RequestTimeouts ==
    {p \in PeerNames : \/ pf[p].bpr.on /\ now > pf[p].bpr.when + MsgTimeout
                       \/ pf[p].br.on /\ now > pf[p].br.when + MsgTimeout
                       \/ pf[p].tpr.on /\ now > pf[p].tpr.when + MsgTimeout}

\* honest SendTransactionsProof for the request tpr of peer p; onChain: the server knows the last hash
TxsProofEffects(p, onChain, serverTip) ==
    LET tpr == pf[p].tpr IN
    IF ~tpr.on THEN /\ out'.ban = {p} /\ UNCHANGED <<fetchH, fetchT, peer>> /\ IxUnchanged
    ELSE IF ~onChain
    THEN /\ out'.ban = {}
         /\ peer' = [peer EXCEPT ![p] = ReceiveLastState(peer[p], serverTip, now).s]
         /\ fetchT' = MarkTimeout(fetchT, Range(tpr.hs)) /\ UNCHANGED fetchH /\ IxUnchanged
    ELSE LET req == Range(tpr.hs)
             found == {t \in req : t >= 1 /\ IsAnc(world, TxOf(world, t).b, tpr.last)
                                         /\ Num(world, TxOf(world, t).b) < Num(world, tpr.last)}
             got == {t \in found : Entry(fetchT, t) # {}}
         IN /\ out'.ban = {} /\ UNCHANGED peer
            /\ fetchT' = MarkMissing(Without(fetchT, got), req \ found)
            /\ fetchH' = Without(fetchH, {TxOf(world, t).b : t \in got})
            \* the position of a transaction stored by filter_block (index # -1) is kept
            /\ LET keep == {t \in got : \E e \in StoredTx(Ix, t) : e[3] # -1} IN
               txs' = {e \in txs : e[1] \notin (got \ keep)}
                      \cup {<<t, Num(world, TxOf(world, t).b), -1>> : t \in got \ keep}
            /\ hdrs' = hdrs \cup {TxOf(world, t).b : t \in got}
            /\ \A t \in got : <<Num(world, TxOf(world, t).b), TxOf(world, t).b>> \in nums'
            /\ \A e \in nums' : e \in nums \/ \E t \in got : e = <<Num(world, TxOf(world, t).b), TxOf(world, t).b>>
            /\ \A e \in nums : e \in nums' \/ \E t \in got : e[1] = Num(world, TxOf(world, t).b)
            /\ UNCHANGED <<cells, hist>>

\* the fetch_header part of an honest SendBlocksProof
HeaderFetchEffects(found, missing) ==
    LET got == {b \in found : Entry(fetchH, b) # {}} IN
    /\ fetchH' = MarkMissing(Without(fetchH, got), missing)
    /\ UNCHANGED fetchT
    /\ hdrs' = hdrs \cup got
    /\ \A b \in got : <<Num(world, b), b>> \in nums'
    /\ \A e \in nums' : e \in nums \/ \E b \in got : e = <<Num(world, b), b>>
    /\ \A e \in nums : e \in nums' \/ \E b \in got : e[1] = Num(world, b)
    /\ UNCHANGED <<cells, hist, txs>>

(***************************************************************************)
(* Invariants (evaluated on every logged state)                            *)
(***************************************************************************)
\* C02: nothing that is not a world object is ever stored
NoForgedData ==
    /\ \A c \in cells : c[5] >= 1
    /\ \A h \in hist : h[6] >= 1
    /\ \A t \in txs : t[1] >= 1
    /\ \A b \in hdrs : b >= 1
    /\ \A e \in nums : e[2] >= 1

\* C03/C04: every live cell of a registered script is an output of the canonical chain, at its
\* true position, and not spent on the canonical chain at or below the script's filtered height
\* (values are bound with \E x \in {e} so that TLC evaluates them once)
CellsSound ==
    \E ch \in {Chain(world, tip)} :
    \E spent \in {[k \in Keys |-> SpentOn(world, ch, HonestNumOf(k))]} :
      \A c \in cells : c[1] \in Keys =>
        /\ OnCanon(world, ch, c[5], c[2], c[3])
        /\ c[4] < Len(TxOf(world, c[5]).outs)
        /\ c[1] \in OutScriptKeys(TxOf(world, c[5]).outs[c[4] + 1])
        /\ \/ <<c[5], c[4]>> \notin spent[c[1]]
           \* KF-C03-stale-before-start: set_scripts moved the script to a later start number; cells indexed
           \* earlier and spent in the skipped blocks (at or below the new start) stay in the index as live
           \/ /\ "KF-C03-stale-before-start" \in cfg.allow
              /\ c[1] \in DOMAIN startOf /\ <<c[5], c[4]>> \in SpentOn(world, ch, startOf[c[1]])
              /\ (TLCGet(43) = 0 => TLCSet(43, 1) /\ PrintT(<<"KNOWN-FINDING", "KF-C03-stale-before-start", c, startOf[c[1]]>>))

\* C04: history entries of registered scripts belong to the canonical chain
HistOnCanon ==
    \E ch \in {Chain(world, tip)} :
      \A h \in hist : h[1] \in Keys => OnCanon(world, ch, h[6], h[2], h[3])

\* C06: matched-block records name canonical blocks inside their own range
MatchedAtRightHeight ==
    \A i \in 1..Len(mdb) : \A j \in 1..Len(mdb[i][3]) :
        LET b == mdb[i][3][j][1] IN
        \/ "KF-C06-blockhash" \in cfg.allow /\ b \in subst /\ b >= -1
        \* KF-C06-foreign-branch: the block's filter was accepted for a height where the proven chain has another block
        \/ "KF-C06-foreign-branch" \in cfg.allow /\ b >= 1 /\ (ForeignBase + b) \in subst
        \* KF-C04-spanning-record: the record was pending when the chain forked inside its range and was kept; its
        \* blocks of the abandoned branch are remembered (as -(b + 1)) in the history variable subst
        \/ /\ "KF-C04-spanning-record" \in cfg.allow /\ b >= 1 /\ (0 - b - 1) \in subst
           /\ (TLCGet(44) = 0 => TLCSet(44, 1) /\ PrintT(<<"KNOWN-FINDING", "KF-C04-spanning-record", mdb[i], b>>))
        \/ /\ b >= 1
           /\ mdb[i][1] <= Num(world, b) /\ Num(world, b) < mdb[i][1] + mdb[i][2]
           /\ IsAnc(world, b, tip)

\* C06/C03: every accepted filter belongs to the block the proven chain has at that height
FiltersOfOwnChain ==
    \A x \in subst : x >= ForeignBase =>
        /\ "KF-C06-foreign-branch" \in cfg.allow
        /\ (TLCGet(45) = 0 => TLCSet(45, 1) /\ PrintT(<<"KNOWN-FINDING", "KF-C06-foreign-branch", x - ForeignBase, tip>>))

\* blocks whose filters have been processed but which are still waiting in a matched record
Pending == UNION {{mdb[i][3][j][1] : j \in 1..Len(mdb[i][3])} : i \in 1..Len(mdb)}

\* C09: get_scripts never reports a script as filtered up to a height while a canonical block
\* at or below that height (and above the script's own start) that creates a cell of it is not indexed
ScriptsNumberHonest ==
    \E ch \in {Chain(world, tip)} :
    \E outs \in {{<<h[1], h[2], h[3], h[4], h[6]>> : h \in {g \in hist : g[5] = 1}}} :
      \A sk \in Keys :
        sk \in DOMAIN startOf => CreatedOn(world, ch, sk, startOf[sk], HonestNumOf(sk)) \subseteq outs

\* C03 at quiescence: live cells and history are complete for every registered script
Complete ==
    \E ch \in {Chain(world, tip)} :
    \E spent \in {SpentOn(world, ch, Num(world, tip))} :
    \E outs \in {{<<h[1], h[2], h[3], h[4], h[6]>> : h \in {g \in hist : g[5] = 1}}} :
      \A sk \in Keys :
        sk \in DOMAIN startOf =>
        \E created \in {CreatedOn(world, ch, sk, startOf[sk], Num(world, tip))} :
           /\ {c \in created : <<c[5], c[4]>> \notin spent} \subseteq cells
           /\ created \subseteq outs

\* C16: a request that has been sent, is not timed out and not reported missing is held by some peer
NoOrphanFetch ==
    /\ \A e \in fetchH : (e[3] # -1 /\ ~e[4] /\ ~e[5]) =>
            \E p \in PeerNames : pf[p].bpr.on /\ e[1] \in Range(pf[p].bpr.hs)
    /\ \A e \in fetchT : (e[3] # -1 /\ ~e[4] /\ ~e[5]) =>
            \E p \in PeerNames : pf[p].tpr.on /\ e[1] \in Range(pf[p].tpr.hs)

\* C16: whenever a transaction is reported committed in block b: b's header is stored and b contains it
FetchedTruthful ==
    \A e \in txs : e[1] >= 1 =>
        LET bs == {n[2] : n \in {m \in nums : m[1] = e[2]}} IN
        /\ bs # {}
        /\ \A b \in bs : /\ b \in hdrs /\ b >= 1
                          /\ \/ TxOf(world, e[1]).b = b
                             \* KF-C16-txheight: transactions are tied to their block by NUMBER; when another
                             \* block takes that number (fork switch, header of another branch fetched) the
                             \* transaction is reported as committed in that other block
                             \/ /\ "KF-C16-txheight" \in cfg.allow
                                /\ Num(world, b) = Num(world, TxOf(world, e[1]).b)

\* the invariants that only depend on index, scripts and tip (re-evaluated when one of them changes)
IndexInv == CellsSound /\ HistOnCanon /\ ScriptsNumberHonest

\* once a substituted block hash was accepted (KF-C06-blockhash) the rest of the scenario cannot be complete
Tainted == \/ "KF-C06-blockhash" \in cfg.allow /\ \E x \in subst : x >= -1 /\ x < ForeignBase
           \/ "KF-C06-foreign-branch" \in cfg.allow /\ \E x \in subst : x >= ForeignBase
           \/ "KF-C04-spanning-record" \in cfg.allow /\ \E x \in subst : x <= -2

\* the blocks of the abandoned branch that stay in kept matched-block records when the tip changes branch
\* ... and the marker 0 - ForeignBase when the RANGE of a kept record reaches beyond the fork block (even if the
\* matched blocks themselves are common ancestors): when its blocks arrive the scripts are raised to the end of
\* the range, over blocks of the new branch that have not been filtered
SpanKept ==
    IF tip' = tip \/ IsAnc(world, tip, tip') THEN {}
    ELSE {0 - b - 1 : b \in {x \in UNION {{mdb'[i][3][j][1] : j \in 1..Len(mdb'[i][3])} : i \in 1..Len(mdb')} :
                            x >= 1 /\ ~IsAnc(world, x, tip')}}
         \cup (IF \E i \in 1..Len(mdb') : mdb'[i][1] + mdb'[i][2] - 1 > Num(world, CommonAnc(world, tip, tip'))
               THEN {0 - ForeignBase} ELSE {})

Quiet == mdb = <<>> /\ mmem = {} /\ minF = Num(world, tip) /\ \A e \in scripts : e[2] = minF
=============================================================================
