----------------------------- MODULE MC_Writes -----------------------------
(***************************************************************************)
(* Bounded model of the filter pipeline at the granularity of one storage  *)
(* write (Writes.tla), on the world of MC_FilterSync: every handler call   *)
(* that writes is a chain Begin -> write ... write -> End; the process can *)
(* die before every write and between handler calls (Crash: the in-memory  *)
(* map and the operation in progress are gone, the store stays), and is    *)
(* then driven on by the same ticks, proofs and blocks as any other run.   *)
(* C08: NoLoss / StoreUsable in EVERY state (the states a crash can leave),*)
(* the index invariants whenever no operation is in progress, Complete at  *)
(* quiescence (continued syncing converges to the crash-free answers).     *)
(* With Threads = 2 a second handler call can start while the first is     *)
(* between two writes; calls that take the matched-blocks lock exclude     *)
(* each other (C17).                                                       *)
(***************************************************************************)
EXTENDS MC_FilterSync, Writes

CONSTANTS MaxCrashes, LockOn

VARIABLES cur,        \* the handler call in progress: [op |-> "idle"] or [op, a, labels, k]
          crashes
SplitOn == TRUE
wmcVars == <<mcVars, wctx, cur, crashes>>

Idle == [op |-> "idle", a |-> <<>>, labels |-> <<>>, k |-> 1]

WInit == MCInit /\ wctx = <<>> /\ cur = Idle /\ crashes = 0

VolatileSame == UNCHANGED <<world, cfg, now, peer, mmem, cached, pf, fetchH, fetchT, over, subst>>
StoreSame == UNCHANGED <<scripts, minF, mdb, cpFinal, tip, tipTD, lastN>> /\ IxUnchanged

BeginSetScripts ==
    /\ cur.op = "idle" /\ ssCount < MaxSetScripts /\ ssCount' = ssCount + 1
    /\ \E cmd \in {"all", "partial", "delete"}, list \in Lists :
          cur' = [op |-> "SetScripts", a |-> [cmd |-> cmd, list |-> list], labels |-> SSLabels(cmd, list), k |-> 1]
    /\ wctx' = <<>> /\ out' = NoOut
    /\ VolatileSame /\ StoreSame /\ UNCHANGED <<startOf, crashes>>

BeginFilters ==
    /\ cur.op = "idle" /\ scripts # {}
    /\ \E n \in 1..3 :
        /\ minF + n <= 6
        /\ \E pl \in FPlans(P, Batch(n)) :
             /\ pl.kind = "accept"
             /\ cur' = [op |-> "Filters", a |-> [m |-> Batch(n), pl |-> pl], k |-> 1,
                        labels |-> IF pl.must # {} THEN <<Lbl.add, Lbl.umin>>
                                   ELSE IF pl.idle THEN <<Lbl.ubn, Lbl.umin>> ELSE <<Lbl.umin>>]
    /\ wctx' = <<>> /\ out' = NoOut
    /\ VolatileSame /\ StoreSame /\ UNCHANGED <<startOf, ssCount, crashes>>

BeginBlock ==
    /\ cur.op = "idle"
    /\ \E e \in mmem :
        /\ e[2] /\ ~e[3]
        /\ cur' = [op |-> "Block", a |-> [b |-> e[1]], labels |-> BLabels(e[1], "true"), k |-> 1]
        /\ wctx' = [blocks |-> BBlocks, rec |-> IF mdb = <<>> THEN <<>> ELSE mdb[1]]
        /\ mmem' = (mmem \ {e}) \cup {<<e[1], e[2], TRUE>>}       \* Peers::add_block, before any write
    /\ out' = NoOut
    /\ UNCHANGED <<world, cfg, now, peer, cached, pf, fetchH, fetchT, over, subst>>
    /\ StoreSame /\ UNCHANGED <<startOf, ssCount, crashes>>

Step ==
    /\ cur.op # "idle" /\ cur.k <= Len(cur.labels)
    /\ cur' = [cur EXCEPT !.k = @ + 1]
    /\ out' = NoOut
    /\ VolatileSame /\ UNCHANGED <<wctx, ssCount, crashes>>
    /\ LET label == cur.labels[cur.k] IN
       CASE cur.op = "SetScripts" ->
              /\ W_SetScripts(cur.a.cmd, cur.a.list, label, cur.k)
              /\ startOf' = IF label # Lbl.ufs THEN startOf
                            ELSE IF cur.a.cmd = "all" THEN UpsertFn(<<>>, cur.a.list)
                            ELSE IF cur.a.cmd = "partial" THEN UpsertFn(startOf, cur.a.list)
                            ELSE [x \in (DOMAIN startOf) \ ListKeys(cur.a.list) |-> startOf[x]]
         [] cur.op = "Filters" ->
              /\ UNCHANGED startOf
              /\ (label = Lbl.add =>
                    LET m == cur.a.m
                        blocks == SeqOfSet({m.hs[i] : i \in cur.a.pl.must})
                        rec == <<m.start, cur.a.pl.limit, [j \in 1..Len(blocks) |-> <<blocks[j], blocks[j] = 7>>]>>
                    IN mdb' = IF \E at \in 1..Len(mdb) : mdb[at][1] = m.start
                              THEN [i \in 1..Len(mdb) |-> IF mdb[i][1] = m.start THEN rec ELSE mdb[i]]
                              ELSE Append(mdb, rec))
              /\ W_Filters(P, cur.a.m, cur.a.pl, label, cur.k)
         [] cur.op = "Block" -> UNCHANGED startOf /\ W_Block(wctx, label, cur.k)

End ==
    /\ cur.op # "idle" /\ cur.k > Len(cur.labels)
    /\ cur' = Idle /\ wctx' = <<>> /\ out' = NoOut
    /\ UNCHANGED <<world, cfg, now, peer, cached, pf, fetchH, fetchT, over, subst>>
    /\ StoreSame /\ UNCHANGED <<startOf, ssCount, crashes>>
    /\ mmem' = CASE cur.op = "SetScripts" -> {}
                 [] cur.op = "Filters" -> IF Lbl.add \in Range(cur.labels) /\ mmem = {} THEN RecBlocks(mdb[1]) ELSE mmem
                 [] cur.op = "Block" -> IF cur.labels = <<>> THEN mmem
                                        ELSE IF mdb = <<>> THEN {} ELSE RecBlocks(mdb[1])

\* handler calls without writes
Quick ==
    /\ cur.op = "idle" /\ UNCHANGED <<wctx, cur, crashes>>
    /\ (MCBlocksProof \/ MCTick)

\* process death (before any write, or between two handler calls) and restart
Crash ==
    /\ crashes < MaxCrashes /\ crashes' = crashes + 1
    /\ (cur.op # "idle" \/ mmem # {})
    /\ cur' = Idle /\ wctx' = <<>> /\ mmem' = {} /\ out' = NoOut
    /\ UNCHANGED <<world, cfg, now, peer, cached, pf, fetchH, fetchT, over, subst>>
    /\ StoreSame /\ UNCHANGED <<startOf, ssCount>>

WNext == BeginSetScripts \/ BeginFilters \/ BeginBlock \/ Step \/ End \/ Quick \/ Crash
WSpec == WInit /\ [][WNext]_wmcVars

WInv ==
    /\ StoreUsable /\ NoLoss
    /\ NoForgedData /\ MatchedAtRightHeight
    /\ cur.op = "idle" => (CellsSound /\ HistOnCanon /\ ScriptsNumberHonest)
    /\ (cur.op = "idle" /\ Quiet) => Complete
=============================================================================
