SPECIFICATION Spec
CONSTANTS
  Peers = {p1, p2, p3}
  Liars = {p3}
  MaxOut = 3
  I = 2
  MaxIdx = 3
  MaxMsg = 2
INVARIANTS TypeOK WrongNeverFinal
PROPERTIES AppendOnly Quorum NotBlocked ContradictorsBanned
CHECK_DEADLOCK FALSE
