------------------------------- MODULE Writes -------------------------------
(***************************************************************************)
(* The storage operations of the filter pipeline at the granularity of ONE *)
(* STORAGE WRITE (a RocksDB put / delete / batch commit, the hook points   *)
(* of storage.rs).  FilterSync.tla describes a handler call as one atomic  *)
(* step; here every handler that writes is a chain of write steps:         *)
(*                                                                         *)
(*   set_scripts      update_filter_scripts:batch (scripts + MIN_FILTERED, *)
(*                      rewound below the earliest pending record, + the   *)
(*                      removal of all pending records)                    *)
(*                    [filter_block:batch (genesis, start number 0)]       *)
(*   BlockFilters     add_matched_blocks:batch (record + MIN_FILTERED)     *)
(*                    | update_block_number:batch     (nothing matched,    *)
(*                      nothing pending), then                             *)
(*                    update_min_filtered_block_number:put                 *)
(*   SendBlock        filter_block:batch per block in number order,        *)
(*   (last of record) update_block_number:batch,                           *)
(*                    remove_matched_blocks:delete                         *)
(*   proof commit     remove_matched_blocks:delete per record above the    *)
(*   (fork)           fork point, rollback_to_block:batch,                 *)
(*                    update_last_state:put (LAST_STATE + LAST_N_HEADERS)  *)
(*   refresh          update_check_points:batch,                           *)
(*                    update_max_check_point_index:put                     *)
(*                                                                         *)
(* The process can die before any write (C08) and another thread can run   *)
(* between any two writes that are not under the matched-blocks lock (C17).*)
(* The same formulas are used                                              *)
(*  - by MC_Writes: TLC generates every write chain, with a crash before   *)
(*    every write and recovery, and checks NoLoss / StoreUsable in every   *)
(*    intermediate state and the index invariants whenever no operation is *)
(*    in progress;                                                         *)
(*  - by Trace_Writes: the sequence of hook labels of every handler call   *)
(*    of the real client, with the store read back before each write, must *)
(*    be such a chain: same order, same effect per write, lock held where  *)
(*    the chain is a critical section.                                     *)
(***************************************************************************)
EXTENDS FilterSync

VARIABLE wctx   \* context of the operation in progress (computed when it starts), <<>> when none

Lbl == [ufs  |-> "update_filter_scripts:batch",
        umin |-> "update_min_filtered_block_number:put",
        clr  |-> "clear_matched_blocks:batch",
        fb   |-> "filter_block:batch",
        add  |-> "add_matched_blocks:batch",
        ubn  |-> "update_block_number:batch",
        rm   |-> "remove_matched_blocks:delete",
        rb   |-> "rollback_to_block:batch",
        uls  |-> "update_last_state:put",
        ucp  |-> "update_check_points:batch",
        umax |-> "update_max_check_point_index:put",
        afh  |-> "add_fetched_header:batch",
        aft  |-> "add_fetched_tx:batch"]

\* every persistent variable whose group is not named in S keeps its value
Keep(S) ==
    /\ IF "scripts" \in S THEN TRUE ELSE scripts' = scripts
    /\ IF "minF" \in S THEN TRUE ELSE minF' = minF
    /\ IF "mdb" \in S THEN TRUE ELSE mdb' = mdb
    /\ IF "ix" \in S THEN TRUE ELSE IxUnchanged
    /\ IF "cpFinal" \in S THEN TRUE ELSE cpFinal' = cpFinal
    /\ IF "tip" \in S THEN TRUE ELSE UNCHANGED <<tip, tipTD, lastN>>

Rep(x, n) == [i \in 1..n |-> x]

(***************************************************************************)
(* set_scripts                                                             *)
(***************************************************************************)
SSScripts(cmd, list) ==
    IF cmd = "all" THEN Upsert({}, list)
    ELSE IF cmd = "partial" THEN Upsert(scripts, list)
    ELSE {e \in scripts : e[1] \notin ListKeys(list)}
\* the MIN_FILTERED_NUMBER the batch writes (none: the old value)
SSMin(cmd, list) ==
    IF list = <<>> \/ cmd = "delete" THEN minF
    ELSE IF cmd = "all" \/ scripts = {} THEN SetMin(ListNums(list))
    ELSE Min(SetMin(ListNums(list)), minF)
RewindTo(m) == IF m[1][1] = 0 THEN 0 ELSE m[1][1] - 1
SSGenesis(cmd, list) == cmd # "delete" /\ list # <<>> /\ 0 \in ListNums(list)

\* Since fix 5d41817 of /repo (see DESIGN.md 9.3) the scripts, MIN_FILTERED_NUMBER (rewound below the earliest pending
\* record) and the removal of the pending records are ONE batch.  SSSplit = TRUE is the chain before the fix
\* (three writes); MC_Writes_split.cfg shows that TLC refutes it: a crash before the records are cleared lets
\* them be indexed later, which raises a script registered from an earlier block over blocks never filtered for it.
SSSplit == FALSE

SSLabels(cmd, list) ==
    IF cmd # "all" /\ list = <<>> THEN <<>>
    ELSE <<Lbl.ufs>>
         \o (IF SSSplit /\ mdb # <<>> /\ RewindTo(mdb) < SSMin(cmd, list) THEN <<Lbl.umin>> ELSE <<>>)
         \o (IF SSSplit THEN <<Lbl.clr>> ELSE <<>>)
         \o (IF SSGenesis(cmd, list) THEN <<Lbl.fb>> ELSE <<>>)

W_SetScripts(cmd, list, label, k) ==
    CASE label = Lbl.ufs  -> /\ k = 1
                             /\ scripts' = SSScripts(cmd, list)
                             /\ IF SSSplit
                                THEN minF' = SSMin(cmd, list) /\ Keep({"scripts", "minF"})
                                ELSE \* the pending records are discarded: their ranges are filtered again
                                     /\ minF' = Rewind(SSMin(cmd, list)) /\ mdb' = <<>>
                                     /\ Keep({"scripts", "minF", "mdb"})
      [] label = Lbl.umin -> /\ SSSplit /\ k = 2 /\ mdb # <<>> /\ RewindTo(mdb) < minF
                             /\ minF' = RewindTo(mdb) /\ Keep({"minF"})
      [] label = Lbl.clr  -> /\ SSSplit /\ (mdb # <<>> => RewindTo(mdb) >= minF)      \* never before the rewind
                             /\ mdb' = <<>> /\ Keep({"mdb"})
      [] label = Lbl.fb   -> Keep({})       \* the genesis block holds no cell of a world script
      [] OTHER -> FALSE

(***************************************************************************)
(* BlockFilters.  The verdict is computed from the state the handler call  *)
(* starts in; one plan per possible agreed prefix of the latest hashes.    *)
(***************************************************************************)
NoPlan == [kind |-> "none", x |-> 0, limit |-> 0, must |-> {}, idle |-> FALSE]
FPlans(p, m) ==
    LET s == peer[p]
        n == Len(m.fs)
        idle == mmem = {} /\ mdb = <<>>
    IN IF scripts = {} \/ s.st = "None" \/ ~HasProof(s) THEN {NoPlan}
       ELSE IF minF + 1 # m.start
       THEN {[NoPlan EXCEPT !.kind = IF mdb = <<>> THEN "raise" ELSE "none", !.x = minF]}
       ELSE IF Len(m.fs) # Len(m.hs) \/ n = 0 THEN {NoPlan}
       ELSE {LET e == Expected(m.start, lq) IN
             IF ~e.ok THEN NoPlan
             ELSE LET limit == Min(n, Len(e.exp)) IN
                  IF ~ChainOk(e.parent, m.fs, e.exp, limit) THEN NoPlan
                  ELSE [kind |-> "accept", x |-> m.start - 1 + limit, limit |-> limit, idle |-> idle,
                        must |-> LET active == Unkey({k \in Keys : NumOf(k) < m.start + limit})
                                 IN {i \in 1..limit : Unkey(TouchKeys(m.fs[i])) \cap active # {}}]
             : lq \in LatestQuorums}

FLabelsOf(pl) ==
    IF pl.kind = "none" THEN {<<>>}
    ELSE IF pl.kind = "raise" THEN {<<Lbl.ubn>>}
    ELSE (IF pl.limit > 0 THEN {<<Lbl.add, Lbl.umin>>} ELSE {})
         \cup (IF pl.must = {} THEN {IF pl.idle THEN <<Lbl.ubn, Lbl.umin>> ELSE <<Lbl.umin>>} ELSE {})

\* the record the batch puts: its start and count, the matched blocks (a superset of the must-matches:
\* Golomb-coded sets have false positives), proved only if it is the peer's proved header
RecordOk(rec, p, m, pl) ==
    /\ rec[1] = m.start /\ rec[2] = pl.limit
    /\ \E pos \in SUBSET (1..pl.limit) :
          /\ pl.must \subseteq pos /\ pos # {}
          /\ Len(rec[3]) = Cardinality(pos)
          /\ {rec[3][j][1] : j \in 1..Len(rec[3])} = {m.hs[i] : i \in pos}
          /\ \A j \in 1..Len(rec[3]) : rec[3][j][2] = (rec[3][j][1] = peer[p].proved)

W_Filters(p, m, pl, label, k) ==
    CASE label = Lbl.add  -> \* record and progress in ONE batch
                             /\ k = 1 /\ pl.kind = "accept" /\ pl.limit > 0
                             /\ minF' = pl.x
                             /\ \/ /\ Len(mdb') = Len(mdb) + 1
                                   /\ \E at \in 1..Len(mdb') :
                                        /\ RecordOk(mdb'[at], p, m, pl)
                                        /\ [i \in 1..(Len(mdb') - 1) |-> IF i < at THEN mdb'[i] ELSE mdb'[i + 1]] = mdb
                                \/ /\ Len(mdb') = Len(mdb)      \* the same range again after a crash: the put replaces
                                   /\ \E at \in 1..Len(mdb) :
                                        /\ mdb[at][1] = m.start /\ RecordOk(mdb'[at], p, m, pl)
                                        /\ \A i \in 1..Len(mdb) : i # at => mdb'[i] = mdb[i]
                             /\ Keep({"mdb", "minF"})
      [] label = Lbl.ubn  -> \* nothing matched and nothing is waiting to be indexed: the scripts are filtered up to x
                             /\ k = 1 /\ pl.kind \in {"raise", "accept"}
                             /\ mdb = <<>> /\ (pl.kind = "accept" => pl.must = {} /\ pl.idle)
                             /\ scripts' = Raise(scripts, pl.x) /\ Keep({"scripts"})
      [] label = Lbl.umin -> /\ pl.kind = "accept"
                             /\ (k = 1 => pl.must = {} /\ ~pl.idle)
                             /\ minF' = pl.x /\ Keep({"minF"})
      [] OTHER -> FALSE

(***************************************************************************)
(* SendBlock that completes the earliest record                            *)
(***************************************************************************)
BCompletes(b, body) ==
    /\ body = "true"
    /\ LET hit == {e \in mmem : e[1] = b /\ e[2]}
           m1 == (mmem \ hit) \cup {<<e[1], e[2], TRUE>> : e \in hit}
       IN m1 # {} /\ \A e \in m1 : e[3]
BBlocks == SortByNum({e[1] : e \in mmem})
BLabels(b, body) ==
    IF BCompletes(b, body) THEN Rep(Lbl.fb, Cardinality(mmem)) \o <<Lbl.ubn, Lbl.rm>> ELSE <<>>

\* c = [blocks, rec]: the blocks in number order and the record, fixed when the handler starts
W_Block(c, label, k) ==
    CASE label = Lbl.fb  -> /\ k <= Len(c.blocks)
                            /\ SetIx(FilterBlocks(world, Ix, <<c.blocks[k]>>, scripts)) /\ Keep({"ix"})
      [] label = Lbl.ubn -> /\ k = Len(c.blocks) + 1
                            /\ scripts' = Raise(scripts, c.rec[1] + c.rec[2] - 1) /\ Keep({"scripts"})
      [] label = Lbl.rm  -> \* the record goes last: until then a restart downloads and indexes the blocks again
                            /\ k = Len(c.blocks) + 2 /\ mdb # <<>> /\ mdb[1] = c.rec
                            /\ mdb' = Tail(mdb) /\ Keep({"mdb"})
      [] OTHER -> FALSE

(***************************************************************************)
(* Tip update: commit_prove_state of an accepted proof, or the child fast  *)
(* path of SendLastState.  c = [moves, fd, tip, tipTD, lastN]              *)
(***************************************************************************)
RemovedBy(fd) ==
    IF fd.kind = "to" THEN Len(mdb) - Len(KeepUpTo(mdb, fd.f))
    ELSE IF fd.kind = "one" THEN Len(SelectSeq(mdb, LAMBDA r : r[1] > 0))
    ELSE 0
TLabels(c) ==
    IF ~c.moves THEN <<>>
    ELSE IF c.fd.kind \in {"one", "to"} THEN Rep(Lbl.rm, RemovedBy(c.fd)) \o <<Lbl.rb, Lbl.uls>>
    ELSE <<Lbl.uls>>

W_Tip(c, label, k) ==
    CASE label = Lbl.rm  -> \* the latest record, as long as it starts above the fork point
                            /\ c.fd.kind \in {"one", "to"} /\ mdb # <<>>
                            /\ mdb[Len(mdb)][1] > (IF c.fd.kind = "to" THEN c.fd.f ELSE 0)
                            /\ mdb' = SubSeq(mdb, 1, Len(mdb) - 1) /\ Keep({"mdb"})
      [] label = Lbl.rb  -> /\ c.fd.kind \in {"one", "to"}
                            /\ (c.fd.kind = "to" => KeepUpTo(mdb, c.fd.f) = mdb)
                            /\ (c.fd.kind = "one" => \A i \in 1..Len(mdb) : mdb[i][1] = 0)
                            /\ RollbackTo(IF c.fd.kind = "one" THEN 1 ELSE RollbackTarget(mdb, c.fd.f))
                            /\ Keep({"ix", "scripts", "minF"})
      [] label = Lbl.uls -> \* tip, total difficulty and last-N headers in one write, after the rollback
                            /\ tip' = c.tip /\ tipTD' = c.tipTD /\ lastN' = c.lastN /\ Keep({"tip"})
      [] OTHER -> FALSE

(***************************************************************************)
(* Check point finalization (refresh tick) and fetched data                *)
(***************************************************************************)
W_Refresh(label, k) ==
    CASE label = Lbl.ucp  -> k = 1 /\ Keep({})        \* values beyond the final index are not final yet
      [] label = Lbl.umax -> k = 2 /\ IsPrefix(cpFinal, cpFinal') /\ Len(cpFinal') > Len(cpFinal) /\ Keep({"cpFinal"})
      [] OTHER -> FALSE

W_Fetched(label) ==
    /\ label \in {Lbl.afh, Lbl.aft}
    /\ cells' = cells /\ hist' = hist /\ hdrs \subseteq hdrs'
    /\ (label = Lbl.afh => txs' = txs)
    /\ Keep({"ix"})

(***************************************************************************)
(* C17: the writes that are inside the critical section of the matched-    *)
(* blocks lock                                                             *)
(***************************************************************************)
\* (the commit of a proof that moves the tip holds the lock from before the rollback until the tip and the peer's
\*  prove state are updated; before fix 92f2bdb of /repo only around the record removals and the rollback, see MC_Conc)
WInLock(op, label) == op \in {"SetScripts", "Filters", "Block", "Proof"}

(***************************************************************************)
(* C08: what must hold in EVERY state of the store, i.e. before every      *)
(* write, because the process can die there                                *)
(***************************************************************************)
\* every block whose filter has been passed (number <= MIN_FILTERED) and that creates a cell of a registered
\* script not yet filtered that far is either waiting in a stored record or already indexed
NoLoss ==
    \E ch \in {Chain(world, tip)} :
    \E outs \in {{<<h[1], h[2], h[3], h[4], h[6]>> : h \in {g \in hist : g[5] = 1}}} :
      \A e \in scripts :
        \A c \in CreatedOn(world, ch, e[1], e[2], minF) :
            c \in outs \/ ch[c[2] + 1] \in Pending

\* the keys every start reads exist
StoreUsable == minF >= 0 /\ cpFinal # <<>> /\ tip >= 1
=============================================================================
