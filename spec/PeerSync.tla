------------------------------ MODULE PeerSync ------------------------------
(***************************************************************************)
(* Per-peer request/response state machine of the light client             *)
(* (src/protocols/light_client/peers.rs, mod.rs, components/send_last_state..)  *)
(* together with the persisted tip (LAST_STATE / LAST_N_HEADERS).           *)
(*                                                                          *)
(* One action per handler of the code; the four PeerState transition        *)
(* functions are transcribed literally, including the quirk that a failed   *)
(* transition leaves the peer in `Initialized` (PeerState::take).           *)
(*                                                                          *)
(* Messages are message CLASSES: records of the attributes that the         *)
(* handler's guards read.  Block ids refer to the world.                    *)
(***************************************************************************)
EXTENDS World, Difficulty, Sampling, TLC

VARIABLES
    world,      \* the abstract chain (constant within a scenario)
    cfg,        \* [peers: set of peer names, lastN: last_n_blocks]
    now,        \* abstract time in ticks (30 s); MESSAGE_TIMEOUT = 2 ticks
    peer,       \* peer name -> peer record (st = "None" when not connected)
    tip, tipTD, \* LAST_STATE: stored tip header and its total difficulty
    lastN,      \* LAST_N_HEADERS: sequence of <<number, id>>
    out         \* observable effects of the last step: [ban, drop, sent]

psVars == <<world, cfg, now, peer, tip, tipTD, lastN, out>>
psCore == <<world, cfg, now, peer, tip, tipTD, lastN>>

PeerNames == cfg.peers
LastN == cfg.lastN
\* time: `now` counts abstract units; a request / an unchanged last state times out after MsgTimeout units, the
\* refresh asks for a new last state when the current one is older than RefreshLag units.  Bounded models use
\* (2, 0); traces of the implementation count seconds and use the documented (60, 8).
MsgTimeout == cfg.msgTimeout
RefreshLag == cfg.refreshLag

NoReq == [on |-> FALSE, last |-> 0, skip |-> FALSE, fork |-> FALSE,
          startNum |-> 0, start |-> 0, bnd |-> 0, ds |-> <<>>]

NonePeer == [st |-> "None", last |-> 0, lastTs |-> 0, proved |-> 0,
             pLastN |-> <<>>, pReorg |-> <<>>, req |-> NoReq, when |-> 0]
InitPeer == [NonePeer EXCEPT !.st = "Init"]

States == {"None", "Init", "ReqFirstLS", "OnlyLS", "ReqFirstProof", "Ready", "ReqNewLS", "ReqNewProof"}

HasLast(s)  == s.st \in {"OnlyLS", "ReqFirstProof", "Ready", "ReqNewLS", "ReqNewProof"}
HasProof(s) == s.st \in {"Ready", "ReqNewLS", "ReqNewProof"}
HasReq(s)   == s.st \in {"ReqFirstProof", "ReqNewProof"}
Waiting(s)  == s.st \in {"ReqFirstLS", "ReqFirstProof", "ReqNewLS", "ReqNewProof"}

NoOut == [ban |-> {}, drop |-> {}, sent |-> {}]
Ban(ps) == [ban |-> ps, drop |-> {}, sent |-> {}]
Sent(ms) == [ban |-> {}, drop |-> {}, sent |-> ms]

GetLastStateMsg(p) == [to |-> p, kind |-> "GetLastState"]
GetProofMsg(p, r) == [to |-> p, kind |-> "GetLastStateProof", last |-> r.last,
                      startNum |-> r.startNum, start |-> r.start, bnd |-> r.bnd, ds |-> r.ds]

(***************************************************************************)
(* PeerState transition functions: each returns [ok, s].                   *)
(***************************************************************************)
RequestLastState(s, t) ==
    CASE s.st = "Init"   -> [ok |-> TRUE, s |-> [s EXCEPT !.st = "ReqFirstLS", !.when = t]]
      [] s.st = "OnlyLS" -> [ok |-> TRUE, s |-> s]
      [] s.st = "Ready"  -> [ok |-> TRUE, s |-> [s EXCEPT !.st = "ReqNewLS", !.when = t]]
      [] OTHER           -> [ok |-> FALSE, s |-> InitPeer]

ReceiveLastState(s, b, t) ==
    CASE s.st = "ReqFirstLS" -> [ok |-> TRUE, s |-> [InitPeer EXCEPT !.st = "OnlyLS", !.last = b, !.lastTs = t]]
      [] s.st = "ReqNewLS"   -> [ok |-> TRUE, s |-> [s EXCEPT !.st = "Ready", !.last = b, !.lastTs = t, !.when = 0]]
      [] s.st \in {"OnlyLS", "ReqFirstProof", "Ready", "ReqNewProof"}
                             -> [ok |-> TRUE, s |-> [s EXCEPT !.last = b, !.lastTs = t]]
      [] OTHER               -> [ok |-> FALSE, s |-> InitPeer]

RequestProof(s, r, t) ==
    CASE s.st = "OnlyLS" -> [ok |-> TRUE, s |-> [s EXCEPT !.st = "ReqFirstProof", !.req = r, !.when = t]]
      [] s.st = "Ready"  -> [ok |-> TRUE, s |-> [s EXCEPT !.st = "ReqNewProof", !.req = r, !.when = t]]
      [] s.st \in {"ReqFirstProof", "ReqNewProof"}
                         -> [ok |-> TRUE, s |-> [s EXCEPT !.req = r, !.when = t]]
      [] OTHER           -> [ok |-> FALSE, s |-> InitPeer]

\* ps = [last, lastN, reorg]
ReceiveProof(s, ps) ==
    IF s.st \in {"OnlyLS", "ReqFirstProof", "Ready", "ReqNewProof"}
    THEN [ok |-> TRUE, s |-> [s EXCEPT !.st = "Ready", !.proved = ps.last, !.pLastN = ps.lastN,
                                       !.pReorg = ps.reorg, !.req = NoReq, !.when = 0]]
    ELSE [ok |-> FALSE, s |-> InitPeer]

ProveStateOf(s) == [last |-> s.proved, lastN |-> s.pLastN, reorg |-> s.pReorg]

(***************************************************************************)
(* build_prove_request_content: the deterministic part of the request.     *)
(* `r` is the request as actually sent (the samples are random); this      *)
(* predicate says which requests the code may build for peer state s and   *)
(* last header b.  `None` is returned by the code iff ~CanBuild.           *)
(***************************************************************************)
StartOf(s) == IF HasProof(s)
              THEN [id |-> s.proved, num |-> Num(world, s.proved), td |-> Td(world, s.proved)]
              ELSE [id |-> tip, num |-> Num(world, tip), td |-> tipTD]

CanBuild(s, b) == LET st == StartOf(s) IN ~(st.td > Td(world, b) \/ st.num >= Num(world, b))

\* the stored last-N header the start is rebased onto (first match in stored order)
RebaseIdx(st, b) ==
    {i \in 1..Len(lastN) : lastN[i][1] < st.num /\ Num(world, b) <= lastN[i][1] + LastN}

ReqOk(s, b, r) ==
    LET st == StartOf(s) IN
    /\ r.on /\ r.last = b /\ ~r.skip /\ ~r.fork
    /\ IF Num(world, b) - st.num <= LastN
       THEN /\ r.ds = <<>> /\ r.bnd = st.td
            /\ IF RebaseIdx(st, b) = {}
               THEN r.startNum = st.num /\ r.start = st.id
               ELSE LET i == CHOOSE j \in RebaseIdx(st, b) : \A k \in RebaseIdx(st, b) : j <= k
                    IN r.startNum = lastN[i][1] /\ r.start = lastN[i][2]
       ELSE /\ r.startNum = st.num /\ r.start = st.id
            \* Sampling!WellFormed constrains bnd / ds (property C15); here only the shape
            /\ r.bnd >= st.td /\ r.bnd <= Td(world, b)

\* C15: the sampled part of a request as actually sent (judged on logged requests only; the
\* model-checking oracle fixes ds = <<>>).  The real start (before the rebase) decides the mode.
SamplesOk(s, b, r) ==
    LET st == StartOf(s) IN
    WellFormed([startNum |-> st.num, lastNum |-> Num(world, b), startTd |-> st.td,
                lastTd |-> Td(world, b), bnd |-> r.bnd, ds |-> r.ds, nosample |-> Num(world, b) - st.num <= LastN,
                tight |-> r.bnd = st.td + 1])

GenesisSamplesOk(b, r) ==
    WellFormed([startNum |-> 0, lastNum |-> Num(world, b), startTd |-> 0,
                lastTd |-> Td(world, b), bnd |-> r.bnd, ds |-> r.ds, nosample |-> Num(world, b) <= LastN,
                tight |-> r.bnd = 1])

GenesisReqOk(b, r) ==
    /\ r.on /\ r.last = b /\ ~r.skip /\ r.fork
    /\ r.startNum = 0 /\ r.start = Genesis
    /\ IF Num(world, b) <= LastN THEN r.ds = <<>> /\ r.bnd = 0
       ELSE r.bnd >= 0 /\ r.bnd <= Td(world, b)

\* The request with the random part fixed (no sampled difficulties; boundary variant k) - used by
\* model checking, where the oracle does not come from a log.
CanonReq(s, b, k) ==
    LET st == StartOf(s)
        base == [on |-> TRUE, last |-> b, skip |-> FALSE, fork |-> FALSE,
                 startNum |-> st.num, start |-> st.id, bnd |-> st.td, ds |-> <<>>]
    IN IF Num(world, b) - st.num <= LastN
       THEN IF RebaseIdx(st, b) = {} THEN base
            ELSE LET i == CHOOSE j \in RebaseIdx(st, b) : \A q \in RebaseIdx(st, b) : j <= q
                 IN [base EXCEPT !.startNum = lastN[i][1], !.start = lastN[i][2]]
       ELSE [base EXCEPT !.bnd = CASE k = 0 -> st.td + 1
                                   [] k = 1 -> Td(world, b)
                                   [] OTHER -> (st.td + Td(world, b)) \div 2]

CanonGenesisReq(b, k) ==
    [on |-> TRUE, last |-> b, skip |-> FALSE, fork |-> TRUE, startNum |-> 0, start |-> Genesis,
     bnd |-> IF Num(world, b) <= LastN THEN 0 ELSE (IF k = 0 THEN 1 ELSE Td(world, b)), ds |-> <<>>]

\* Oracle o: o.mode = "log": the request is the logged one (o.req[p]); "canon": CanonReq with o.k
PickReq(o, p, s, b) == IF o.mode = "log" THEN o.req[p] ELSE CanonReq(s, b, o.k)
PickSkipReq(o, p, s, b) == IF o.mode = "log" THEN o.req[p] ELSE [CanonReq(s, b, o.k) EXCEPT !.skip = TRUE]
PickGenesisReq(o, p, b) == IF o.mode = "log" THEN o.req[p] ELSE CanonGenesisReq(b, o.k)

(***************************************************************************)
(* LightClientProtocol::get_last_state_proof for peer p in peer map pm.    *)
(* Oracle o: o.req[p] = the request built (if any), o.copy[p] = the peer   *)
(* whose prove state is copied (if any).  Returns [pm, sent].              *)
(***************************************************************************)
GetLastStateProof(pm, p, o) ==
    LET s == pm[p] IN
    IF ~HasLast(s) THEN [pm |-> pm, sent |-> {}, legal |-> TRUE]
    ELSE IF HasProof(s) /\ s.proved = s.last THEN [pm |-> pm, sent |-> {}, legal |-> TRUE]
    ELSE IF HasReq(s) /\ s.req.last = s.last THEN [pm |-> pm, sent |-> {}, legal |-> TRUE]
    ELSE IF \E q \in PeerNames : HasProof(pm[q]) /\ pm[q].proved = s.last
    THEN LET q == IF o.mode = "log" THEN o.copy[p]
                  ELSE CHOOSE x \in PeerNames : HasProof(pm[x]) /\ pm[x].proved = s.last IN
         [pm |-> [pm EXCEPT ![p] = ReceiveProof(s, ProveStateOf(pm[q])).s], sent |-> {},
          legal |-> q \in PeerNames /\ HasProof(pm[q]) /\ pm[q].proved = s.last]
    ELSE IF ~CanBuild(s, s.last) THEN [pm |-> pm, sent |-> {}, legal |-> TRUE]
    ELSE LET r == PickReq(o, p, s, s.last) IN
         [pm |-> [pm EXCEPT ![p] = RequestProof(s, r, now).s],
          sent |-> {GetProofMsg(p, r)},
          legal |-> ReqOk(s, s.last, r) /\ (o.mode # "log" \/ SamplesOk(s, s.last, r))]

(***************************************************************************)
(* Environment                                                             *)
(***************************************************************************)
Connect(p) ==
    \* add_peer overwrites any existing entry, then GetLastState is sent
    /\ peer' = [peer EXCEPT ![p] = RequestLastState(InitPeer, now).s]
    /\ out' = Sent({GetLastStateMsg(p)})
    /\ UNCHANGED <<world, cfg, now, tip, tipTD, lastN>>

Disconnect(p) ==
    /\ peer' = [peer EXCEPT ![p] = NonePeer]
    /\ out' = NoOut
    /\ UNCHANGED <<world, cfg, now, tip, tipTD, lastN>>

Advance(d) ==
    /\ now' = now + d
    /\ out' = NoOut
    /\ UNCHANGED <<world, cfg, peer, tip, tipTD, lastN>>

(***************************************************************************)
(* refresh_all_peers (the check point part is in module CheckPoints)       *)
(***************************************************************************)
TimedOut(s) ==
    \* get_peers_which_have_timeout: and_then(..).or_else(..): every check applies
    \/ Waiting(s) /\ now > s.when + MsgTimeout
    \/ HasLast(s) /\ now > s.lastTs + MsgTimeout

NeedsNewState(s) ==
    \/ s.st = "Init"
    \/ s.st \in {"OnlyLS", "Ready"} /\ s.lastTs + RefreshLag < now

NeedsNewProof(s) ==
    \/ s.st = "OnlyLS"
    \/ s.st = "Ready" /\ s.proved # s.last

AfterStateReq ==
    [p \in PeerNames |-> IF NeedsNewState(peer[p]) THEN RequestLastState(peer[p], now).s ELSE peer[p]]

RECURSIVE ProofLoop(_, _, _, _)
\* get_last_state_proof for every peer that requires a proof, in ANY order: the set of possible results.
\* (The order matters: a peer copies the prove state of another peer that has proved its last header, and the
\* loop itself may have replaced that prove state a moment earlier; the client iterates a hash map.)
ProofLoop(pm, todo, o, acc) ==
    IF todo = {} THEN {[pm |-> pm, sent |-> acc.sent, legal |-> acc.legal]}
    ELSE UNION {LET r == GetLastStateProof(pm, p, o)
                IN ProofLoop(r.pm, todo \ {p}, o,
                             [sent |-> acc.sent \cup r.sent, legal |-> acc.legal /\ r.legal])
                : p \in todo}

\* extra (non PeerState) timeouts are supplied by the fetch tables and extra bans by the check point
\* finalization that ends the refresh (module FilterSync); PeerSync alone has none
RefreshTick(o, extraTimeouts, extraBan) ==
    LET to == {p \in PeerNames : peer[p].st # "None" /\ TimedOut(peer[p])} \cup extraTimeouts
        pm1 == AfterStateReq
        ask == {p \in PeerNames : NeedsNewState(peer[p])}
        need == {p \in PeerNames : NeedsNewProof(pm1[p])}
    IN /\ \E r \in ProofLoop(pm1, need, o, [sent |-> {}, legal |-> TRUE]) :
            /\ r.legal
            /\ peer' = r.pm
            /\ out' = [ban |-> extraBan, drop |-> to,
                       sent |-> {GetLastStateMsg(p) : p \in ask} \cup r.sent]
       /\ UNCHANGED <<world, cfg, now, tip, tipTD, lastN>>

(***************************************************************************)
(* SendLastState                                                           *)
(*   m = [b, ok]: header b; ok = PoW valid /\ commits to its chain root    *)
(*   /\ fresh (timestamp within MAX_TIP_AGE)                               *)
(***************************************************************************)
ChildState(s, b) ==
    \* ProveState::new_child: the parent joins the last-N window
    LET win == IF Len(s.pLastN) >= LastN /\ Len(s.pLastN) > 0 THEN Tail(s.pLastN) ELSE s.pLastN
    IN [last |-> b, lastN |-> Append(win, s.proved), reorg |-> s.pReorg]

StoreIfHeavier(b, td, ln) ==
    IF td > tipTD
    THEN /\ tip' = b /\ tipTD' = td
         /\ lastN' = [i \in 1..Len(ln) |-> <<Num(world, ln[i]), ln[i]>>]
    ELSE UNCHANGED <<tip, tipTD, lastN>>

RecvLastState(p, m, o) ==
    LET s == peer[p] IN
    /\ UNCHANGED <<world, cfg, now>>
    /\ IF s.st = "None" \/ ~m.ok
       THEN \* PeerIsNotFound / InvalidNonce / InvalidChainRoot / PeerIsInIBD: ban, nothing changes
            /\ out' = Ban({p})
            /\ UNCHANGED <<peer, tip, tipTD, lastN>>
       ELSE IF HasLast(s)
       THEN IF s.last = m.b
            THEN \* same last state: timestamp NOT refreshed
                 /\ out' = NoOut /\ UNCHANGED <<peer, tip, tipTD, lastN>>
            ELSE LET s1 == ReceiveLastState(s, m.b, now).s
                     fast == /\ Td(world, s.last) < Td(world, m.b)
                             /\ HasProof(s)
                             /\ IsParentOf(world, s.proved, m.b)
                             \* the child's chain root must carry the proven parent's total difficulty
                             /\ Td(world, m.b) = Td(world, s.proved) + Diff(world, m.b)
                 IN IF fast
                    THEN LET cs == ChildState(s, m.b) IN
                         /\ StoreIfHeavier(m.b, Td(world, m.b), cs.lastN)
                         /\ peer' = [peer EXCEPT ![p] = ReceiveProof(s1, cs).s]
                         /\ out' = NoOut
                    ELSE /\ peer' = [peer EXCEPT ![p] = s1]
                         /\ out' = NoOut
                         /\ UNCHANGED <<tip, tipTD, lastN>>
       ELSE \* Init / ReqFirstLS
            LET r1 == ReceiveLastState(s, m.b, now) IN
            IF ~r1.ok
            THEN /\ peer' = [peer EXCEPT ![p] = r1.s]
                 /\ out' = Ban({p})
                 /\ UNCHANGED <<tip, tipTD, lastN>>
            ELSE LET g == GetLastStateProof([peer EXCEPT ![p] = r1.s], p, o) IN
                 /\ g.legal
                 /\ peer' = g.pm
                 /\ out' = Sent(g.sent)
                 /\ UNCHANGED <<tip, tipTD, lastN>>

(***************************************************************************)
(* SendLastStateProof                                                      *)
(*   m = [last, lastOk, empty, nums, chain,                                *)
(*        match, root, pow, cont, mmr, tau, td]                            *)
(*   nums: heights of the returned headers in message order; the headers   *)
(*   are those of the chain ending in block `chain` (= last for honest     *)
(*   answers).  The split into reorg / sampled / last-N sections is the    *)
(*   one check_if_response_is_matched derives from the request.            *)
(***************************************************************************)
SectionIds(m, ns) == IdsAt(world, m.chain, ns)

\* [rc, sc, lc]: reorg, sampled and last-N counts as the code computes them
Split(r, m) ==
    LET total == Len(m.nums)
        rc == Cardinality({i \in 1..total : m.nums[i] < r.startNum})
        TdAt(i) == Td(world, AncAt(world, m.chain, m.nums[i]))
    IN IF total - rc > LastN
       THEN LET bc == Cardinality({i \in 1..total : TdAt(i) < r.bnd})
                ln == total - bc
            IN IF ln > LastN THEN [rc |-> rc, sc |-> bc - rc, lc |-> ln]
               ELSE [rc |-> rc, sc |-> total - rc - LastN, lc |-> LastN]
       ELSE [rc |-> rc, sc |-> 0, lc |-> total - rc]

ReorgNums(r, m) == SubSeq(m.nums, 1, Split(r, m).rc)
SampleNums(r, m) == LET sp == Split(r, m) IN SubSeq(m.nums, sp.rc + 1, sp.rc + sp.sc)
LastNNums(r, m) == LET sp == Split(r, m) IN SubSeq(m.nums, sp.rc + sp.sc + 1, Len(m.nums))

\* verify_tau over (first sample, last header of the last-N section); m.tau may override it for
\* messages that are not chain-derived ("ok" / "fail" / "ban"), "world" = computed here
TauOf(r, m) ==
    IF m.tau # "world" THEN m.tau
    ELSE IF SampleNums(r, m) = <<>> THEN "ok"
    ELSE LET a == AncAt(world, m.chain, SampleNums(r, m)[1])
             b == AncAt(world, m.chain, m.nums[Len(m.nums)])
         IN VerifyTau(Ep(world, a), Diff(world, a), Ep(world, b), Diff(world, b))

ContinuousWithStart(r, m) == LastNNums(r, m) = <<>> \/ LastNNums(r, m)[1] = r.startNum

\* attribute values: "ok" / "bad" by construction of the message, or "world": decided here from
\* the validity flags of the shown headers (answers derived from a chain of the world)
Shown(m) == {AncAt(world, m.chain, m.nums[i]) : i \in 1..Len(m.nums)}
PowOf(m) == IF m.pow = "world" THEN \A b \in Shown(m) : Mined(world, b) ELSE m.pow = "ok"
RootOf(m) == IF m.root = "world" THEN \A b \in Shown(m) : Rooted(world, b) ELSE m.root = "ok"

\* verify_total_difficulty between the previous proved header and the new last header: "ok" / "bad" by
\* construction, or "world" = the transcription (module Difficulty) on the world's epochs and difficulties
TdArgs(s, m) == <<Ep(world, s.proved), Diff(world, s.proved), Td(world, s.proved),
                 Ep(world, m.last), Diff(world, m.last), Td(world, m.last)>>
TdOf(s, m) ==
    IF m.td # "world" THEN m.td = "ok"
    ELSE \E a \in {TdArgs(s, m)} : VerifyTotalDifficulty(a[1], a[2], a[3], a[4], a[5], a[6]) = "ok"
\* the total difficulty check is applied to this answer
TdApplies(s, m) ==
    /\ HasProof(s) /\ ReorgNums(s.req, m) = <<>> /\ ~s.req.fork
    /\ ~(SampleNums(s.req, m) = <<>> /\ ContinuousWithStart(s.req, m))
\* KF-C14-envelope seen through a message: an answer from a chain whose difficulties obey TAU lies in the tight
\* envelope but outside the split-based estimate
TdKnownGap(s, m) ==
    /\ m.td = "world" /\ TdApplies(s, m) /\ ~TdOf(s, m)
    /\ \E a \in {TdArgs(s, m)} : InTightEnvelope(a[1], a[2], a[3], a[4], a[5], a[6])

Valid(s, m) ==
    /\ m.match = "ok" /\ RootOf(m) /\ PowOf(m) /\ m.cont = "ok" /\ m.mmr = "ok"
    \* total difficulty envelope: skipped only when every header from the start block on is shown
    \* and applied only when the previous proved header is on the same chain (no reorg section,
    \* not the from-genesis proof after a long fork)
    /\ \/ ~TdApplies(s, m)
       \/ TdOf(s, m)

\* the last-N headers of the new prove state; [ok, v]
NewLastHeaders(s, m) ==
    LET new == SectionIds(m, LastNNums(s.req, m))
        c == Len(new)
        rg == SectionIds(m, ReorgNums(s.req, m))
    IN IF c = LastN THEN [ok |-> TRUE, v |-> new]
       ELSE IF c > LastN THEN [ok |-> TRUE, v |-> SeqTail(new, LastN)]
       ELSE IF HasProof(s)
            THEN LET old0 == IF rg = <<>> THEN s.pLastN ELSE rg
                     \* the request may start at a remembered header below the previous last one: the new headers
                     \* then overlap the old ones, and replace them after a fork; only the old headers below the
                     \* first new one, and only if that one extends them, are kept
                     cnt == IF new = <<>> THEN Len(old0)
                            ELSE Cardinality({i \in 1..Len(old0) :
                                     \A j \in 1..i : Num(world, old0[j]) < Num(world, new[1])})
                     old == IF new = <<>> THEN old0
                            ELSE IF cnt > 0 /\ IsParentOf(world, old0[cnt], new[1]) THEN SubSeq(old0, 1, cnt)
                            ELSE <<>>
                 IN
                 IF old = <<>> THEN [ok |-> TRUE, v |-> new]
                 ELSE [ok |-> TRUE, v |-> SeqTail(old, LastN - c) \o new]
       ELSE IF rg = <<>> THEN [ok |-> TRUE, v |-> new]
       ELSE IF SampleNums(s.req, m) = <<>> /\ c > 0 /\ IsParentOf(world, rg[Len(rg)], new[1])
            THEN [ok |-> TRUE, v |-> SeqTail(rg, LastN - c) \o new]
       ELSE [ok |-> FALSE, v |-> <<>>]

\* commit_prove_state's fork detection against the stored last-N headers.  The stored list is collected into a
\* map by number (a later entry of the same number replaces an earlier one), and the new headers are scanned
\* from the last one backwards: the first one found in the map is the fork point.  (On a well-formed list this
\* is the highest common number; the list is not always well formed -- NewLastHeaders pads a short list with the
\* tail of the previous one, which belongs to another branch after a reorganisation of a chain shorter than LastN.)
OldAt(n) ==
    LET ks == {k \in 1..Len(lastN) : lastN[k][1] = n} IN
    IF ks = {} THEN NoBlock ELSE lastN[CHOOSE k \in ks : \A j \in ks : j <= k][2]

RECURSIVE LastMatch(_)
\* -1: none
LastMatch(hs) ==
    IF hs = <<>> THEN -1
    ELSE LET h == hs[Len(hs)] IN
         IF OldAt(Num(world, h)) = h THEN Num(world, h) ELSE LastMatch(SubSeq(hs, 1, Len(hs) - 1))

SetMax(S) == CHOOSE n \in S : \A k \in S : k <= n

\* rg: reorg section, nl: the last-N headers of the new prove state.
\* kind: "none" | "one" (previous tip is block#1: roll back to 1) | "to" (fork point f) | "long"
ForkDecision(rg, nl) ==
    IF rg # <<>>
    THEN IF LastMatch(rg) >= 0 THEN [long |-> FALSE, kind |-> "to", f |-> LastMatch(rg)]
         ELSE [long |-> TRUE, kind |-> "long", f |-> 0]
    ELSE IF Num(world, tip) = 1 THEN [long |-> FALSE, kind |-> "one", f |-> 0]
    ELSE IF \E i \in 1..Len(nl) : Num(world, nl[i]) = Num(world, tip) /\ nl[i] # tip
    THEN \* the previous tip is replaced on the new chain although no reorg section was returned
         LET below == SelectSeq(nl, LAMBDA h : Num(world, h) < Num(world, tip)) IN
         IF LastMatch(below) >= 0 THEN [long |-> FALSE, kind |-> "to", f |-> LastMatch(below)]
         ELSE [long |-> TRUE, kind |-> "long", f |-> 0]
    ELSE [long |-> FALSE, kind |-> "none", f |-> 0]

\* C04 / C10: the abort after the second, from-genesis proof is the documented one only for a fork that shares none of
\* the remembered last-N headers (nor the stored tip itself)
ForkIsLong(b) ==
    LET c == CommonAnc(world, tip, b) IN
    c # tip /\ c \notin {lastN[i][2] : i \in 1..Len(lastN)}

RecvProof(p, m, o) ==
    LET s == peer[p] IN
    /\ UNCHANGED <<world, cfg, now>>
    /\ IF s.st = "None"
       THEN /\ out' = Ban({p}) /\ UNCHANGED <<peer, tip, tipTD, lastN>>
       ELSE IF ~HasReq(s)
       THEN \* nobody asked: ignored
            /\ out' = NoOut /\ UNCHANGED <<peer, tip, tipTD, lastN>>
       ELSE IF m.last # s.req.last
       THEN IF m.empty
            THEN \* "my tip is different": process_last_state + a new request
                 IF ~m.lastOk
                 THEN /\ out' = Ban({p}) /\ UNCHANGED <<peer, tip, tipTD, lastN>>
                 ELSE LET s1 == ReceiveLastState(s, m.last, now).s
                          g == GetLastStateProof([peer EXCEPT ![p] = s1], p, o)
                      IN /\ g.legal /\ peer' = g.pm /\ out' = Sent(g.sent)
                         /\ UNCHANGED <<tip, tipTD, lastN>>
            ELSE /\ out' = NoOut /\ UNCHANGED <<peer, tip, tipTD, lastN>>
       ELSE IF ~Valid(s, m)
       THEN \* any failed check: ban, trusted state untouched
            /\ out' = Ban({p}) /\ UNCHANGED <<peer, tip, tipTD, lastN>>
       ELSE IF ~s.req.skip /\ SampleNums(s.req, m) # <<>> /\ TauOf(s.req, m) = "ban"
       THEN \* different compact targets inside one epoch: InvalidCompactTarget
            /\ out' = Ban({p}) /\ UNCHANGED <<peer, tip, tipTD, lastN>>
       ELSE IF ~s.req.skip /\ SampleNums(s.req, m) # <<>> /\ TauOf(s.req, m) = "fail"
       THEN \* ProofRecheckTau: same last header, new samples, tau check skipped next time
            IF CanBuild(s, m.last)
            THEN LET r == PickSkipReq(o, p, s, m.last) IN
                 /\ ReqOk(s, m.last, [r EXCEPT !.skip = FALSE]) /\ r.skip
                 /\ (o.mode # "log" \/ SamplesOk(s, m.last, r))
                 /\ peer' = [peer EXCEPT ![p] = RequestProof(s, r, now).s]
                 /\ out' = Sent({GetProofMsg(p, r)})
                 /\ UNCHANGED <<tip, tipTD, lastN>>
            ELSE /\ out' = NoOut /\ UNCHANGED <<peer, tip, tipTD, lastN>>
       ELSE LET lh == NewLastHeaders(s, m) IN
            IF ~lh.ok
            THEN /\ out' = Ban({p}) /\ UNCHANGED <<peer, tip, tipTD, lastN>>
            ELSE IF s.req.fork
            THEN \* LongForkAbort: the documented panic; modelled as no step (the trace has a Panic event)
                 FALSE
            ELSE
            LET ps == [last |-> m.last, lastN |-> lh.v, reorg |-> SectionIds(m, ReorgNums(s.req, m))]
                newTd == Td(world, m.last)
                fd == ForkDecision(ps.reorg, ps.lastN)
            IN IF newTd > tipTD
               THEN IF ~fd.long
                    THEN \* no fork, or a fork point among the remembered headers (FilterSync rolls back)
                         /\ StoreIfHeavier(m.last, newTd, ps.lastN)
                         /\ peer' = [peer EXCEPT ![p] = ReceiveProof(s, ps).s]
                         /\ out' = NoOut
                    ELSE \* ProofLongFork: nothing persisted, proof from genesis requested
                         LET r == PickGenesisReq(o, p, m.last) IN
                         /\ UNCHANGED <<tip, tipTD, lastN>>
                         /\ IF Num(world, m.last) > 0
                            THEN /\ GenesisReqOk(m.last, r)
                                 /\ (o.mode # "log" \/ GenesisSamplesOk(m.last, r))
                                 /\ peer' = [peer EXCEPT ![p] = RequestProof(s, r, now).s]
                                 /\ out' = Sent({GetProofMsg(p, r)})
                            ELSE /\ UNCHANGED peer /\ out' = NoOut
               ELSE /\ UNCHANGED <<tip, tipTD, lastN>>
                    /\ peer' = [peer EXCEPT ![p] = ReceiveProof(s, ps).s]
                    /\ out' = NoOut

(***************************************************************************)
(* Restart: all volatile state is lost, the store is kept                  *)
(***************************************************************************)
Restart ==
    /\ peer' = [p \in PeerNames |-> NonePeer]
    /\ out' = NoOut
    /\ UNCHANGED <<world, cfg, now, tip, tipTD, lastN>>

(***************************************************************************)
(* Properties                                                              *)
(***************************************************************************)
TypeOK ==
    /\ \A p \in PeerNames : peer[p].st \in States
    /\ tip \in BlockIds(world)
    /\ \A p \in PeerNames :
         LET s == peer[p] IN
         /\ (HasLast(s) <=> s.last # 0)
         /\ (HasProof(s) <=> s.proved # 0)
         /\ (HasReq(s) <=> s.req.on)
         /\ (Waiting(s) \/ s.when = 0)

\* C12: the stored difficulty is the one committed by the tip's chain root and it is the true one
TipTruthful == tipTD = Td(world, tip) /\ Td(world, tip) = TrueTd(world, tip)

\* C12: remembered last-N headers are ancestors of the stored tip, at their heights
LastNAncestors ==
    \A i \in 1..Len(lastN) : /\ lastN[i][2] \in BlockIds(world)
                             /\ Num(world, lastN[i][2]) = lastN[i][1]
                             /\ IsAnc(world, lastN[i][2], tip)
                             /\ lastN[i][2] # tip

\* C01/C12: every proved header is fully valid in the world
ProvedAreValid ==
    \A p \in PeerNames : HasProof(peer[p]) =>
        /\ Mined(world, peer[p].proved) /\ Rooted(world, peer[p].proved)

\* C12 action property: the tip only moves to heavier headers that some peer has proved
TipOnlyHeavier ==
    tip' # tip \/ tipTD' # tipTD =>
        /\ tipTD' > tipTD
        /\ \E p \in PeerNames : HasProof(peer'[p]) /\ peer'[p].proved = tip'

\* C11 action property: the documented edges (plus connect/remove and the error reset to Init)
Edges == {
    <<"None", "ReqFirstLS">>, <<"Init", "ReqFirstLS">>,
    <<"ReqFirstLS", "OnlyLS">>, <<"ReqFirstLS", "ReqFirstProof">>, <<"ReqFirstLS", "Ready">>,
    <<"OnlyLS", "ReqFirstProof">>, <<"OnlyLS", "Ready">>,
    <<"ReqFirstProof", "Ready">>,
    <<"Ready", "ReqNewLS">>, <<"Ready", "ReqNewProof">>,
    <<"ReqNewLS", "Ready">>, <<"ReqNewLS", "ReqNewProof">>,
    <<"ReqNewProof", "Ready">> }

PeerDiagram ==
    \A p \in PeerNames :
        LET a == peer[p].st b == peer'[p].st IN
        a = b \/ <<a, b>> \in Edges \/ b = "None" \/ b = "ReqFirstLS" \/ b = "Init"

\* C11: a proof is accepted only while a request for that same last state is outstanding,
\* or copied from a peer that has it, or it is the child fast path
ProofOnlyWhenRequested ==
    \A p \in PeerNames :
        (HasProof(peer'[p]) /\ peer'[p].proved # peer[p].proved) =>
            \/ HasReq(peer[p]) /\ peer[p].req.last = peer'[p].proved
            \/ \E q \in PeerNames : HasProof(peer[q]) /\ peer[q].proved = peer'[p].proved
            \/ /\ HasProof(peer[p]) /\ IsParentOf(world, peer[p].proved, peer'[p].proved)
               /\ Td(world, peer'[p].proved) = Td(world, peer[p].proved) + Diff(world, peer'[p].proved)

\* C11: a last-state update never discards an existing proof
LastStateKeepsProof ==
    \A p \in PeerNames :
        (HasProof(peer[p]) /\ peer'[p].st \notin {"None", "Init", "ReqFirstLS"}) => HasProof(peer'[p])
=============================================================================
