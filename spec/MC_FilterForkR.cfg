SPECIFICATION RSpec
CONSTANTS
  MaxSetScripts = 3
  AllowKF = {"KF-C03-stale-before-start", "KF-C04-spanning-record", "KF-C09-rollback-number"}
  Depth = 24
INVARIANT Emit
CHECK_DEADLOCK FALSE
