---------------------------- MODULE MC_PeerSync ----------------------------
(***************************************************************************)
(* Bounded model of PeerSync: every interleaving of connect / disconnect / *)
(* time / refresh / announcements / proof answers (honest, invalid, stale, *)
(* unsolicited, tip-state) for the peers of a small world with one fork,   *)
(* one forged child and one unmined block.                                 *)
(***************************************************************************)
EXTENDS PeerSync, Server

CONSTANTS MCPeers, MCLastN, MaxNow, AnnounceSet, ServerTips, HonestOnly, BoundaryChoices

Blk(par, n, d, td, ttd, ep, pow, root) ==
    [parent |-> par, num |-> n, diff |-> d, td |-> td, ttd |-> ttd, ep |-> ep, pow |-> pow, root |-> root]

MCWorld == [blocks |-> <<
    Blk(0, 0, 2,  2,  2, <<0, 0, 0>>, TRUE, TRUE),     \* 1 genesis
    Blk(1, 1, 2,  4,  4, <<0, 1, 3>>, TRUE, TRUE),     \* 2
    Blk(2, 2, 2,  6,  6, <<0, 2, 3>>, TRUE, TRUE),     \* 3
    Blk(3, 3, 2,  8,  8, <<1, 0, 3>>, TRUE, TRUE),     \* 4
    Blk(4, 4, 2, 10, 10, <<1, 1, 3>>, TRUE, TRUE),     \* 5
    Blk(5, 5, 2, 12, 12, <<1, 2, 3>>, TRUE, TRUE),     \* 6
    Blk(6, 6, 2, 14, 14, <<2, 0, 3>>, TRUE, TRUE),     \* 7 main tip
    Blk(5, 5, 2, 12, 12, <<1, 2, 3>>, TRUE, TRUE),     \* 8 fork (same height as 6)
    Blk(8, 6, 4, 16, 16, <<2, 0, 3>>, TRUE, TRUE),     \* 9 fork tip, heavier than 7
    Blk(7, 7, 2, 90, 16, <<2, 1, 3>>, TRUE, TRUE),     \* 10 forged child of 7: chain root claims td 90
    Blk(6, 6, 2, 14, 14, <<2, 0, 3>>, FALSE, TRUE),    \* 11 unmined sibling of 7
    Blk(9, 7, 2, 18, 18, <<2, 1, 3>>, TRUE, TRUE)      \* 12 child of the fork tip (a fork switch 7 -> 12 is requestable:
                                                       \*    9 has the height of 7; used by MC_PeerSync_short.cfg only)
  >>]

MCInit ==
    /\ world = MCWorld
    /\ cfg = [peers |-> MCPeers, lastN |-> MCLastN, allow |-> {}, msgTimeout |-> 2, refreshLag |-> 0]
    /\ now = 0
    /\ peer = [p \in MCPeers |-> NonePeer]
    /\ tip = Genesis /\ tipTD = 0 /\ lastN = <<>>
    /\ out = NoOut

Oracles == {[mode |-> "canon", k |-> k] : k \in BoundaryChoices}

B(x) == IF x THEN "ok" ELSE "bad"

ProofMsgs(p) ==
    LET s == peer[p] IN
    IF ~HasReq(s)
    THEN \* unsolicited: one representative valid-looking message
         {[last |-> b, lastOk |-> TRUE, empty |-> FALSE, nums |-> <<>>, chain |-> b,
           match |-> "ok", root |-> "ok", pow |-> "ok", cont |-> "ok", mmr |-> "ok", tau |-> "ok", td |-> "ok"]
            : b \in {7}}
    ELSE LET answers == {HonestAnswer(world, LastN, s.req, t) : t \in ServerTips} IN
         {[last |-> a.last, lastOk |-> Mined(world, a.last) /\ Rooted(world, a.last),
           empty |-> ~a.onChain, nums |-> a.nums, chain |-> a.last,
           match |-> "ok", root |-> "world", pow |-> "world", cont |-> "ok", mmr |-> "ok",
           tau |-> "world", td |-> "ok"] : a \in answers}
         \cup (IF HonestOnly THEN {} ELSE
               \* one failed check of each kind, on the honest layout
               {[last |-> s.req.last, lastOk |-> TRUE, empty |-> FALSE,
                 nums |-> HonestAnswer(world, LastN, s.req, s.req.last).nums, chain |-> s.req.last,
                 match |-> B(f # "match"), root |-> B(f # "root"), pow |-> B(f # "pow"), cont |-> B(f # "cont"),
                 mmr |-> B(f # "mmr"), tau |-> "ok", td |-> "ok"] : f \in {"match", "root", "pow", "cont", "mmr"}})

MCNext ==
    \/ \E p \in MCPeers : Connect(p) \/ Disconnect(p)
    \/ Advance(1) \/ Advance(3)
    \/ \E o \in Oracles : RefreshTick(o, {}, {})
    \/ \E p \in MCPeers, b \in AnnounceSet :
         \E o \in Oracles :
            RecvLastState(p, [b |-> b, ok |-> Mined(world, b) /\ Rooted(world, b)], o)
    \/ \E p \in MCPeers : \E m \in ProofMsgs(p) :
         \E o \in Oracles : RecvProof(p, m, o)
    \/ Restart

MCSpec == MCInit /\ [][MCNext]_psVars

TimeBound == now <= MaxNow

MCInv ==
    /\ TypeOK
    /\ LastNAncestors
    /\ ProvedAreValid
    /\ (tip # Genesis => TipTruthful)

StepPropsMC == TipOnlyHeavier /\ PeerDiagram /\ ProofOnlyWhenRequested /\ LastStateKeepsProof
MCProps == [][StepPropsMC]_psVars
=============================================================================
