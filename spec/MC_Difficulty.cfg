SPECIFICATION Spec
CONSTANTS
  Lens = {1, 2, 3}
  Ds = {1, 2, 3, 4, 5, 6, 8}
  MaxEpochs = 5
INVARIANT LegalAccepted
CHECK_DEADLOCK FALSE
