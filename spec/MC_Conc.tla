------------------------------ MODULE MC_Conc ------------------------------
(***************************************************************************)
(* C17 at the granularity of one storage write: a fork switch              *)
(* (commit_prove_state on the light-client thread) interleaved with a      *)
(* BlockFilters batch (filter thread), then honest traffic of the new      *)
(* branch until everything is filtered.                                    *)
(*                                                                         *)
(* The fork switch takes the matched-blocks lock only inside               *)
(* rollback_to_fork_number (record removals + rollback_to_block); the tip  *)
(* (update_last_state) and the peer's prove state (update_prove_state,     *)
(* which forgets the peer's latest filter hashes of the abandoned branch)  *)
(* are written after the lock is released.  LockTip = FALSE is that        *)
(* discipline; LockTip = TRUE holds the lock until the prove state is      *)
(* updated.  The BlockFilters handler reads "are there scripts" and the    *)
(* peer's prove state before it takes the lock, everything else under it.  *)
(*                                                                         *)
(* World: main chain blocks 1..7 (heights 0..6), fork 8..10 on top of      *)
(* block 5 (heights 5..7, heavier).  Script 1 (key 2) is registered from   *)
(* 0; it has cells in block 3, in block 6 (old branch) and in block 8 (new *)
(* branch, height 5).  One peer, quorum 1; the peer has reorganised, its    *)
(* old-branch batch may still be in flight (or be sent unsolicited).       *)
(***************************************************************************)
EXTENDS Writes

CONSTANTS LockTip, MaxCrashes

VARIABLES lc,      \* light-client thread: [pc, k]  pc: "idle" "begin" "locked" "unlocked" "stored" "done"
          ft,      \* filter thread: [pc, m, pl, labels, k]  pc: "idle" "pre" "locked" "done"
          lock,    \* "free" | "lc" | "ft"
          phase,   \* 1: the race; 2: sequential honest traffic of the new branch
          crashes

cVars == <<allVars, wctx, lc, ft, lock, phase, crashes>>

P == "p1"
Blk(par, n) == [parent |-> par, num |-> n, diff |-> 2, td |-> 2 * (n + 1), ttd |-> 2 * (n + 1),
                ep |-> <<0, n, 100>>, pow |-> TRUE, root |-> TRUE]
CWorld ==
    [blocks |-> <<Blk(0, 0), Blk(1, 1), Blk(2, 2), Blk(3, 3), Blk(4, 4), Blk(5, 5), Blk(6, 6),
                  Blk(5, 5), Blk(8, 6), Blk(9, 7)>>,
     txs |-> << [b |-> 3, i |-> 0, ins |-> <<>>, outs |-> << <<1, 0, 100, 0>> >>],
                [b |-> 6, i |-> 0, ins |-> <<>>, outs |-> << <<1, 0, 90, 0>> >>],
                [b |-> 8, i |-> 0, ins |-> <<>>, outs |-> << <<1, 0, 80, 0>> >>] >>,
     btx |-> << <<>>, <<>>, <<1>>, <<>>, <<>>, <<2>>, <<>>, <<3>>, <<>>, <<>> >>]

OldTip == 7
NewTip == 10
OldLatest == <<0, <<2, 3, 4, 5, 6, 7>> >>
NewLatest == <<0, <<2, 3, 4, 5, 8, 9, 10>> >>
\* what commit_prove_state decides for the proof of NewTip in the initial store
TipCtx == [moves |-> TRUE, fd |-> [long |-> FALSE, kind |-> "to", f |-> 4],
           tip |-> NewTip, tipTD |-> 16, lastN |-> << <<4, 5>>, <<5, 8>>, <<6, 9>> >>]

ReadyPeer(b, ln) == [st |-> "Ready", last |-> b, lastTs |-> 0, proved |-> b,
                     pLastN |-> ln, pReorg |-> <<>>, req |-> NoReq, when |-> 0]
NoBpr == [on |-> FALSE, last |-> 0, hs |-> <<>>, when |-> 0, get |-> FALSE]
PfOf(latest) == [cps |-> <<0, <<1>> >>, latest |-> latest, bpr |-> NoBpr,
                 br |-> [on |-> FALSE, hs |-> <<>>, when |-> 0], tpr |-> [on |-> FALSE, last |-> 0, hs |-> <<>>, when |-> 0]]

LcIdle == [pc |-> "idle", k |-> 1, labels |-> <<>>]
FtIdle == [pc |-> "idle", m |-> <<>>, pl |-> NoPlan, labels |-> <<>>, k |-> 1]

\* the store after the script was registered from 0 and everything up to height `upTo` was filtered on the old branch
CInit ==
    /\ TLCSet(43, 0) /\ TLCSet(44, 0) /\ TLCSet(45, 0)
    /\ world = CWorld
    /\ cfg = [peers |-> {P}, lastN |-> 3, allow |-> {}, interval |-> 100, maxOut |-> 1, liars |-> {}, msgTimeout |-> 2, refreshLag |-> 0]
    /\ now = 0 /\ peer = [p \in {P} |-> ReadyPeer(OldTip, <<4, 5, 6>>)]
    /\ tip = OldTip /\ tipTD = 14 /\ lastN = << <<3, 4>>, <<4, 5>>, <<5, 6>> >>
    /\ out = NoOut
    /\ startOf = (2 :> 0) /\ mdb = <<>> /\ mmem = {}
    /\ \E upTo \in {2, 4, 5, 6} :
         LET ix == FilterBlocks(CWorld, [cells |-> {}, hist |-> {}, txs |-> {}, hdrs |-> {1}, nums |-> {<<0, 1>>}, hit |-> FALSE],
                                SelectSeq(<<2, 3, 4, 5, 6, 7>>, LAMBDA b : b - 1 <= upTo), {<<2, 0>>})
         IN /\ scripts = {<<2, upTo>>} /\ minF = upTo
            /\ cells = ix.cells /\ hist = ix.hist /\ txs = ix.txs /\ hdrs = ix.hdrs /\ nums = ix.nums
    /\ cpFinal = <<1>> /\ cached = <<0, <<>> >> /\ pf = [p \in {P} |-> PfOf(OldLatest)]
    /\ fetchH = {} /\ fetchT = {} /\ over = {} /\ subst = {}
    /\ wctx = <<>> /\ lc = LcIdle /\ ft = FtIdle /\ lock = "free" /\ phase = 1 /\ crashes = 0

Frame == UNCHANGED <<world, cfg, now, cached, fetchH, fetchT, subst, startOf, cpFinal, crashes>> /\ out' = NoOut
StoreSame == UNCHANGED <<scripts, minF, mdb, tip, tipTD, lastN>> /\ IxUnchanged

(***************************************************************************)
(* light-client thread: the fork switch                                    *)
(***************************************************************************)
LBegin ==   \* the proof passed every check; get_last_state / get_last_n_headers are read (no lock)
    /\ phase = 1 /\ lc.pc = "idle"
    \* (after a crash that came after the tip update the same proof does not move the tip: only the prove state)
    /\ lc' = IF tip = NewTip THEN [pc |-> "stored", k |-> 1, labels |-> <<>>]
              ELSE [pc |-> "begin", k |-> 1, labels |-> TLabels(TipCtx)]
    /\ Frame /\ StoreSame /\ UNCHANGED <<peer, pf, mmem, over, wctx, ft, lock, phase>>

LLock ==    \* rollback_to_fork_number takes the write lock
    /\ lc.pc = "begin" /\ lock = "free"
    /\ lc' = [lc EXCEPT !.pc = "locked"] /\ lock' = "lc"
    /\ Frame /\ StoreSame /\ UNCHANGED <<peer, pf, mmem, over, wctx, ft, phase>>

LWrite ==   \* record removals and the rollback batch, under the lock; the tip afterwards
    /\ \/ lc.pc = "locked" /\ lc.labels[lc.k] # Lbl.uls
       \/ lc.pc = "unlocked" /\ lc.labels[lc.k] = Lbl.uls
    /\ W_Tip(TipCtx, lc.labels[lc.k], lc.k)
    /\ over' = IF lc.labels[lc.k] = Lbl.rb THEN over \cup {e[1] : e \in {x \in scripts : x[2] # (CHOOSE y \in scripts' : y[1] = x[1])[2]}} ELSE over
    /\ lc' = [lc EXCEPT !.k = @ + 1, !.pc = IF lc.labels[lc.k] = Lbl.uls THEN "stored" ELSE @]
    /\ Frame /\ UNCHANGED <<peer, pf, mmem, wctx, ft, lock, phase>>

LUnlock ==  \* matched_blocks.clear(); the guard is dropped at the end of rollback_to_fork_number -- unless LockTip
    /\ lc.pc = "locked" /\ lc.labels[lc.k] = Lbl.uls
    /\ mmem' = {}
    /\ lc' = [lc EXCEPT !.pc = "unlocked"]
    /\ lock' = IF LockTip THEN lock ELSE "free"
    /\ Frame /\ StoreSame /\ UNCHANGED <<peer, pf, over, wctx, ft, phase>>

LProve ==   \* Peers::update_prove_state: the peer is proven on the new branch, its latest hashes are forgotten
    /\ lc.pc = "stored"
    /\ peer' = [peer EXCEPT ![P] = ReadyPeer(NewTip, <<5, 8, 9>>)]
    /\ pf' = [pf EXCEPT ![P].latest = <<0, <<>> >>]
    /\ lc' = [lc EXCEPT !.pc = "done"]
    /\ lock' = IF LockTip /\ lock = "lc" THEN "free" ELSE lock
    /\ Frame /\ StoreSame /\ UNCHANGED <<mmem, over, wctx, ft, phase>>

(***************************************************************************)
(* filter thread: one BlockFilters message of the OLD branch (in flight    *)
(* since before the peer reorganised, or unsolicited)                      *)
(***************************************************************************)
OldBatch(start, n) == [start |-> start, fs |-> [i \in 1..n |-> start + i], hs |-> [i \in 1..n |-> start + i]]

\* process death before any write of either thread (C08) and restart: the threads, the lock, the in-memory map and
\* the peer's session are gone; the peer connects again and sends the same proof
Crash ==
    /\ phase = 1 /\ crashes < MaxCrashes /\ crashes' = crashes + 1
    /\ lc.pc \notin {"idle", "done"} \/ ft.pc \notin {"idle", "done"}
    /\ lc' = LcIdle /\ ft' = [FtIdle EXCEPT !.pc = "done"] /\ lock' = "free" /\ mmem' = {}
    /\ peer' = [peer EXCEPT ![P] = NonePeer]
    /\ pf' = [pf EXCEPT ![P].latest = <<0, <<>> >>]
    /\ UNCHANGED <<world, cfg, now, cached, fetchH, fetchT, subst, startOf, cpFinal, over, wctx, phase>> /\ out' = NoOut
    /\ StoreSame

FBegin ==   \* reads before the lock: scripts registered, the peer has a prove state
    /\ phase = 1 /\ ft.pc = "idle"
    /\ \E start \in 1..6, n \in 1..2 :
          /\ start + n - 1 <= 6
          /\ ft' = [FtIdle EXCEPT !.pc = "pre", !.m = OldBatch(start, n)]
    /\ scripts # {} /\ HasProof(peer[P])
    /\ Frame /\ StoreSame /\ UNCHANGED <<peer, pf, mmem, over, wctx, lc, lock, phase>>

FLock ==    \* everything else is read under the lock
    /\ ft.pc = "pre" /\ lock = "free" /\ lock' = "ft"
    /\ \E pl \in FPlans(P, ft.m) :
          ft' = [ft EXCEPT !.pc = "locked", !.pl = pl,
                           !.labels = IF pl.kind = "none" THEN <<>>
                                      ELSE IF pl.kind = "raise" THEN <<Lbl.ubn>>
                                      ELSE IF pl.must # {} THEN <<Lbl.add, Lbl.umin>>
                                      ELSE IF pl.idle THEN <<Lbl.ubn, Lbl.umin>> ELSE <<Lbl.umin>>]
    /\ Frame /\ StoreSame /\ UNCHANGED <<peer, pf, mmem, over, wctx, lc, phase>>

RECURSIVE SeqOfSet(_)
SeqOfSet(S) == IF S = {} THEN <<>> ELSE LET x == CHOOSE y \in S : \A z \in S : y <= z IN <<x>> \o SeqOfSet(S \ {x})

FWrite ==
    /\ ft.pc = "locked" /\ ft.k <= Len(ft.labels)
    /\ LET label == ft.labels[ft.k] IN
       /\ (label = Lbl.add =>
              LET blocks == SeqOfSet({ft.m.hs[i] : i \in ft.pl.must})
                  rec == <<ft.m.start, ft.pl.limit, [j \in 1..Len(blocks) |-> <<blocks[j], blocks[j] = peer[P].proved>>]>>
              IN mdb' = IF \E at \in 1..Len(mdb) : mdb[at][1] = ft.m.start
                        THEN [i \in 1..Len(mdb) |-> IF mdb[i][1] = ft.m.start THEN rec ELSE mdb[i]]
                        ELSE Append(mdb, rec))
       /\ W_Filters(P, ft.m, ft.pl, label, ft.k)
    /\ ft' = [ft EXCEPT !.k = @ + 1]
    /\ Frame /\ UNCHANGED <<peer, pf, mmem, over, wctx, lc, lock, phase>>

FEnd ==
    /\ ft.pc = "locked" /\ ft.k > Len(ft.labels)
    /\ mmem' = IF Lbl.add \in Range(ft.labels) /\ mmem = {} THEN RecBlocks(mdb[1]) ELSE mmem
    /\ ft' = [ft EXCEPT !.pc = "done"] /\ lock' = "free"
    /\ Frame /\ StoreSame /\ UNCHANGED <<peer, pf, over, wctx, lc, phase>>

(***************************************************************************)
(* phase 2: both are done; the peer serves the new branch honestly, one    *)
(* handler call at a time (atomic steps of FilterSync)                     *)
(***************************************************************************)
Settle ==
    /\ phase = 1 /\ lc.pc = "done" /\ ft.pc \in {"idle", "done"} /\ phase' = 2
    /\ pf' = [pf EXCEPT ![P].latest = NewLatest]           \* BlockFilterHashes of the new branch arrived
    /\ Frame /\ StoreSame /\ UNCHANGED <<peer, mmem, over, wctx, lc, ft, lock>>

NewBatch(n) == [start |-> minF + 1,
                fs |-> [i \in 1..n |-> NewLatest[2][minF + i]],
                hs |-> [i \in 1..n |-> NewLatest[2][minF + i]]]
P2Filters ==
    /\ phase = 2 /\ scripts # {} /\ mdb = <<>>
    /\ \E n \in 1..3 :
        /\ minF + n <= 7
        /\ LET m == NewBatch(n)
               active == Unkey({k \in Keys : NumOf(k) < m.start + n})
               must == {i \in 1..n : Unkey(TouchKeys(m.fs[i])) \cap active # {}}
               blocks == SeqOfSet({m.hs[i] : i \in must})
               rec == <<m.start, n, [j \in 1..Len(blocks) |-> <<blocks[j], blocks[j] = NewTip>>]>>
           IN /\ mdb' = IF must = {} THEN mdb ELSE Append(mdb, rec)
              /\ out' = NoOut
              /\ RecvFilters(P, m)
    /\ UNCHANGED <<cached, pf, fetchH, fetchT, wctx, lc, ft, lock, phase, crashes>>
P2Proof ==
    /\ phase = 2 /\ mmem # {} /\ \E e \in mmem : ~e[2]
    /\ out' = NoOut
    \* only blocks of the proven chain can be proved
    /\ RecvBlocksProofMatched(P, [ok |-> TRUE, get |-> TRUE, found |-> {e[1] : e \in {x \in mmem : IsAnc(world, x[1], tip)}}])
    /\ UNCHANGED <<peer, pf, fetchH, fetchT, over, subst, wctx, lc, ft, lock, phase, crashes>> /\ IxUnchanged
P2Block ==
    /\ phase = 2
    /\ \E e \in mmem : e[2] /\ ~e[3] /\ (out' = NoOut /\ RecvBlock(P, e[1], "true"))
    /\ UNCHANGED <<pf, fetchH, fetchT, wctx, lc, ft, lock, phase, crashes>>
P2Tick ==
    /\ phase = 2 /\ out' = NoOut /\ FilterTick0 /\ UNCHANGED <<cached, pf, wctx, lc, ft, lock, phase, crashes>>

CNext == Crash \/ LBegin \/ LLock \/ LWrite \/ LUnlock \/ LProve \/ FBegin \/ FLock \/ FWrite \/ FEnd
         \/ Settle \/ P2Filters \/ P2Proof \/ P2Block \/ P2Tick
CSpec == CInit /\ [][CNext]_cVars

\* what the client may hold once both handler calls have returned
AllIdle == lc.pc \in {"idle", "done"} /\ ft.pc \in {"idle", "done"}
\* a pending record names blocks of the proven chain (else its download can never be proved: sync is stuck)
PendingOnChain == \A i \in 1..Len(mdb) : \A j \in 1..Len(mdb[i][3]) : IsAnc(world, mdb[i][3][j][1], tip)
CInv ==
    /\ StoreUsable /\ NoForgedData
    /\ (AllIdle /\ lc.pc = "done") => (NoLoss /\ PendingOnChain)
    /\ (phase = 2 /\ Quiet) => Complete
=============================================================================
