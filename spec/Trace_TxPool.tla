--------------------------- MODULE Trace_TxPool ---------------------------
(***************************************************************************)
(* Trace validation for C18: the transaction RPCs and the relay protocol   *)
(* of the real client against TxPool.tla.  The pool is projected after     *)
(* every call: members, and per member the relay peers it was announced to *)
(***************************************************************************)
EXTENDS TxPool, Json, IOUtils, TLC

Rec == ndJsonDeserialize(IOEnv.TRACE)
ToSet(s) == {s[i] : i \in 1..Len(s)}

VARIABLES l, unit      \* unit: cycles of one always_success script group (learnt from the first success)
allv == <<tvars, l, unit>>


PoolMembers(r) == ToSet(r.pool.members)
AnnOf(r, t) == ToSet(r.pool.ann[ToString(t)])

\* the logged pool is the specified one
PoolMatches(r) ==
    /\ ToSetT(pool') = PoolMembers(r)
    /\ \A t \in PoolMembers(r) : ann'[t] = AnnOf(r, t)

HashesSent(r) == {<<m.to, ToSet(m.ts)>> : m \in {x \in ToSet(r.sent) : x.kind = "hashes"}}
TxsSent(r) == {<<m.to, m.ts>> : m \in {x \in ToSet(r.sent) : x.kind = "txs"}}

DescOf(d) == [ins |-> d.ins, deps |-> d.deps, cls |-> d.cls, nouts |-> d.nouts]

SubmitEv(r) ==
    LET t == r.a.t IN
    /\ desc' = IF t \in DOMAIN desc THEN desc ELSE desc @@ (t :> DescOf(r.a.desc))
    /\ LET d == desc' IN
       \* Submit of module TxPool, evaluated with the (possibly new) description
       /\ r.res = (IF d[t].cls = "valid" /\ \A x \in ToSetT(d[t].ins) \cup ToSetT(d[t].deps) :
                                               (x[1] \in DOMAIN stored \/ InPool(x[1]))
                                               /\ x[2] < (IF x[1] \in DOMAIN stored THEN stored[x[1]] ELSE d[x[1]].nouts)
                   THEN "ok" ELSE "err")
       /\ IF r.res = "ok" /\ r.a.kind = "send"
          THEN /\ pool' = Pushed(t)
               /\ ann' = [x \in ToSetT(Pushed(t)) |-> IF x \in DOMAIN ann THEN ann[x] ELSE {}]
          ELSE UNCHANGED <<pool, ann>>
    /\ reply' = {} /\ r.sent = <<>>
    /\ ever' = {pr \in ever : pr[2] \in ToSetT(pool')}
    /\ UNCHANGED <<stored, limit, opened>>
    \* the cycles the scripts consumed: the same for the same number of script groups, and what estimate says
    /\ IF r.res = "ok" /\ r.a.kind = "estimate"
       THEN IF unit = 0 THEN unit' = r.cycles \div r.a.desc.groups /\ r.cycles > 0
            ELSE unit' = unit /\ r.cycles = unit * r.a.desc.groups
       ELSE unit' = unit

GetTxEv(r) ==
    /\ UNCHANGED <<desc, stored, limit, pool, ann, opened, ever>> /\ reply' = {} /\ unit' = unit
    /\ r.status = TxStatus(r.a.t)
    /\ r.hasTx = (r.status # "unknown")
    /\ (r.status = "pending" /\ unit # 0) => r.cycles > 0

RelayEv(r) ==
    /\ unit' = unit
    /\ CASE r.ev = "RelayConnect" -> RelayConnect(r.a.p)
         [] r.ev = "RelayDisconnect" -> RelayDisconnect(r.a.p)
         [] r.ev = "RelayTick" -> RelayTick
         [] OTHER -> FALSE
    /\ HashesSent(r) = reply'
    /\ TxsSent(r) = {}

GetRelayTxsEv(r) ==
    /\ UNCHANGED <<desc, stored, limit, pool, ann, opened, ever>> /\ reply' = {} /\ unit' = unit
    \* the reply carries exactly the requested transactions that are pending, in the order requested
    /\ TxsSent(r) = {<<r.a.p, SelectSeq(r.a.ts, LAMBDA t : InPool(t))>>}
    /\ HashesSent(r) = {}

TraceInit ==
    /\ l = 1 /\ unit = 0
    /\ LET r == Rec[1] IN
       /\ r.ev = "Reset"
       /\ desc = <<>> /\ limit = r.limit
       /\ stored = [t \in {k \in 1..100000 : ToString(k) \in DOMAIN r.stored} |-> r.stored[ToString(t)]]
       /\ pool = <<>> /\ ann = <<>> /\ opened = {} /\ ever = {} /\ reply = {}

TraceNext ==
    /\ l < Len(Rec)
    /\ l' = l + 1
    /\ LET r == Rec[l + 1] IN
       IF r.ev = "Reset"
       THEN /\ desc' = <<>> /\ limit' = r.limit /\ unit' = 0
            /\ stored' = [t \in {k \in 1..100000 : ToString(k) \in DOMAIN r.stored} |-> r.stored[ToString(t)]]
            /\ pool' = <<>> /\ ann' = <<>> /\ opened' = {} /\ ever' = {} /\ reply' = {}
       ELSE /\ CASE r.ev = "Submit" -> SubmitEv(r)
                 [] r.ev = "GetTx" -> GetTxEv(r)
                 [] r.ev \in {"RelayConnect", "RelayDisconnect", "RelayTick"} -> RelayEv(r)
                 [] r.ev = "GetRelayTxs" -> GetRelayTxsEv(r)
                 [] OTHER -> FALSE
            /\ PoolMatches(r)

TraceSpec == TraceInit /\ [][TraceNext]_allv
TraceInv == PoolBounded /\ PoolNoDup /\ OnlyValidPending
P_AnnounceOnce == [][Rec[l'].ev # "Reset" => \A pr \in reply' : \A t \in pr[2] : <<pr[1], t>> \notin ever]_allv

TraceAccepted ==
    LET d == TLCGet("stats").diameter IN
    IF d = Len(Rec) THEN TRUE
    ELSE /\ PrintT(<<"TRACE-REJECTED line", d + 1, "scenario", Rec[d + 1].sc, "event", Rec[d + 1].ev>>)
         /\ FALSE
=============================================================================
