SPECIFICATION Spec
CONSTANTS
  Peers = {p1, p2, p3}
  Liars = {p3}
  MaxOut = 3
  I = 2
  MaxIdx = 2
  MaxMsg = 3
INVARIANTS TypeOK WrongNeverFinal
PROPERTIES AppendOnly Quorum NotBlocked ContradictorsBanned
CHECK_DEADLOCK FALSE
