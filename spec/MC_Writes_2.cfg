SPECIFICATION WSpec
CONSTANTS
  MaxSetScripts = 2
  MaxCrashes = 2
  LockOn = TRUE
  AllowKF = {"KF-C03-stale-before-start"}
INVARIANT WInv
CHECK_DEADLOCK FALSE
