-------------------------- MODULE Trace_Difficulty --------------------------
(***************************************************************************)
(* Trace validation for C14: every logged call of the real verify_tau /    *)
(* verify_total_difficulty is judged by module Difficulty.                 *)
(*   Check events (small numbers): the verdicts must equal the             *)
(*     transcription (which MC_Difficulty model-checks against the legal   *)
(*     histories and the must-reject list); a logged legal history is      *)
(*     re-checked to be legal (it is the witness) and must be accepted.    *)
(*   Big events (256-bit scale, thousands of epochs): legal histories must *)
(*     be accepted; nothing may abort.                                     *)
(***************************************************************************)
EXTENDS Difficulty, Json, IOUtils, TLC, FiniteSets

Rec == ndJsonDeserialize(IOEnv.TRACE)
Allow == IF "ALLOW" \in DOMAIN IOEnv THEN IOEnv.ALLOW ELSE ""

VARIABLE l

E(ep) == ep[1] * ep[2]
RECURSIVE SumE(_, _)
SumE(h, m) == IF m = 0 THEN 0 ELSE SumE(h, m - 1) + E(h[m])

\* the logged history is legal and the two positions are where the event says
WitnessOk(a) ==
    LET h == a.hist p == a.p q == a.q IN
    /\ \A i \in 1..(Len(h) - 1) : LegalSwitch(E(h[i]), E(h[i + 1]))
    /\ p[2] < h[p[1]][1] /\ q[2] < h[q[1]][1]
    /\ a.e1[2] = p[2] /\ a.e1[3] = h[p[1]][1] /\ a.d1 = h[p[1]][2]
    /\ a.e2[2] = q[2] /\ a.e2[3] = h[q[1]][1] /\ a.d2 = h[q[1]][2]
    /\ a.e2[1] - a.e1[1] = q[1] - p[1]
    /\ a.t1 = a.base + SumE(h, p[1] - 1) + h[p[1]][2] * (p[2] + 1)
    /\ a.t2 = a.base + SumE(h, q[1] - 1) + h[q[1]][2] * (q[2] + 1)

CheckEv(r) ==
    LET a == r.a
        spec == VerifyTotalDifficulty(a.e1, a.d1, a.t1, a.e2, a.d2, a.t2)
    IN \* the code is the transcription
       /\ r.vtd = spec
       \* verify_tau is only ever called with the epochs in order or equal; out of order it reports the message
       /\ r.vtau = (IF a.e2[1] < a.e1[1] THEN "ban" ELSE VerifyTau(a.e1, a.d1, a.e2, a.d2))
       \* what the property lists is rejected
       /\ (a.e1[2] < a.e1[3] /\ a.e2[2] < a.e2[3] /\ MustReject(a.e1, a.d1, a.t1, a.e2, a.d2, a.t2)) => r.vtd = "reject"
       \* what a legal history produced is accepted
       /\ a.cls = "legal" =>
            /\ WitnessOk(a)
            /\ r.vtau = "ok"
            /\ \/ r.vtd = "ok"
               \/ /\ Allow # ""
                  /\ InTightEnvelope(a.e1, a.d1, a.t1, a.e2, a.d2, a.t2)
                  /\ PrintT(<<"KNOWN-FINDING", "KF-C14-envelope", a.hist, a.p, a.q>>)

BigEv(r) ==
    /\ r.vtd # "panic" /\ r.vtau # "panic"
    /\ r.a.cls = "legal-tame" => (r.vtd = "ok" /\ r.vtau = "ok")

TraceInit == l = 1
TraceNext ==
    /\ l < Len(Rec)
    /\ l' = l + 1
    /\ LET r == Rec[l + 1] IN
       CASE r.ev = "Reset" -> TRUE
         [] r.ev = "Check" -> CheckEv(r)
         [] r.ev = "Big" -> BigEv(r)
         [] OTHER -> FALSE
TraceSpec == TraceInit /\ [][TraceNext]_l

TraceAccepted ==
    LET d == TLCGet("stats").diameter IN
    IF d = Len(Rec) THEN TRUE
    ELSE /\ PrintT(<<"TRACE-REJECTED line", d + 1, "scenario", Rec[d + 1].sc, "event", Rec[d + 1].ev>>)
         /\ FALSE
=============================================================================
