-------------------------- MODULE MC_CheckPointsR --------------------------
(***************************************************************************)
(* Specification -> implementation for the check point machinery (C07):    *)
(* behaviours of MC_CheckPoints as scenarios for the real client.  Events: *)
(* a peer connects / disconnects / gets proven, reports a check point      *)
(* vector (start number, values: 1 = the true value, 2 = an invented one), *)
(* the refresh tick finalizes, the process restarts.  The harness          *)
(* (filtersync mode=cpreplay) executes them on a real chain with the same  *)
(* interval; the recorded trace is judged by Trace_FilterSync.             *)
(***************************************************************************)
EXTENDS MC_CheckPoints, Json

CONSTANTS Depth
VARIABLE path
rVars == <<vars, path>>

Ev(k, p, s, v) == [k |-> k, p |-> p, s |-> s, v |-> v]

\* (the scenarios start with two honest peers connected and proven: a random walk from the empty state rarely gets
\*  as far as a finalization; MC_CheckPoints explores the rest)
RInit ==
    /\ final = <<1>> /\ startCp = 0 /\ lastData = <<>>
    /\ conn = {"p1", "p2"} /\ proven = {"p1", "p2"}
    /\ cps = [p \in Peers |-> IF p \in {"p1", "p2"} THEN <<0, <<1>> >> ELSE NoCps]
    /\ path = <<Ev("Connect", "p1", 0, <<>>), Ev("Prove", "p1", 0, <<>>), Ev("Connect", "p2", 0, <<>>), Ev("Prove", "p2", 0, <<>>)>>

\* honest peers send well-formed vectors here (two or three values); MC_CheckPoints explores the other shapes too
RMsgs(p) ==
    IF p \in Liars THEN Msgs(p)
    ELSE LET next == NumberOfLast(cps[p], I)
             room == MaxIdx - (CpStart(cps[p]) + Len(CpVals(cps[p])) - 1)
         IN {<<next, [k \in 1..n |-> 1]>> : n \in 2..(IF room + 1 < 3 THEN room + 1 ELSE 3)}

RReport(p) ==
    /\ p \in conn
    /\ p \in proven                      \* (a report of an unproven peer is ignored)
    /\ \E m \in RMsgs(p) :
        /\ path' = Append(path, Ev("Report", p, m[1], m[2]))
        /\ IF p \notin proven THEN UNCHANGED vars
           ELSE LET r == AddCheckPoints(cps[p], I, Proved, m[1], m[2]) IN
                IF r.ok THEN cps' = [cps EXCEPT ![p] = r.cps] /\ UNCHANGED <<final, conn, proven, startCp, lastData>>
                ELSE Drop({p}) /\ UNCHANGED <<final, startCp, lastData>>

RNext ==
    /\ Len(path) < Depth
    /\ \/ \E p \in Peers : Connect(p) /\ path' = Append(path, Ev("Connect", p, 0, <<>>))
       \/ \E p \in Peers : Disconnect(p) /\ path' = Append(path, Ev("Disconnect", p, 0, <<>>))
       \/ \E p \in Peers : Prove(p) /\ path' = Append(path, Ev("Prove", p, 0, <<>>))
       \/ \E p \in Peers : RReport(p)
       \/ Refresh /\ path' = Append(path, Ev("Refresh", "", 0, <<>>))
       \/ /\ \A i \in 1..Len(path) : path[i].k # "Restart"
          /\ Restart /\ path' = Append(path, Ev("Restart", "", 0, <<>>))

RSpec == RInit /\ [][RNext]_rVars

Emit == (Len(path) = Depth) => PrintT(<<"REPLAY", ToJson(path)>>)
=============================================================================
