\* the write chain of set_scripts BEFORE the fix (three writes): TLC must find the violation (expected to fail)
SPECIFICATION WSpec
CONSTANTS
  MaxSetScripts = 2
  MaxCrashes = 1
  LockOn = TRUE
  AllowKF = {"KF-C03-stale-before-start"}
  SSSplit <- SplitOn
INVARIANT WInv
CHECK_DEADLOCK FALSE
