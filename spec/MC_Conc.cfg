\* the lock discipline of the code: the fork switch holds the matched-blocks lock until the prove state is updated
SPECIFICATION CSpec
CONSTANTS
  LockTip = TRUE
  MaxCrashes = 1
INVARIANT CInv
CHECK_DEADLOCK FALSE
