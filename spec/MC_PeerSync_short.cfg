SPECIFICATION MCSpec
CONSTANTS
  MCPeers = {"p1", "p2"}
  MCLastN = 10
  MaxNow = 3
  AnnounceSet = {5, 7, 12}
  ServerTips = {7, 12}
  HonestOnly = FALSE
  BoundaryChoices = {0}
CONSTRAINT TimeBound
INVARIANT MCInv
PROPERTY MCProps
CHECK_DEADLOCK FALSE
