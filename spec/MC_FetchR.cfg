SPECIFICATION RSpec
CONSTANTS
  FPeers = {"p1", "p2"}
  HeaderIds <- HeaderIdsR
  TxIds <- TxIdsR
  MaxDisc = 3
  MaxBad = 2
  MarkOnReject = TRUE
  Depth = 24
INVARIANT Emit
CHECK_DEADLOCK FALSE
