SPECIFICATION Spec
CONSTANTS
  Lens = {1, 2, 3}
  Ds = {1, 2, 3, 4, 6}
  MaxEpochs = 5
INVARIANT LegalAccepted
CHECK_DEADLOCK FALSE
