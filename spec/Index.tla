------------------------------- MODULE Index -------------------------------
(***************************************************************************)
(* The script index (Storage::filter_block / rollback_to_block) over the   *)
(* world's transaction graph, and the ground truth it is compared with.    *)
(*                                                                         *)
(*   w.txs[t]  = [b, i, ins, outs]   block id, index in block,             *)
(*               ins  = << <<prev tx, prev output index>> ... >>            *)
(*               outs = << <<lock script, type script (0 none), cap, dlen>> *)
(*   w.btx[b]  = transactions of block b, in order (cellbase first)        *)
(*   script key sk = 2 * script id + (0 lock | 1 type); 0 = foreign script *)
(*                                                                         *)
(*   index = [cells, hist, txs, hdrs, nums]                                *)
(*     cells: <<sk, num, txIndex, outIndex, tx>>                           *)
(*     hist : <<sk, num, txIndex, ioIndex, ioType (0 in, 1 out), tx>>      *)
(*     txs  : <<tx, num, txIndex>>   (txIndex = -1: stored by fetch)       *)
(*     hdrs : block ids;  nums: <<num, block>>                             *)
(***************************************************************************)
EXTENDS World, TLC

TxOf(w, t) == w.txs[t]
OutScriptKeys(out) == {2 * out[1]} \cup (IF out[2] = 0 THEN {} ELSE {2 * out[2] + 1})
\* script keys of output o (0-based index) of tx t, restricted to the registered keys S
KeysOfOutput(w, t, o, S) == OutScriptKeys(TxOf(w, t).outs[o + 1]) \cap S

StoredTx(ix, t) == {e \in ix.txs : e[1] = t}

\* A transaction can be mined in several blocks of the world (on different branches: after a reorganisation most
\* transactions of the abandoned blocks are mined again).  Every copy is a world transaction of its own (own
\* block, own index, inputs named as they are known on its branch); w.txs[t].h is the class of copies with the
\* same hash.  The store keys transactions by hash: its one record per hash names the position of ONE copy.
Cls(w, t) == IF t >= 1 /\ t <= Len(w.txs) /\ "h" \in DOMAIN w.txs[t] THEN w.txs[t].h ELSE t
StoredTxW(w, ix, t) == {e \in ix.txs : Cls(w, e[1]) = Cls(w, t)}
\* the copy of t that is mined at (num, idx), t itself if there is none
TwinAt(w, t, num, idx) ==
    LET c == {u \in 1..Len(w.txs) : Cls(w, u) = Cls(w, t) /\ Num(w, w.txs[u].b) = num /\ w.txs[u].i = idx}
    IN IF c = {} THEN t ELSE CHOOSE u \in c : TRUE

RECURSIVE ApplyOutputs(_, _, _, _, _, _, _)
ApplyOutputs(w, ix, t, num, ti, o, S) ==
    IF o >= Len(TxOf(w, t).outs) THEN ix
    ELSE LET ks == KeysOfOutput(w, t, o, S) IN
         ApplyOutputs(w,
             IF ks = {} THEN ix
             \* (the store is a key-value map: a put at an existing key -- possible only when an entry of an
             \*  abandoned branch was left behind at the same position -- replaces the value)
             ELSE [ix EXCEPT !.cells = {c \in @ : ~(c[1] \in ks /\ <<c[2], c[3], c[4]>> = <<num, ti, o>>)}
                                         \cup {<<k, num, ti, o, t>> : k \in ks},
                             !.hist  = {h \in @ : ~(h[1] \in ks /\ <<h[2], h[3], h[4], h[5]>> = <<num, ti, o, 1>>)}
                                         \cup {<<k, num, ti, o, 1, t>> : k \in ks},
                             !.txs   = {e \in @ : Cls(w, e[1]) # Cls(w, t)} \cup {<<t, num, ti>>},
                             !.hit   = TRUE],
             t, num, ti, o + 1, S)

RECURSIVE ApplyInputs(_, _, _, _, _, _, _, _, _)
\* local: transactions of the same block seen so far: tx -> its index
\* db: the index as stored BEFORE this block's write batch (get_transaction reads the database,
\* which does not see the puts of the batch being built); the block-local map is consulted first
ApplyInputs(w, ix, t, num, ti, ii, S, local, db) ==
    IF ii >= Len(TxOf(w, t).ins) THEN ix
    ELSE LET prev == TxOf(w, t).ins[ii + 1]
             pt == prev[1]
             po == prev[2]
             \* get_transaction(prev) from the store, else the block-local map
             gen == IF pt = 0 THEN <<>>
                    ELSE IF pt \in DOMAIN local THEN <<num, local[pt]>>
                    ELSE IF StoredTxW(w, db, pt) # {}
                         THEN LET e == CHOOSE e \in StoredTxW(w, db, pt) : TRUE IN <<e[2], e[3]>>
                    ELSE <<>>
             ks == IF gen = <<>> \/ pt = 0 THEN {}
                   ELSE IF po + 1 > Len(TxOf(w, pt).outs) THEN {}
                   ELSE KeysOfOutput(w, pt, po, S)
         IN ApplyInputs(w,
             IF ks = {} THEN ix
             ELSE [ix EXCEPT !.cells = {c \in @ : ~(c[1] \in ks /\ <<c[2], c[3], c[4]>> = <<gen[1], gen[2], po>>)},
                             !.hist  = {h \in @ : ~(h[1] \in ks /\ <<h[2], h[3], h[4], h[5]>> = <<num, ti, ii, 0>>)}
                                         \cup {<<k, num, ti, ii, 0, t>> : k \in ks},
                             !.txs   = {e \in @ : Cls(w, e[1]) # Cls(w, t)} \cup {<<t, num, ti>>},
                             !.hit   = TRUE],
             t, num, ti, ii + 1, S, local, db)

RECURSIVE ApplyTxs(_, _, _, _, _, _, _, _)
ApplyTxs(w, ix, b, num, k, S, local, db) ==
    IF k > Len(w.btx[b]) THEN ix
    ELSE LET t == w.btx[b][k]
             ti == k - 1
             ix1 == ApplyInputs(w, ix, t, num, ti, 0, S, local, db)
             ix2 == ApplyOutputs(w, ix1, t, num, ti, 0, S)
         IN ApplyTxs(w, ix2, b, num, k + 1, S, local @@ (t :> ti), db)

\* Storage::filter_block for block b with the registered script keys S
FilterBlock(w, ix, b, S) ==
    LET r == ApplyTxs(w, [ix EXCEPT !.hit = FALSE], b, Num(w, b), 1, S, <<>>, ix) IN
    IF r.hit
    THEN [r EXCEPT !.hdrs = @ \cup {b},
                   !.nums = {e \in @ : e[1] # Num(w, b)} \cup {<<Num(w, b), b>>}]
    ELSE r

RECURSIVE FilterBlocks(_, _, _, _)
\* bs: sequence of blocks in number order; sc: set of <<sk, number>>.  A block is indexed only for
\* the scripts that are not yet filtered beyond it (number <= the block's number)
FilterBlocks(w, ix, bs, sc) ==
    IF bs = <<>> THEN ix
    ELSE FilterBlocks(w, FilterBlock(w, ix, Head(bs), {e[1] : e \in {x \in sc : x[2] <= Num(w, Head(bs))}}),
                      Tail(bs), sc)

\* Storage::rollback_to_block(x) for the script keys R (those whose number >= x)
Rollback(w, ix, x, R) ==
    LET gone == {h \in ix.hist : h[1] \in R /\ h[2] >= x}
        restored == UNION {
            LET prev == TxOf(w, h[6]).ins[h[4] + 1]
                st == StoredTxW(w, ix, prev[1])
            IN IF st = {} THEN {}
               ELSE LET e == CHOOSE e \in st : TRUE IN
                    IF e[2] >= x THEN {} ELSE {<<h[1], e[2], e[3], prev[2], TwinAt(w, prev[1], e[2], e[3])>>}
            : h \in {g \in gone : g[5] = 0}}
        created == {<<h[1], h[2], h[3], h[4], h[6]>> : h \in {g \in gone : g[5] = 1}}
    IN [ix EXCEPT !.hist = @ \ gone, !.cells = (@ \ created) \cup restored]

(***************************************************************************)
(* Ground truth.  ch = Chain(w, tip): ch[n + 1] is the canonical block at  *)
(* height n.                                                               *)
(***************************************************************************)
BlockTxs(w, b) == {w.btx[b][k] : k \in 1..Len(w.btx[b])}

\* all <<sk, num, ti, oi, t>> created on the canonical chain in blocks lo < num <= hi for key sk
CreatedOn(w, ch, sk, lo, hi) ==
    UNION {UNION {{<<sk, n, TxOf(w, t).i, o, t>> :
                        o \in {o \in 0..(Len(TxOf(w, t).outs) - 1) : sk \in OutScriptKeys(TxOf(w, t).outs[o + 1])}}
                  : t \in BlockTxs(w, ch[n + 1])}
           : n \in {m \in (lo + 1)..hi : m + 1 <= Len(ch)}}

\* <<prev tx, prev out>> spent on the canonical chain by blocks with number <= hi
SpentOn(w, ch, hi) ==
    UNION {UNION {{TxOf(w, t).ins[i] : i \in 1..Len(TxOf(w, t).ins)} : t \in BlockTxs(w, ch[n + 1])}
           : n \in {m \in 0..hi : m + 1 <= Len(ch)}}

\* is transaction t on the canonical chain at height n with index ti
OnCanon(w, ch, t, n, ti) ==
    /\ t >= 1 /\ t <= Len(w.txs)
    /\ n + 1 <= Len(ch)
    /\ TxOf(w, t).b = ch[n + 1]
    /\ TxOf(w, t).i = ti
=============================================================================
