SPECIFICATION TraceSpec
INVARIANT TraceInv
POSTCONDITION TraceAccepted
CHECK_DEADLOCK FALSE
