---------------------------- MODULE MC_Difficulty ----------------------------
(***************************************************************************)
(* The chain's difficulty history as a transition system: epochs of some   *)
(* length and block difficulty are appended one at a time, every switch    *)
(* obeying the adjustment bound TAU.  In every reachable history, for      *)
(* every pair of blocks (start before end), the verifier's checks          *)
(* (VerifyTau, VerifyTotalDifficulty of module Difficulty -- transcribed   *)
(* from the code and bound to it by Trace_Difficulty) must accept: C14,    *)
(* "accept every legal difficulty history".                                *)
(***************************************************************************)
EXTENDS Difficulty, FiniteSets, TLC, IOUtils

CONSTANTS Lens, Ds, MaxEpochs

VARIABLES hist      \* sequence of <<length, block difficulty>>
E(ep) == ep[1] * ep[2]

Init == TLCSet(42, 0) /\ \E L \in Lens, d \in Ds : hist = << <<L, d>> >>
AppendEpoch ==
    /\ Len(hist) < MaxEpochs
    /\ \E L \in Lens, d \in Ds :
        /\ LegalSwitch(E(hist[Len(hist)]), L * d)
        /\ hist' = Append(hist, <<L, d>>)
Next == AppendEpoch
Spec == Init /\ [][Next]_hist

RECURSIVE SumE(_, _)
SumE(h, m) == IF m = 0 THEN 0 ELSE SumE(h, m - 1) + E(h[m])
\* total difficulty of the block at epoch i (1-based), index a (0-based)
TdAt(i, a) == SumE(hist, i - 1) + hist[i][2] * (a + 1)
Blocks == {<<i, a>> : i \in 1..Len(hist), a \in 0..2} \cap {p \in (1..Len(hist)) \X (0..2) : p[2] < hist[p[1]][1]}
Before(p, q) == p[1] < q[1] \/ (p[1] = q[1] /\ p[2] < q[2])
Ep(p) == <<p[1], p[2], hist[p[1]][1]>>

Allow == IF "ALLOW" \in DOMAIN IOEnv THEN IOEnv.ALLOW ELSE ""
\* KF-C14-envelope: the code's estimate of the reachable range is not an envelope -- it rejects some totals
\* that lie inside the tight one (the legal history at hand is the witness)
KnownGap(p, q) ==
    /\ Allow # "" /\ InTightEnvelope(Ep(p), hist[p[1]][2], TdAt(p[1], p[2]), Ep(q), hist[q[1]][2], TdAt(q[1], q[2]))
    /\ (TLCGet(42) = 0 => /\ TLCSet(42, 1)
                          /\ PrintT(<<"KNOWN-FINDING", "KF-C14-envelope", hist, p, q>>))

LegalAccepted ==
    \A p \in Blocks, q \in Blocks :
        Before(p, q) =>
            /\ VerifyTau(Ep(p), hist[p[1]][2], Ep(q), hist[q[1]][2]) = "ok"
            \* every legal history lies in the tight envelope ...
            /\ (q[1] - p[1] >= 2 => InTightEnvelope(Ep(p), hist[p[1]][2], TdAt(p[1], p[2]), Ep(q), hist[q[1]][2], TdAt(q[1], q[2])))
            /\ ~MustReject(Ep(p), hist[p[1]][2], TdAt(p[1], p[2]), Ep(q), hist[q[1]][2], TdAt(q[1], q[2]))
            \* ... and is accepted
            /\ \/ VerifyTotalDifficulty(Ep(p), hist[p[1]][2], TdAt(p[1], p[2]), Ep(q), hist[q[1]][2], TdAt(q[1], q[2])) = "ok"
               \/ KnownGap(p, q)

\* the verdict on arbitrary numbers: everything the property lists is rejected
WellFormed(e) == e[2] < e[3]
GridE == {e \in {<<0, i, L>> : i \in 0..3, L \in 1..3} : WellFormed(e)}
RejectGrid ==
    \A e1 \in GridE, n \in 0..4, i2 \in 0..3, L2 \in 1..3, d1 \in {1, 2, 3, 5, 8}, d2 \in {1, 2, 3, 5, 8} :
        LET e2 == <<n, i2, L2>>
            top == d1 * 3 + d2 * 4 + PureGrowth(d1 * e1[3], 4) + 3
        IN \A t2 \in 0..top :
             (WellFormed(e2) /\ MustReject(e1, d1, 2, e2, d2, t2)) => VerifyTotalDifficulty(e1, d1, 2, e2, d2, t2) = "reject"
ASSUME RejectGrid
=============================================================================
