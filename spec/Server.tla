------------------------------- MODULE Server -------------------------------
(***************************************************************************)
(* The RFC 44 server algorithm (DESIGN.md appendix A) as operators over    *)
(* the world: what an honest full node answers to GetLastStateProof.       *)
(* Used by the model-checking configurations to generate honest answers    *)
(* (the harness has the same algorithm in Rust, HonestPeer).               *)
(***************************************************************************)
EXTENDS World

RECURSIVE FirstWithTd(_, _, _, _, _)
\* first height n in lo..hi whose block on chain(b) has total difficulty >= d; hi + 1 if none
FirstWithTd(w, b, lo, hi, d) ==
    IF lo > hi THEN hi + 1
    ELSE IF Td(w, AncAt(w, b, lo)) >= d THEN lo
    ELSE FirstWithTd(w, b, lo + 1, hi, d)

Interval(a, b) == [i \in 1..(IF b >= a THEN b - a + 1 ELSE 0) |-> a + i - 1]

RECURSIVE SamplesFor(_, _, _, _, _, _)
\* heights selected by the difficulties ds (in order), consecutive duplicates removed
SamplesFor(w, b, lo, bb, ds, acc) ==
    IF ds = <<>> THEN acc
    ELSE LET n == FirstWithTd(w, b, lo, bb - 1, Head(ds)) IN
         IF n > bb - 1 THEN SamplesFor(w, b, lo, bb, Tail(ds), acc)
         ELSE IF acc # <<>> /\ acc[Len(acc)] = n THEN SamplesFor(w, b, lo, bb, Tail(ds), acc)
         ELSE SamplesFor(w, b, lo, bb, Tail(ds), Append(acc, n))

\* r = request [last, startNum, start, bnd, ds], lastN = last_n_blocks of the request,
\* t = tip of the server.  Result: [onChain, last, nums] (nums = heights in message order)
HonestAnswer(w, lastN, r, t) ==
    IF ~IsAnc(w, r.last, t)
    THEN [onChain |-> FALSE, last |-> t, nums |-> <<>>]
    ELSE
    LET ln == Num(w, r.last)
        startOn == r.startNum = 0 \/ (r.startNum <= ln /\ AncAt(w, r.last, r.startNum) = r.start)
        reorg == IF startOn THEN <<>>
                 ELSE Interval(r.startNum - Min(r.startNum - 1, lastN), r.startNum - 1)
    IN IF ln - r.startNum <= lastN
       THEN [onChain |-> TRUE, last |-> r.last, nums |-> reorg \o Interval(r.startNum, ln - 1)]
       ELSE LET bb0 == FirstWithTd(w, r.last, r.startNum + 1, ln, r.bnd)
                bb == IF ln - bb0 < lastN THEN ln - lastN ELSE bb0
                limit == Td(w, AncAt(w, r.last, bb - 1))
                ds == SelectSeq(r.ds, LAMBDA d : d <= limit)
            IN [onChain |-> TRUE, last |-> r.last,
                nums |-> reorg \o SamplesFor(w, r.last, r.startNum, bb, ds, <<>>) \o Interval(bb, ln - 1)]
=============================================================================
