SPECIFICATION Spec
CONSTANTS
  Peers = {p1, p2}
  Liars = {p2}
  MaxOut = 2
  I = 2
  MaxIdx = 3
  MaxMsg = 3
INVARIANTS TypeOK WrongNeverFinal
PROPERTIES AppendOnly Quorum NotBlocked ContradictorsBanned
CHECK_DEADLOCK FALSE
