--------------------------- MODULE Trace_PeerSync ---------------------------
(***************************************************************************)
(* Trace validation of the real client against PeerSync.                   *)
(* The harness logs, after every event, the event with its arguments, the  *)
(* observable outputs and the FULL projected abstract state.  Every line   *)
(* must be a step of the specification; all invariants are evaluated on    *)
(* every logged state, all action properties on every logged step.         *)
(* Several scenarios are concatenated; a Reset line starts a new one       *)
(* (new world, new configuration).                                         *)
(***************************************************************************)
EXTENDS PeerSync, Json, IOUtils

Rec == ndJsonDeserialize(IOEnv.TRACE)

VARIABLE l

ToSet(s) == {s[i] : i \in DOMAIN s}

\* ids of the known findings whose deviation actions are enabled (empty = strict)
AllowIds == IF "ALLOW" \in DOMAIN IOEnv THEN IOEnv.ALLOW ELSE ""
Allow == {id \in {"KF-C05-stale-longfork", "KF-C05-notlonger", "KF-C14-envelope"} : \E i \in 1..(Len(AllowIds) - Len(id) + 1) : SubSeq(AllowIds, i, i + Len(id) - 1) = id}

CfgOf(r) == [peers |-> ToSet(r.cfg.peers), lastN |-> r.cfg.lastN, allow |-> Allow, msgTimeout |-> 60, refreshLag |-> 8]

LcKinds == {"GetLastState", "GetLastStateProof"}
SentOf(r) == {m \in ToSet(r.out.sent) : m.kind \in LcKinds}
OutOf(r) == [ban |-> ToSet(r.out.ban), drop |-> ToSet(r.out.drop), sent |-> SentOf(r)]

LoadInit(r) ==
    /\ world = r.world /\ cfg = CfgOf(r)
    /\ now = r.st.now /\ peer = r.st.peer
    /\ tip = r.st.tip /\ tipTD = r.st.tipTD /\ lastN = r.st.lastN
    /\ out = OutOf(r)

Load(r) ==
    /\ now' = r.st.now /\ peer' = r.st.peer
    /\ tip' = r.st.tip /\ tipTD' = r.st.tipTD /\ lastN' = r.st.lastN
    /\ out' = OutOf(r)

\* choices the code makes and the log shows: the request built, the peer copied from
Oracle(r) ==
    [mode |-> "log", k |-> 0,
     req  |-> [p \in PeerNames |-> r.st.peer[p].req],
     copy |-> [p \in PeerNames |->
                LET cands == {q \in PeerNames : /\ HasProof(peer[q])
                                                /\ peer[q].proved = r.st.peer[p].proved
                                                /\ peer[q].pLastN = r.st.peer[p].pLastN
                                                /\ peer[q].pReorg = r.st.peer[p].pReorg}
                IN IF cands = {} THEN "nobody" ELSE CHOOSE q \in cands : TRUE]]

MsgOf(a) ==
    [last |-> a.last, lastOk |-> a.lastOk, empty |-> a.empty,
     nums |-> a.reorg \o a.samples \o a.lastn, chain |-> a.chain,
     match |-> a.attrs.match, root |-> a.attrs.root, pow |-> a.attrs.pow,
     cont |-> a.attrs.cont, mmr |-> a.attrs.mmr, tau |-> a.attrs.tau, td |-> a.attrs.td]

\* C05: after the convergence phase the stored tip is a heaviest tip the peers announce
\* (a known finding that banned an honest peer during the convergence phase voids the check)
\* the property being decided by this run (convergence is judged for C05 only)
Prop == IF "PROP" \in DOMAIN IOEnv THEN IOEnv.PROP ELSE "C05"

QuiescentOk(a) ==
    /\ UNCHANGED <<now, peer, tip, tipTD, lastN>>
    /\ \/ Prop # "C05"
       \/ tip \in Heaviest(world, ToSet(a.tips) \cup {tip})
       \/ a.bans > 0 /\ cfg.allow # {}
       \/ \* KF-C05-notlonger: a heavier announced tip whose NUMBER is not above the stored tip's
          \* can never be requested (build_prove_request_content: start_number >= last_number)
          /\ "KF-C05-notlonger" \in cfg.allow
          /\ \A t \in ToSet(a.tips) : TrueTd(world, t) > TrueTd(world, tip) => Num(world, t) <= Num(world, tip)
          /\ PrintT(<<"KNOWN-FINDING", "KF-C05-notlonger", tip>>)

Step(r) ==
    CASE r.ev = "Connect"    -> Connect(r.a.p)
      [] r.ev = "Disconnect" -> Disconnect(r.a.p)
      [] r.ev = "Advance"    -> Advance(r.a.d)
      [] r.ev = "Refresh"    -> RefreshTick(Oracle(r), {}, {})
      [] r.ev = "LastState"  -> RecvLastState(r.a.p, [b |-> r.a.b, ok |-> r.a.ok], Oracle(r))
      [] r.ev = "Proof"      -> /\ RecvProof(r.a.p, MsgOf(r.a), Oracle(r))
                                \* an honest answer fails the total difficulty check only through the known gap
                                /\ (r.a.kind = "honest" /\ peer[r.a.p].st # "None" /\ HasReq(peer[r.a.p]) /\ MsgOf(r.a).last = peer[r.a.p].req.last
                                    /\ MsgOf(r.a).td = "world" /\ TdApplies(peer[r.a.p], MsgOf(r.a)) /\ ~TdOf(peer[r.a.p], MsgOf(r.a)))
                                      => /\ "KF-C14-envelope" \in cfg.allow /\ TdKnownGap(peer[r.a.p], MsgOf(r.a))
                                         /\ PrintT(<<"KNOWN-FINDING", "KF-C14-envelope", r.a.p, r.a.last>>)
      [] r.ev = "Restart"    -> Restart
      [] r.ev = "Quiescent"  -> QuiescentOk(r.a)
      [] r.ev = "NoAnswer"   -> \* a request the honest server cannot answer (start block of another branch, lighter than
                                \* the server's chain at its height): nothing reaches the client
                                UNCHANGED <<now, peer, tip, tipTD, lastN>>
      [] r.ev = "Panic"      -> \* the only deliberate abort: a valid second proof (from genesis) confirms a long fork
                                /\ r.a.during = "Proof" /\ r.a.msg = "long fork detected"
                                /\ peer[r.a.args.p].req.on /\ peer[r.a.args.p].req.fork
                                /\ r.a.args.kind = "honest"
                                \* ... of a fork that really shares none of the remembered headers
                                /\ \/ ForkIsLong(r.a.args.last)
                                   \/ /\ "KF-C05-stale-longfork" \in cfg.allow
                                      /\ PrintT(<<"KNOWN-FINDING", "KF-C05-stale-longfork", r.a.args.p, r.a.args.last, tip>>)
                                /\ UNCHANGED <<now, peer, tip, tipTD, lastN>>
      [] OTHER               -> FALSE   \* other panics, BadRequest: never a step of the specification

TraceInit == l = 1 /\ LoadInit(Rec[1])

TraceNext ==
    /\ l < Len(Rec)
    /\ l' = l + 1
    /\ LET r == Rec[l + 1] IN
       IF r.ev = "Reset"
       THEN /\ world' = r.world /\ cfg' = CfgOf(r) /\ Load(r)
       ELSE /\ UNCHANGED <<world, cfg>> /\ Load(r) /\ Step(r)

TraceSpec == TraceInit /\ [][TraceNext]_<<l, psVars>>

\* action properties as an action-level invariant checked on every logged step
StepProps ==
    (Rec[l'].ev # "Reset") =>
        /\ TipOnlyHeavier /\ PeerDiagram /\ ProofOnlyWhenRequested /\ LastStateKeepsProof
TraceProps == [][StepProps]_<<l, psVars>>

TraceInv ==
    /\ TypeOK
    /\ LastNAncestors
    /\ ProvedAreValid
    /\ (tip # Genesis => TipTruthful)

TraceAccepted ==
    LET d == TLCGet("stats").diameter IN
    IF d = Len(Rec) THEN TRUE
    ELSE /\ PrintT(<<"TRACE-REJECTED line", d + 1, "scenario", Rec[d + 1].sc, "event", Rec[d + 1].ev>>)
         /\ FALSE
=============================================================================
