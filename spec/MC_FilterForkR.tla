--------------------------- MODULE MC_FilterForkR ---------------------------
(***************************************************************************)
(* Specification -> implementation for the filter pipeline: behaviours of  *)
(* MC_FilterFork as scenarios for the real client.  Every disjunct of the  *)
(* next-state relation records the environment event it stands for         *)
(* (set_scripts with its command and list, an honest batch of n filters of *)
(* the branch the peer serves, the answer to the blocks-proof request, the *)
(* arrival of block b, the filters tick, a restart, the peer's             *)
(* reorganisation to the heavier branch); `tlc -simulate` prints one       *)
(* scenario per behaviour.  The harness (filtersync mode=replay) builds a  *)
(* world of the same shape and executes the events on the real client;     *)
(* the recorded trace is judged by Trace_FilterSync.                       *)
(***************************************************************************)
EXTENDS MC_FilterFork, Json

CONSTANTS Depth
VARIABLE path
rVars == <<mcVars, path>>

Ev(k, x, n, l) == [k |-> k, x |-> x, n |-> n, l |-> l]

RInit == MCInit /\ path = <<>>

RSetScripts ==
    /\ ssCount < MaxSetScripts /\ ssCount' = ssCount + 1
    /\ out' = NoOut /\ UNCHANGED forked
    /\ \E cmd \in {"all", "partial", "delete"}, list \in Lists :
          /\ SetScripts(cmd, list)
          /\ path' = Append(path, Ev("SetScripts", cmd, 0, list))

RRecvFilters ==
    /\ scripts # {}
    /\ \E n \in 1..3 :
        /\ minF + n <= TopNum
        /\ LET m == Batch(n)
               must == MustOf(m)
               blocks == SeqOfSet({m.hs[i] : i \in must})
               rec == <<m.start, n, [j \in 1..Len(blocks) |-> <<blocks[j], blocks[j] = peer[P].proved>>]>>
           IN /\ out' = NoOut
              /\ mdb' = IF must = {} THEN mdb
                        ELSE IF \E at \in 1..Len(mdb) : mdb[at][1] = m.start
                        THEN [i \in 1..Len(mdb) |-> IF mdb[i][1] = m.start THEN rec ELSE mdb[i]]
                        ELSE Append(mdb, rec)
              /\ RecvFilters(P, m)
              /\ path' = Append(path, Ev("Filters", "", n, <<>>))
    /\ UNCHANGED <<ssCount, forked, cached, pf, fetchH, fetchT>>

RRecvBlock ==
    /\ \E e \in mmem : e[2] /\ ~e[3] /\ (out' = NoOut /\ RecvBlock(P, e[1], "true")) /\ path' = Append(path, Ev("Block", "", e[1], <<>>))
    /\ UNCHANGED <<pf, fetchH, fetchT, ssCount, forked>>

RNext ==
    /\ Len(path) < Depth
    /\ \/ RSetScripts
       \/ RRecvFilters
       \/ MCBlocksProof /\ path' = Append(path, Ev("BlocksProof", "", 0, <<>>))
       \/ RRecvBlock
       \/ MCTick /\ mmem' # mmem /\ path' = Append(path, Ev("Tick", "", 0, <<>>))
       \/ MCRestart /\ path' = Append(path, Ev("Restart", "", 0, <<>>))
       \/ MCFork /\ path' = Append(path, Ev("Fork", "", 0, <<>>))

RSpec == RInit /\ [][RNext]_rVars

Emit == (Len(path) = Depth \/ (Len(path) >= 8 /\ ~ENABLED RNext)) => PrintT(<<"REPLAY", ToJson(path)>>)
=============================================================================
