SPECIFICATION MFSpec
CONSTANTS
  FPeers = {"p1", "p2"}
  HeaderIds <- HeaderIdsDef
  TxIds = {2}
  MaxDisc = 1
  MaxBad = 1
  MarkOnReject = FALSE
INVARIANT MFInv
PROPERTY StepProps
PROPERTY NeverLostH
PROPERTY NeverLostT
CHECK_DEADLOCK FALSE
