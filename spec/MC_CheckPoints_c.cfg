SPECIFICATION Spec
CONSTANTS
  Peers = {p1, p2, p3, p4}
  Liars = {p3, p4}
  MaxOut = 4
  I = 2
  MaxIdx = 1
  MaxMsg = 2
INVARIANTS TypeOK WrongNeverFinal
PROPERTIES AppendOnly Quorum NotBlocked ContradictorsBanned
CHECK_DEADLOCK FALSE
