SPECIFICATION MCSpec
CONSTANTS
  MaxSetScripts = 2
  AllowKF = {"KF-C03-stale-before-start"}
INVARIANT MCInv
CHECK_DEADLOCK FALSE
