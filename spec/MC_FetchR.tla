----------------------------- MODULE MC_FetchR -----------------------------
(***************************************************************************)
(* Specification -> implementation for the fetch bookkeeping (C16):        *)
(* behaviours of MC_Fetch as scenarios for the real client.  Events: the   *)
(* fetch_header / fetch_transaction calls, the fetch tick, an honest or a  *)
(* mutated answer of peer p to its outstanding blocks / transactions proof *)
(* request, p disconnects, p comes back (and is proven again).  The harness*)
(* (filtersync mode=fetchreplay) executes them on a world of the model's   *)
(* shape: header 3 and transaction 2 are on the served chain, header 8 and *)
(* transaction 4 on a branch the peers do not serve (reported missing).    *)
(* The recorded trace is judged by Trace_FilterSync.                       *)
(***************************************************************************)
EXTENDS MC_Fetch, Json

CONSTANTS Depth
VARIABLE path
rVars == <<mfVars, path>>

HeaderIdsR == {3, 8}
TxIdsR == {2, 4}

Ev(k, p, n) == [k |-> k, p |-> p, n |-> n]

RInit == MFInit /\ path = <<>>

RNext ==
    /\ Len(path) < Depth
    /\ \/ \E b \in HeaderIds : CallH(b) /\ path' = Append(path, Ev("CallH", "", b))
       \/ \E t \in TxIds : CallT(t) /\ path' = Append(path, Ev("CallT", "", t))
       \/ Tick /\ path' = Append(path, Ev("Tick", "", 0))
       \/ \E p \in FPeers :
            \/ AnswerH(p) /\ path' = Append(path, Ev("AnswerH", p, 0))
            \/ AnswerT(p) /\ path' = Append(path, Ev("AnswerT", p, 0))
            \/ RejectH(p) /\ path' = Append(path, Ev("RejectH", p, 0))
            \/ RejectT(p) /\ path' = Append(path, Ev("RejectT", p, 0))
            \/ Disc(p) /\ path' = Append(path, Ev("Disc", p, 0))
            \/ Reconn(p) /\ path' = Append(path, Ev("Reconn", p, 0))

RSpec == RInit /\ [][RNext]_rVars

Emit == (Len(path) = Depth) => PrintT(<<"REPLAY", ToJson(path)>>)
=============================================================================
