SPECIFICATION LSpec
CONSTANTS
  MCPeers = {"p1", "p2"}
  MCLastN = 3
  MaxNow = 0
  AnnounceSet = {}
  ServerTips = {}
  HonestOnly = TRUE
  BoundaryChoices = {0}
  StartTips <- StartTipsDef
  MaxRestarts = 1
  StrictConverge = FALSE
INVARIANT LInv
PROPERTY ConvergesToHeaviest
PROPERTY EveryPeerProven
PROPERTY RequestsAnswered
CHECK_DEADLOCK FALSE
