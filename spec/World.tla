------------------------------- MODULE World -------------------------------
(***************************************************************************)
(* The abstract chain ("world"): a block TREE with difficulties, epochs and *)
(* the validity attributes of every header.  A world is a plain value so    *)
(* that trace specifications can switch worlds at Reset events and model    *)
(* checking configurations can state theirs as a definition.  The harness   *)
(* builds the very same world into real CKB objects (SimChain).             *)
(*                                                                          *)
(*   w.blocks[b] = [parent, num, diff, td, ttd, ep, pow, root]              *)
(*     parent  block id (0 for the genesis block, which has id 1)           *)
(*     td      total difficulty CLAIMED by the header's chain root          *)
(*     ttd     true cumulative difficulty along the parent links            *)
(*     ep      <<number, index, length>>                                    *)
(*     pow     the header is mined; root: its extension commits to the     *)
(*             chain root it is sent with                                   *)
(***************************************************************************)
EXTENDS Integers, Sequences, FiniteSets

NoBlock == 0
Genesis == 1

NBlocks(w) == Len(w.blocks)
BlockIds(w) == 1..Len(w.blocks)
Par(w, b) == w.blocks[b].parent
Num(w, b) == w.blocks[b].num
Td(w, b) == w.blocks[b].td
TrueTd(w, b) == w.blocks[b].ttd
Diff(w, b) == w.blocks[b].diff
Ep(w, b) == w.blocks[b].ep
Mined(w, b) == w.blocks[b].pow
Rooted(w, b) == w.blocks[b].root

RECURSIVE AncAt(_, _, _)
\* ancestor of b at height n (b itself if Num(b) = n), NoBlock if there is none
AncAt(w, b, n) ==
    IF b = NoBlock THEN NoBlock
    ELSE IF Num(w, b) = n THEN b
    ELSE IF Num(w, b) < n THEN NoBlock
    ELSE AncAt(w, Par(w, b), n)

IsAnc(w, a, b) == a # NoBlock /\ b # NoBlock /\ AncAt(w, b, Num(w, a)) = a

\* ids of the chain ending in b at the heights given by the sequence ns
IdsAt(w, b, ns) == [i \in 1..Len(ns) |-> AncAt(w, b, ns[i])]

\* Chain(b)[n+1] = block at height n
Chain(w, b) == [i \in 1..(Num(w, b) + 1) |-> AncAt(w, b, i - 1)]

CommonAnc(w, a, b) ==
    LET hs == {n \in 0..Num(w, a) : n <= Num(w, b) /\ AncAt(w, a, n) = AncAt(w, b, n)}
    IN AncAt(w, a, CHOOSE n \in hs : \A m \in hs : m <= n)

\* the code's EpochNumberWithFraction::is_successor_of
EpochSucc(e2, e1) ==
    IF e1[2] + 1 = e1[3]
    THEN e2[1] = e1[1] + 1 /\ e2[2] = 0
    ELSE e2[1] = e1[1] /\ e2[2] = e1[2] + 1 /\ e2[3] = e1[3]

\* HeaderUtils::is_parent_of
IsParentOf(w, p, c) ==
    /\ p # NoBlock /\ c # NoBlock
    /\ Par(w, c) = p
    /\ Num(w, c) = Num(w, p) + 1
    /\ (p = Genesis \/ EpochSucc(Ep(w, c), Ep(w, p)))

\* set of leaves / tips that have the greatest true total difficulty among S
Heaviest(w, S) == {b \in S : \A c \in S : TrueTd(w, c) <= TrueTd(w, b)}

Honest(w, b) == \A n \in 0..Num(w, b) : LET a == AncAt(w, b, n) IN
                    Mined(w, a) /\ Rooted(w, a) /\ Td(w, a) = TrueTd(w, a)

Range(f) == {f[x] : x \in DOMAIN f}
SeqTail(s, k) == IF Len(s) <= k THEN s ELSE SubSeq(s, Len(s) - k + 1, Len(s))
Min(a, b) == IF a <= b THEN a ELSE b
Max(a, b) == IF a >= b THEN a ELSE b
=============================================================================
