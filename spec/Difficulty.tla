----------------------------- MODULE Difficulty -----------------------------
(***************************************************************************)
(* Epoch-difficulty arithmetic of the last-state proof verifier            *)
(* (send_last_state_proof.rs: verify_tau, verify_total_difficulty) and the *)
(* consensus model behind it: consecutive epoch difficulties E, E' obey    *)
(*     E' * TAU >= E  /\  E' <= E * TAU.                                   *)
(* Numbers here are small (TLC integers); the harness checks the 256-bit   *)
(* scale by construction class (see DESIGN.md C14).                        *)
(***************************************************************************)
EXTENDS Integers, Sequences

TAU == 2

\* epoch = <<number, index, length>>, d = block difficulty of that epoch
EpochDifficulty(e, d) == d * e[3]

RECURSIVE UpWithin(_, _, _)
\* end <= start * TAU^n, without ever computing a big power
UpWithin(start, end, n) ==
    IF end <= start THEN TRUE
    ELSE IF n = 0 \/ start = 0 THEN FALSE
    ELSE UpWithin(start * TAU, end, n - 1)

RECURSIVE DownWithin(_, _, _)
\* end >= floor(...floor(start / TAU).../ TAU)   (n integer divisions, as the code does)
DownWithin(start, end, n) ==
    IF end >= start THEN TRUE
    ELSE IF n = 0 THEN FALSE
    ELSE DownWithin(start \div TAU, end, n - 1)

\* verify_tau: "ok", "fail" (-> re-request with the check skipped) or "ban" (InvalidCompactTarget)
VerifyTau(e1, d1, e2, d2) ==
    IF e1[1] = e2[1]
    THEN IF d1 = d2 THEN "ok" ELSE "ban"
    ELSE LET s == EpochDifficulty(e1, d1)
             t == EpochDifficulty(e2, d2)
             n == e2[1] - e1[1]
         IN IF s = t THEN "ok"
            ELSE IF s < t THEN (IF UpWithin(s, t, n) THEN "ok" ELSE "fail")
            ELSE (IF DownWithin(s, t, n) THEN "ok" ELSE "fail")

\* consensus legality of one epoch switch
LegalSwitch(E, E2) == E2 * TAU >= E /\ E2 <= E * TAU

(***************************************************************************)
(* verify_total_difficulty, transcribed.                                   *)
(*   e = <<number, index, length>>, d = block difficulty, t = total        *)
(*   difficulty (of the block itself included).  Result "ok" or "reject".  *)
(* The code works on EPOCH difficulties E = d * length: the difficulty     *)
(* accumulated over a whole epoch, whatever its length.                    *)
(***************************************************************************)
Trend(s, t) == IF s = t THEN "same" ELSE IF s < t THEN "up" ELSE "down"

RECURSIVE TauExpUp(_, _, _, _)
\* smallest k < limit with s * TAU^(k+1) >= t, else -1   (calculate_tau_exponent, Increased)
TauExpUp(tmp, t, k, limit) ==
    IF k >= limit THEN -1
    ELSE IF tmp * TAU >= t THEN k ELSE TauExpUp(tmp * TAU, t, k + 1, limit)
RECURSIVE TauExpDown(_, _, _, _)
TauExpDown(tmp, t, k, limit) ==
    IF k >= limit THEN -1
    ELSE IF tmp \div TAU <= t THEN k ELSE TauExpDown(tmp \div TAU, t, k + 1, limit)
TauExponent(s, t, limit) ==
    CASE Trend(s, t) = "same" -> 0
      [] Trend(s, t) = "up" -> TauExpUp(s, t, 0, limit)
      [] OTHER -> TauExpDown(s, t, 0, limit)

\* split_epochs + remove_last_epoch: <<first group kind, count, second group kind, count>>
SplitEpochs(limit, trend, n, k) ==
    LET half == (n - k + 1) \div 2
        inc == CASE limit = "min" /\ trend = "same" -> n - ((n + 1) \div 2)
                 [] limit = "max" /\ trend = "same" -> (n + 1) \div 2
                 [] limit = "min" /\ trend = "up"   -> n - half
                 [] limit = "max" /\ trend = "up"   -> half + k
                 [] limit = "min" /\ trend = "down" -> n - (half + k)
                 [] OTHER                           -> half
        dec == n - inc
        first == IF limit = "min" THEN <<"down", dec>> ELSE <<"up", inc>>
        second == IF limit = "min" THEN <<"up", inc>> ELSE <<"down", dec>>
    IN IF second[2] = 0 THEN <<first[1], first[2] - 1, second[1], 0>>
       ELSE <<first[1], first[2], second[1], second[2] - 1>>

RECURSIVE WalkGroup(_, _, _, _, _)
\* one group of the limit calculation: [curr, total, hit] -- hit: total >= actual was reached (short circuit)
WalkGroup(kind, count, curr, total, actual) ==
    IF count = 0 THEN [curr |-> curr, total |-> total, hit |-> FALSE]
    ELSE LET c == IF kind = "down" THEN curr \div TAU ELSE curr * TAU
             t == total + c
         IN IF t >= actual THEN [curr |-> c, total |-> t, hit |-> TRUE]
            ELSE WalkGroup(kind, count - 1, c, t, actual)

\* check_total_difficulty_limit
CheckLimit(limit, trend, n, k, actual, start, unaligned) ==
    LET sp == SplitEpochs(limit, trend, n, k)
        g1 == WalkGroup(sp[1], sp[2], start, 0, actual)
        g2 == IF g1.hit THEN g1 ELSE WalkGroup(sp[3], sp[4], g1.curr, g1.total, actual)
    IN IF g2.hit THEN limit = "max"
       ELSE IF limit = "max" THEN g2.total + unaligned >= actual
       ELSE g2.total + unaligned <= actual

VerifyTotalDifficulty(e1, d1, t1, e2, d2, t2) ==
    IF t1 > t2 THEN "reject"
    ELSE LET total == t2 - t1 IN
    IF e1[1] = e2[1]
    THEN IF e2[2] >= e1[2] /\ total = d1 * (e2[2] - e1[2]) THEN "ok" ELSE "reject"
    ELSE IF e2[1] < e1[1] \/ e1[2] >= e1[3] THEN "reject"
    ELSE LET s == d1 * e1[3]
             t == d2 * e2[3]
             n == e2[1] - e1[1]
             k == TauExponent(s, t, n)
             unaligned == d1 * (e1[3] - e1[2] - 1) + d2 * (e2[2] + 1)
         IN IF k < 0 THEN "reject"
            ELSE IF n = 1 THEN (IF total = unaligned THEN "ok" ELSE "reject")
            ELSE IF /\ CheckLimit("min", Trend(s, t), n, k, total, s, unaligned)
                    /\ CheckLimit("max", Trend(s, t), n, k, total, s, unaligned)
                 THEN "ok" ELSE "reject"

(***************************************************************************)
(* What C14 demands of the verdict.                                        *)
(***************************************************************************)
RECURSIVE PureGrowth(_, _)     \* sum of E * TAU^i for i = 1..m
PureGrowth(E, m) == IF m = 0 THEN 0 ELSE E * TAU + PureGrowth(E * TAU, m - 1)
RECURSIVE PureShrink(_, _)     \* sum of the m-fold repeated halvings (rounded down)
PureShrink(E, m) == IF m = 0 THEN 0 ELSE (E \div TAU) + PureShrink(E \div TAU, m - 1)
RECURSIVE Pow(_, _)
Pow(b, m) == IF m = 0 THEN 1 ELSE b * Pow(b, m - 1)
RECURSIVE Halve(_, _)
Halve(E, m) == IF m = 0 THEN E ELSE Halve(E \div TAU, m - 1)

\* the totals no history obeying TAU can produce, as the property lists them
MustReject(e1, d1, t1, e2, d2, t2) ==
    \/ t2 < t1                                                     \* decrease
    \/ /\ t2 >= t1
       /\ LET total == t2 - t1
              s == d1 * e1[3]
              t == d2 * e2[3]
              n == e2[1] - e1[1]
              unaligned == d1 * (e1[3] - e1[2] - 1) + d2 * (e2[2] + 1)
          IN \/ n < 0                                               \* the epoch number decreased
             \/ n = 0 /\ (e2[2] < e1[2] \/ total # d1 * (e2[2] - e1[2]))      \* within one epoch
             \/ n = 1 /\ total # unaligned                                    \* across exactly one switch
             \/ n >= 2 /\ (t > s * Pow(TAU, n) \/ t < Halve(s, n))             \* epoch difficulty moved too fast
             \/ n >= 2 /\ total > unaligned + PureGrowth(s, n - 1)             \* grew faster than TAU per epoch
             \/ n >= 2 /\ total < unaligned + PureShrink(s, n - 1)             \* shrank faster than TAU per epoch

\* the tight envelope of the accumulated difficulty between two positions n >= 2 epochs apart: every
\* intermediate epoch i is bounded by what the start allows after i switches and by what the end
\* allows n - i switches before it
RECURSIVE TightMax(_, _, _, _)
TightMax(s, t, n, i) ==
    IF i >= n THEN 0
    ELSE (IF s * Pow(TAU, i) <= t * Pow(TAU, n - i) THEN s * Pow(TAU, i) ELSE t * Pow(TAU, n - i)) + TightMax(s, t, n, i + 1)
CeilDiv(a, b) == (a + b - 1) \div b
RECURSIVE TightMin(_, _, _, _)
TightMin(s, t, n, i) ==
    IF i >= n THEN 0
    ELSE (IF CeilDiv(s, Pow(TAU, i)) >= CeilDiv(t, Pow(TAU, n - i)) THEN CeilDiv(s, Pow(TAU, i)) ELSE CeilDiv(t, Pow(TAU, n - i)))
         + TightMin(s, t, n, i + 1)
\* within the tight envelope (what a correct estimate has to accept)
InTightEnvelope(e1, d1, t1, e2, d2, t2) ==
    LET total == t2 - t1
        s == d1 * e1[3]
        t == d2 * e2[3]
        n == e2[1] - e1[1]
        unaligned == d1 * (e1[3] - e1[2] - 1) + d2 * (e2[2] + 1)
    IN /\ n >= 2 /\ t2 >= t1
       /\ total <= unaligned + TightMax(s, t, n, 1)
       /\ total >= unaligned + TightMin(s, t, n, 1)
=============================================================================
