----------------------------- MODULE Difficulty -----------------------------
(***************************************************************************)
(* Epoch-difficulty arithmetic of the last-state proof verifier            *)
(* (send_last_state_proof.rs: verify_tau, verify_total_difficulty) and the *)
(* consensus model behind it: consecutive epoch difficulties E, E' obey    *)
(*     E' * TAU >= E  /\  E' <= E * TAU.                                   *)
(* Numbers here are small (TLC integers); the harness checks the 256-bit   *)
(* scale by construction class (see DESIGN.md C14).                        *)
(***************************************************************************)
EXTENDS Integers, Sequences

TAU == 2

\* epoch = <<number, index, length>>, d = block difficulty of that epoch
EpochDifficulty(e, d) == d * e[3]

RECURSIVE UpWithin(_, _, _)
\* end <= start * TAU^n, without ever computing a big power
UpWithin(start, end, n) ==
    IF end <= start THEN TRUE
    ELSE IF n = 0 \/ start = 0 THEN FALSE
    ELSE UpWithin(start * TAU, end, n - 1)

RECURSIVE DownWithin(_, _, _)
\* end >= floor(...floor(start / TAU).../ TAU)   (n integer divisions, as the code does)
DownWithin(start, end, n) ==
    IF end >= start THEN TRUE
    ELSE IF n = 0 THEN FALSE
    ELSE DownWithin(start \div TAU, end, n - 1)

\* verify_tau: "ok", "fail" (-> re-request with the check skipped) or "ban" (InvalidCompactTarget)
VerifyTau(e1, d1, e2, d2) ==
    IF e1[1] = e2[1]
    THEN IF d1 = d2 THEN "ok" ELSE "ban"
    ELSE LET s == EpochDifficulty(e1, d1)
             t == EpochDifficulty(e2, d2)
             n == e2[1] - e1[1]
         IN IF s = t THEN "ok"
            ELSE IF s < t THEN (IF UpWithin(s, t, n) THEN "ok" ELSE "fail")
            ELSE (IF DownWithin(s, t, n) THEN "ok" ELSE "fail")

\* consensus legality of one epoch switch
LegalSwitch(E, E2) == E2 * TAU >= E /\ E2 <= E * TAU
=============================================================================
