-------------------------- MODULE MC_PeerSyncLive --------------------------
(***************************************************************************)
(* Liveness of PeerSync under fairness (C05 "after finitely many exchanges *)
(* its tip equals the heaviest chain tip the peers announce", C11 "every   *)
(* request is answered or replaced").                                      *)
(*                                                                         *)
(* Only honest peers.  Every peer p serves the chain ending in srv[p]; the *)
(* servers grow along their branch and may reorganise to a heavier branch  *)
(* (finitely often: the world is finite and a server only moves to a       *)
(* strictly heavier tip).  The client may restart a bounded number of      *)
(* times.  No time passes (time only ever REMOVES peers; with time a peer  *)
(* of a chain that has stopped growing is rightly disconnected, see        *)
(* DESIGN 9.1 "bounded liveness"), so `now` stays 0 and the state space is *)
(* finite WITHOUT a state constraint, which liveness checking needs.       *)
(*                                                                         *)
(* Fairness: weak fairness of the client's refresh tick, of every peer's   *)
(* announcement of its tip (a full node pushes SendLastState on every new  *)
(* tip and answers GetLastState), of every peer's honest answer to the     *)
(* outstanding proof request, and of reconnection.  Server growth and      *)
(* restarts are NOT fair (the environment may stop).                       *)
(***************************************************************************)
EXTENDS MC_PeerSync

CONSTANTS StartTips,    \* peer -> first tip served
          MaxRestarts,
          StrictConverge  \* TRUE: the property as stated; FALSE: with the exception of KF-C05-notlonger

VARIABLES srv, restarts

lvVars == <<world, cfg, now, peer, tip, tipTD, lastN, out, srv, restarts>>

TheOracle == [mode |-> "canon", k |-> 0]

StartTipsDef == [p \in MCPeers |-> IF p = "p1" THEN 5 ELSE 8]

LInit == MCInit /\ srv = StartTips /\ restarts = 0

\* an honest node moves to a strictly heavier, fully valid block it can reach: a child, or the tip of another branch
Honestly(b) == Mined(world, b) /\ Rooted(world, b) /\ Td(world, b) = TrueTd(world, b)
HonestBlocks == {b \in BlockIds(world) : \A n \in 0..Num(world, b) : Honestly(AncAt(world, b, n))}

Grow(p) ==
    /\ \E b \in HonestBlocks : Td(world, b) > Td(world, srv[p]) /\ srv' = [srv EXCEPT ![p] = b]
    /\ UNCHANGED <<world, cfg, now, peer, tip, tipTD, lastN, out, restarts>>

ConnectL(p) == peer[p].st = "None" /\ Connect(p) /\ UNCHANGED <<srv, restarts>>

\* the answer to GetLastState, or the push of a new tip
Announce(p) ==
    /\ peer[p].st # "None"
    /\ ~(HasLast(peer[p]) /\ peer[p].last = srv[p])
    /\ RecvLastState(p, [b |-> srv[p], ok |-> TRUE], TheOracle)
    /\ UNCHANGED <<srv, restarts>>

AnswerMsg(p) ==
    LET a == HonestAnswer(world, LastN, peer[p].req, srv[p]) IN
    [last |-> a.last, lastOk |-> TRUE, empty |-> ~a.onChain, nums |-> a.nums, chain |-> a.last,
     match |-> "ok", root |-> "world", pow |-> "world", cont |-> "ok", mmr |-> "ok", tau |-> "world", td |-> "ok"]

Answer(p) ==
    /\ HasReq(peer[p])
    /\ RecvProof(p, AnswerMsg(p), TheOracle)
    /\ UNCHANGED <<srv, restarts>>

Tick == RefreshTick(TheOracle, {}, {}) /\ UNCHANGED <<srv, restarts>>

RestartL == restarts < MaxRestarts /\ Restart /\ restarts' = restarts + 1 /\ UNCHANGED srv

LNext ==
    \/ \E p \in MCPeers : Grow(p) \/ ConnectL(p) \/ Announce(p) \/ Answer(p)
    \/ Tick
    \/ RestartL

Fairness ==
    /\ WF_lvVars(Tick)
    /\ \A p \in MCPeers : WF_lvVars(ConnectL(p)) /\ WF_lvVars(Announce(p)) /\ WF_lvVars(Answer(p))

LSpec == LInit /\ [][LNext]_lvVars /\ Fairness

(***************************************************************************)
(* Safety on the honest system (C05): nobody is banned or dropped.         *)
(***************************************************************************)
NobodyPunished == out.ban = {} /\ out.drop = {}

LInv == MCInv /\ NobodyPunished

(***************************************************************************)
(* Liveness.                                                               *)
(***************************************************************************)
\* KF-C05-notlonger: a heavier tip whose NUMBER is not above the stored tip's is never asked for
Surpassed(p) == \/ Td(world, srv[p]) <= tipTD
                \/ (~StrictConverge /\ Num(world, srv[p]) <= Num(world, tip))

Converged == \A p \in MCPeers : Surpassed(p)

\* every peer ends up proven at what it serves (or at something the client cannot ask for, see above)
AllProven == \A p \in MCPeers :
                \/ HasProof(peer[p]) /\ peer[p].proved = srv[p]
                \/ (~StrictConverge /\ peer[p].st # "None" /\ HasLast(peer[p]) /\ peer[p].last = srv[p]
                    /\ ~CanBuild(peer[p], srv[p]))

ConvergesToHeaviest == <>[]Converged
EveryPeerProven == <>[]AllProven
\* C11: a request the server can answer with a proof never stays outstanding for ever.  (A request for a header
\* the server has left behind is answered with "my tip is different"; when the client cannot build a request
\* for that tip either -- it is not above the start in number and difficulty -- the old request stays until the
\* message time-out removes the peer: TLC shows this behaviour when the premise is dropped.  Recorded in
\* DESIGN.md 9.12 as an observation: the peer serves a chain the client cannot use.)
RequestsAnswered == \A p \in MCPeers : []<>(~(HasReq(peer[p]) /\ IsAnc(world, peer[p].req.last, srv[p])))
=============================================================================
