---------------------------- MODULE CheckPoints ----------------------------
(***************************************************************************)
(* Filter check points (property C07): per-peer unfinalized vectors        *)
(* (CheckPoints::add_check_points) and their finalization by quorum        *)
(* (LightClientProtocol::finalize_check_points), transcribed as operators  *)
(* over plain values so that both the trace specification and the bounded  *)
(* model MC_CheckPoints use them.                                          *)
(*   cps   = <<index of the first check point, << values >> >>             *)
(*   final = sequence of finalized values, final[i + 1] = check point i    *)
(*   I     = check point interval, R = required peers (quorum)             *)
(***************************************************************************)
EXTENDS Integers, Sequences, FiniteSets

CpStart(c) == c[1]
CpVals(c) == c[2]
NumberOfLast(c, I) == (CpStart(c) + Len(CpVals(c)) - 1) * I

\* add_check_points: [ok, cps]  (ok = FALSE: the message is an error -> ban)
AddCheckPoints(c, I, lastProved, startNumber, new) ==
    IF new = <<>> THEN [ok |-> FALSE, cps |-> c]
    ELSE IF startNumber % I # 0 THEN [ok |-> FALSE, cps |-> c]
    ELSE IF startNumber # NumberOfLast(c, I) THEN [ok |-> FALSE, cps |-> c]
    ELSE IF CpVals(c)[Len(CpVals(c))] # new[1] THEN [ok |-> FALSE, cps |-> c]
    ELSE IF Len(new) < 2 THEN [ok |-> FALSE, cps |-> c]
    ELSE IF startNumber + I * Len(new) <= lastProved
         THEN [ok |-> TRUE, cps |-> <<CpStart(c), CpVals(c) \o SubSeq(new, 2, Len(new))>>]
    ELSE IF Len(new) > 2
         THEN [ok |-> TRUE, cps |-> <<CpStart(c), CpVals(c) \o SubSeq(new, 2, Len(new) - 1)>>]
    ELSE [ok |-> TRUE, cps |-> c]

(***************************************************************************)
(* finalize_check_points                                                   *)
(*   data: function from the PROVEN peers to their cps                     *)
(*   result: [final, ban, trim, keep]                                      *)
(*     final: the new finalized sequence (an extension of the old one)     *)
(*     ban:   peers banned for contradicting the last final value          *)
(*     trim:  peer -> number of leading check points removed from its cps  *)
(***************************************************************************)
KthSmallest(S, f, k) ==
    \* the k-th smallest value of f over S (with multiplicity)
    LET cands == {n \in {f[p] : p \in S} :
                    /\ Cardinality({p \in S : f[p] < n}) < k
                    /\ Cardinality({p \in S : f[p] <= n}) >= k}
    IN CHOOSE n \in cands : TRUE

RECURSIVE Majority(_, _, _, _, _, _)
\* walks index = idx .. lengthMax - 1 (0-based into the trimmed vectors); acc = [found, index, ps].
\* Result: the SET of possible outcomes -- when two values both reach the quorum with the same
\* (maximal) count the implementation takes whichever its hash map yields first.
Majority(vecs, ps, idx, lengthMax, R, acc) ==
    IF idx >= lengthMax THEN {acc}
    ELSE LET have == {p \in ps : Len(vecs[p]) > idx}
             vals == {vecs[p][idx + 1] : p \in have}
             cnt(v) == Cardinality({p \in have : vecs[p][idx + 1] = v})
             best == {v \in vals : \A u \in vals : cnt(u) <= cnt(v)}
         IN IF best = {} \/ \E v \in best : cnt(v) < R THEN {acc}
            ELSE UNION {LET ps2 == IF cnt(v) # Cardinality(ps) THEN {p \in have : vecs[p][idx + 1] = v} ELSE ps
                        IN Majority(vecs, ps2, idx + 1, lengthMax, R, [found |-> TRUE, index |-> idx, ps |-> ps2])
                        : v \in best}

\* the set of possible results [final, ban, trim]
FinalizeSet(final, data, R) ==
    LET ps == DOMAIN data
        lastIdx == Len(final) - 1
        lastCp == final[Len(final)]
        nothing == [final |-> final, ban |-> {}, trim |-> [p \in ps |-> 0]]
    IN IF Cardinality(ps) < R THEN {nothing}
       ELSE
       LET late == {p \in ps : CpStart(data[p]) > lastIdx}
           off(p) == lastIdx - CpStart(data[p])
           short == {p \in ps \ late : off(p) >= Len(CpVals(data[p]))}
           wrong == {p \in ps \ (late \cup short) : CpVals(data[p])[off(p) + 1] # lastCp}
           good == ps \ (late \cup short \cup wrong)
           trim == [p \in ps |-> IF p \in good THEN off(p) ELSE 0]
           vecs == [p \in good |-> SubSeq(CpVals(data[p]), off(p) + 1, Len(CpVals(data[p])))]
           res0 == [final |-> final, ban |-> late \cup wrong, trim |-> trim]
       IN IF Cardinality(good) < R THEN {res0}
          ELSE LET lens == [p \in good |-> Len(vecs[p])]
                   lengthMax == KthSmallest(good, lens, R)
                   ms == Majority(vecs, good, 1, lengthMax, R, [found |-> FALSE, index |-> 0, ps |-> good])
               IN {IF ~m.found THEN res0
                   ELSE LET q == CHOOSE p \in m.ps : TRUE IN
                        [res0 EXCEPT !.final = final \o SubSeq(vecs[q], 2, m.index + 1)]
                   : m \in ms}

\* a peer's vector after the finalization removed its first n check points
TrimCps(c, n) == <<CpStart(c) + n, SubSeq(CpVals(c), n + 1, Len(CpVals(c)))>>

(***************************************************************************)
(* Properties                                                              *)
(***************************************************************************)
IsPrefix(a, b) == Len(a) <= Len(b) /\ SubSeq(b, 1, Len(a)) = a

\* C07: every newly final check point k (and the previously final one, and everything between) is
\* reported, at its index, by at least R of the proven peers
Agrees(c, final2, lo, hi) ==
    \A k \in lo..hi : /\ k >= CpStart(c) /\ k - CpStart(c) < Len(CpVals(c))
                      /\ CpVals(c)[k - CpStart(c) + 1] = final2[k + 1]
QuorumOk(final, final2, data, R) ==
    \A k \in Len(final)..(Len(final2) - 1) :
        Cardinality({p \in DOMAIN data : Agrees(data[p], final2, Len(final) - 1, k)}) >= R
=============================================================================
