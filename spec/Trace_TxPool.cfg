SPECIFICATION TraceSpec
INVARIANT TraceInv
PROPERTY P_AnnounceOnce
POSTCONDITION TraceAccepted
CHECK_DEADLOCK FALSE
