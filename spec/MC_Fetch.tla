------------------------------ MODULE MC_Fetch ------------------------------
(***************************************************************************)
(* Bounded model of the fetch bookkeeping (C16): fetch_header /            *)
(* fetch_transaction calls, the fetch tick (fetch_headers_txs), honest and *)
(* rejected SendBlocksProof / SendTransactionsProof answers, peers that    *)
(* time out or disconnect (remove_peer marks their outstanding hashes as   *)
(* timed out) and come back.  The table operators and the effects of the   *)
(* answers are the ones of FilterSync.tla that the trace specification     *)
(* validates against the real client; what this module adds is the request *)
(* side (which peer holds which request: FetchTickReq, bound to the code   *)
(* by Trace_FilterSync!FetchTickBound) and the exploration of every        *)
(* interleaving, with liveness under fairness:                             *)
(*   NeverLost: an entry is eventually fetched or reported missing,        *)
(*   whatever peers time out or disconnect meanwhile (finitely often).     *)
(* No time passes (time-outs are the Disc action), so the state space is   *)
(* finite without a state constraint.                                      *)
(***************************************************************************)
EXTENDS FilterSync

CONSTANTS FPeers,        \* peer names
          HeaderIds,     \* headers asked for (>= 1: block of the world; < 0: a hash nobody knows)
          TxIds,         \* transactions asked for
          MaxDisc,       \* disconnections / time-outs in a behaviour
          MaxBad,        \* rejected (mutated) answers in a behaviour
          MarkOnReject   \* TRUE: the code since fix 4053296; FALSE: a rejected answer only clears the request

VARIABLES lastH, lastT,  \* last status reported per id ("none" before the first call)
          act,           \* the step just taken (for MissingOnlyReported)
          disc, bad

HeaderIdsDef == {3, -9}
HeaderIdsBig == {3, 5, -9}

mfVars == <<allVars, lastH, lastT, act, disc, bad>>

Blk(par, n) == [parent |-> par, num |-> n, diff |-> 2, td |-> 2 * (n + 1), ttd |-> 2 * (n + 1),
                ep |-> <<0, n, 100>>, pow |-> TRUE, root |-> TRUE]
\* the world of MC_FilterFork: main chain 1..7 (the peers serve it), another branch 8..10 on top of block 5
MCWorld ==
    [blocks |-> <<Blk(0, 0), Blk(1, 1), Blk(2, 2), Blk(3, 3), Blk(4, 4), Blk(5, 5), Blk(6, 6),
                  Blk(5, 5), Blk(8, 6), Blk(9, 7)>>,
     txs |-> << [b |-> 3, i |-> 0, ins |-> <<>>, outs |-> << <<1, 0, 100, 0>> >>],
                [b |-> 4, i |-> 0, ins |-> << <<1, 0>> >>, outs |-> << <<2, 0, 90, 0>> >>],
                [b |-> 6, i |-> 0, ins |-> <<>>, outs |-> << <<1, 0, 80, 0>> >>],
                [b |-> 8, i |-> 0, ins |-> <<>>, outs |-> << <<1, 0, 70, 0>> >>],
                [b |-> 9, i |-> 0, ins |-> << <<2, 0>> >>, outs |-> << <<1, 0, 60, 0>> >>] >>,
     btx |-> << <<>>, <<>>, <<1>>, <<2>>, <<>>, <<3>>, <<>>, <<4>>, <<5>>, <<>> >>]

ReadyPeer == [st |-> "Ready", last |-> 7, lastTs |-> 0, proved |-> 7,
              pLastN |-> <<4, 5, 6>>, pReorg |-> <<>>, req |-> NoReq, when |-> 0]
NoBpr == [on |-> FALSE, last |-> 0, hs |-> <<>>, when |-> 0, get |-> FALSE]
NoTpr == [on |-> FALSE, last |-> 0, hs |-> <<>>, when |-> 0]
PfInit == [cps |-> <<0, <<1>> >>, latest |-> <<0, <<>> >>, bpr |-> NoBpr,
           br |-> [on |-> FALSE, hs |-> <<>>, when |-> 0], tpr |-> NoTpr]

MFInit ==
    /\ world = MCWorld
    /\ cfg = [peers |-> FPeers, lastN |-> 3, allow |-> {}, interval |-> 100, maxOut |-> 2, liars |-> {},
              msgTimeout |-> 2, refreshLag |-> 0]
    /\ now = 0 /\ peer = [p \in FPeers |-> ReadyPeer]
    /\ tip = 7 /\ tipTD = 14 /\ lastN = << <<3, 4>>, <<4, 5>>, <<5, 6>> >>
    /\ out = NoOut
    /\ scripts = {} /\ startOf = <<>> /\ minF = 0 /\ mdb = <<>> /\ mmem = {}
    /\ cells = {} /\ hist = {} /\ txs = {} /\ hdrs = {1} /\ nums = {<<0, 1>>}
    /\ cpFinal = <<1>> /\ cached = <<0, <<>> >> /\ pf = [p \in FPeers |-> PfInit]
    /\ fetchH = {} /\ fetchT = {} /\ over = {} /\ subst = {}
    /\ lastH = [b \in HeaderIds |-> "none"] /\ lastT = [t \in TxIds |-> "none"]
    /\ act = <<"init">> /\ disc = 0 /\ bad = 0

Counters == UNCHANGED <<disc, bad>>
Lasts == UNCHANGED <<lastH, lastT>>

(***************************************************************************)
(* The request side of the fetch tick: every hash that was never sent or   *)
(* has timed out goes, in one request per kind, to ONE best peer that      *)
(* holds no request of that kind (chunks of 1000 are not modelled).        *)
(***************************************************************************)
RECURSIVE Orders(_)
Orders(S) == IF S = {} THEN {<<>>} ELSE UNION {{<<x>> \o o : o \in Orders(S \ {x})} : x \in S}

FetchTickReq ==
    LET hids == {e[1] : e \in ToFetch(fetchH)}
        tids == {e[1] : e \in ToFetch(fetchT)}
        idleB == {p \in BestPeers : ~pf[p].bpr.on}
        idleT == {p \in BestPeers : ~pf[p].tpr.on}
        go == ~(fetchH = {} /\ fetchT = {}) /\ BestPeers # {}
        askH == go /\ hids # {} /\ idleB # {}
        askT == go /\ tids # {} /\ idleT # {}
    IN \E pb \in (IF askH THEN idleB ELSE {"-"}), pt \in (IF askT THEN idleT ELSE {"-"}) :
       \E oh \in (IF askH THEN Orders(hids) ELSE {<<>>}), ot \in (IF askT THEN Orders(tids) ELSE {<<>>}) :
          pf' = [p \in FPeers |->
                   [pf[p] EXCEPT !.bpr = IF p = pb THEN [on |-> TRUE, last |-> tip, hs |-> oh, when |-> now, get |-> FALSE] ELSE @,
                                 !.tpr = IF p = pt THEN [on |-> TRUE, last |-> tip, hs |-> ot, when |-> now] ELSE @]]

CallH(b) ==
    /\ \E st \in {"added", "fetching", "fetched", "not_found"} :
          RpcFetchHeader(b, st) /\ lastH' = [lastH EXCEPT ![b] = st]
    /\ out' = NoOut /\ act' = <<"CallH", b>> /\ UNCHANGED lastT /\ Counters

CallT(t) ==
    /\ \E st \in {"added", "fetching", "committed", "not_found"}, blk \in (IF StoredTx(Ix, t) # {} THEN {ReportedBlockOf(t)} ELSE {0}) :
          RpcFetchTx(t, st, blk) /\ lastT' = [lastT EXCEPT ![t] = st]
    /\ out' = NoOut /\ act' = <<"CallT", t>> /\ UNCHANGED lastH /\ Counters

Tick ==
    /\ FetchTick /\ FetchTickReq /\ FetchTickReqRel
    /\ out' = NoOut /\ act' = <<"Tick">> /\ Lasts /\ Counters

Static == UNCHANGED <<world, cfg, now, tip, tipTD, lastN, scripts, startOf, minF, mdb, mmem, cpFinal, cached, over, subst>>

AnswerH(p) ==
    LET bpr == pf[p].bpr
        found == {h \in Range(bpr.hs) : h >= 1 /\ IsAnc(world, h, bpr.last) /\ Num(world, h) < Num(world, bpr.last)}
        got == {b \in found : Entry(fetchH, b) # {}}
    IN /\ bpr.on
       \* (the number -> hash key of a fetched header replaces whatever that number pointed to)
       /\ nums' = {e \in nums : \A b \in got : e[1] # Num(world, b)} \cup {<<Num(world, b), b>> : b \in got}
       /\ HeaderFetchEffects(found, Range(bpr.hs) \ found)
       /\ pf' = [pf EXCEPT ![p].bpr = NoBpr]
       /\ out' = NoOut /\ act' = <<"AnswerH", p>> /\ UNCHANGED peer /\ Static /\ Lasts /\ Counters

AnswerT(p) ==
    /\ pf[p].tpr.on
    /\ out' = NoOut
    /\ LET tpr == pf[p].tpr
           gotB == {TxOf(world, t).b : t \in {x \in Range(tpr.hs) : x >= 1 /\ IsAnc(world, TxOf(world, x).b, tpr.last)
                                                     /\ Num(world, TxOf(world, x).b) < Num(world, tpr.last)
                                                     /\ Entry(fetchT, x) # {}}}
       IN nums' = {e \in nums : \A b \in gotB : e[1] # Num(world, b)} \cup {<<Num(world, b), b>> : b \in gotB}
    /\ TxsProofEffects(p, TRUE, tip)
    /\ pf' = [pf EXCEPT ![p].tpr = NoTpr]
    /\ act' = <<"AnswerT", p>> /\ Static /\ Lasts /\ Counters

\* an answer that fails a check: the peer is banned, the request cleared, and (since fix 4053296) its hashes are
\* marked for another try
RejectH(p) ==
    /\ bad < MaxBad /\ bad' = bad + 1 /\ UNCHANGED disc
    /\ pf[p].bpr.on
    /\ fetchH' = IF MarkOnReject THEN MarkTimeout(fetchH, Range(pf[p].bpr.hs)) ELSE fetchH
    /\ pf' = [pf EXCEPT ![p].bpr = NoBpr]
    /\ out' = Ban({p}) /\ act' = <<"RejectH", p>>
    /\ UNCHANGED <<peer, fetchT>> /\ IxUnchanged /\ Static /\ Lasts

RejectT(p) ==
    /\ bad < MaxBad /\ bad' = bad + 1 /\ UNCHANGED disc
    /\ pf[p].tpr.on
    /\ fetchT' = IF MarkOnReject THEN MarkTimeout(fetchT, Range(pf[p].tpr.hs)) ELSE fetchT
    /\ pf' = [pf EXCEPT ![p].tpr = NoTpr]
    /\ out' = Ban({p}) /\ act' = <<"RejectT", p>>
    /\ UNCHANGED <<peer, fetchH>> /\ IxUnchanged /\ Static /\ Lasts

\* the serving peer disconnects, or the refresh tick drops it because a request is overdue: remove_peer
Disc(p) ==
    /\ disc < MaxDisc /\ disc' = disc + 1 /\ UNCHANGED bad
    /\ peer[p].st # "None"
    /\ TimeoutPeers({p})
    /\ peer' = [peer EXCEPT ![p] = NonePeer]
    /\ pf' = [pf EXCEPT ![p] = PfInit]
    /\ out' = NoOut /\ act' = <<"Disc", p>> /\ IxUnchanged /\ Static /\ Lasts

\* the peer connects again and is proven at the tip (module PeerSync has the steps in between)
Reconn(p) ==
    /\ peer[p].st = "None"
    /\ peer' = [peer EXCEPT ![p] = ReadyPeer]
    /\ out' = NoOut /\ act' = <<"Reconn", p>>
    /\ UNCHANGED <<pf, fetchH, fetchT>> /\ IxUnchanged /\ Static /\ Lasts /\ Counters

MFNext ==
    \/ \E b \in HeaderIds : CallH(b)
    \/ \E t \in TxIds : CallT(t)
    \/ Tick
    \/ \E p \in FPeers : AnswerH(p) \/ AnswerT(p) \/ RejectH(p) \/ RejectT(p) \/ Disc(p) \/ Reconn(p)

Fairness ==
    /\ WF_mfVars(Tick)
    /\ \A p \in FPeers : WF_mfVars(AnswerH(p)) /\ WF_mfVars(AnswerT(p)) /\ WF_mfVars(Reconn(p))

MFSpec == MFInit /\ [][MFNext]_mfVars /\ Fairness

(***************************************************************************)
(* Properties                                                              *)
(***************************************************************************)
MFInv ==
    /\ NoOrphanFetch
    /\ FetchedTruthful
    \* one entry per id
    /\ \A e1 \in fetchH, e2 \in fetchH : e1[1] = e2[1] => e1 = e2
    /\ \A e1 \in fetchT, e2 \in fetchT : e1[1] = e2[1] => e1 = e2
    \* a request names only hashes the tables hold or that have been answered meanwhile by another route
    /\ \A p \in FPeers : pf[p].bpr.on => peer[p].st # "None"

\* C16: the statuses a caller sees follow added -> fetching -> fetched | not_found (-> added again)
HEdges == {<<"none", "added">>, <<"none", "fetched">>,
           <<"added", "added">>, <<"added", "fetching">>, <<"added", "fetched">>, <<"added", "not_found">>,
           <<"fetching", "fetching">>, <<"fetching", "fetched">>, <<"fetching", "not_found">>,
           <<"not_found", "added">>, <<"not_found", "fetching">>, <<"not_found", "fetched">>, <<"not_found", "not_found">>,
           <<"fetched", "fetched">>, <<"none", "none">>}
Fin(s) == IF s = "committed" THEN "fetched" ELSE s
StatusEdges ==
    /\ \A b \in HeaderIds : <<lastH[b], lastH'[b]>> \in HEdges
    /\ \A t \in TxIds : <<Fin(lastT[t]), Fin(lastT'[t])>> \in HEdges

\* C16: not_found only when a proven peer reported the hash missing
MissingOnlyReported ==
    /\ \A e \in fetchH' : e[5] =>
          \/ \E o \in fetchH : o[1] = e[1] /\ o[5]
          \/ \E p \in FPeers : act' = <<"AnswerH", p>> /\ HasProof(peer[p]) /\ e[1] \in Range(pf[p].bpr.hs)
                                /\ ~(e[1] >= 1 /\ IsAnc(world, e[1], pf[p].bpr.last))
    /\ \A e \in fetchT' : e[5] =>
          \/ \E o \in fetchT : o[1] = e[1] /\ o[5]
          \/ \E p \in FPeers : act' = <<"AnswerT", p>> /\ HasProof(peer[p]) /\ e[1] \in Range(pf[p].tpr.hs)

\* an entry leaves the table only when its data is stored
RemovedOnlyFetched ==
    /\ \A e \in fetchH : (\A n \in fetchH' : n[1] # e[1]) => e[1] \in hdrs'
    /\ \A e \in fetchT : (\A n \in fetchT' : n[1] # e[1]) => StoredTx([Ix EXCEPT !.txs = txs'], e[1]) # {}

StepProps == [][StatusEdges /\ MissingOnlyReported /\ RemovedOnlyFetched]_mfVars

\* C16: never lost when the serving peer times out or disconnects
NeverLostH == \A b \in HeaderIds :
    [](Entry(fetchH, b) # {} => <>(b \in hdrs \/ \E e \in Entry(fetchH, b) : e[5]))
NeverLostT == \A t \in TxIds :
    [](Entry(fetchT, t) # {} => <>(StoredTx(Ix, t) # {} \/ \E e \in Entry(fetchT, t) : e[5]))
=============================================================================
