---------------------------- MODULE Trace_Writes ----------------------------
(***************************************************************************)
(* Write-level trace validation (Writes.tla).  The driver records, for     *)
(* every handler call / RPC of the real client that writes to the store,   *)
(*   WBegin  the event, its arguments, the full state before it, the state *)
(*           after it, and the labels of all storage writes it made;       *)
(*   W       one line per write: its label, whether the matched-blocks     *)
(*           lock was held when the hook fired, and the store read back    *)
(*           after it (a raw scan, taken at the next hook point).          *)
(* Accepted iff the label sequence is the chain the specification gives    *)
(* for that event in that state and every write has the specified effect   *)
(* on the store and nothing else; NoLoss / StoreUsable are evaluated on    *)
(* every intermediate store (the states a crash can leave behind).         *)
(***************************************************************************)
EXTENDS Writes, Json, IOUtils

Rec == ndJsonDeserialize(IOEnv.TRACE)
VARIABLE l

ToSet(s) == {s[i] : i \in DOMAIN s}
CfgOf(r) == [peers |-> ToSet(r.cfg.peers), lastN |-> r.cfg.lastN, allow |-> {}, msgTimeout |-> 60, refreshLag |-> 8,
             interval |-> r.cfg.interval, maxOut |-> r.cfg.maxOut, liars |-> {}]
MmemOf(st) == {<<e[1], e[2], e[3]>> : e \in ToSet(st.mmem)}

LoadPersistent(st) ==
    /\ tip' = st.tip /\ tipTD' = st.tipTD /\ lastN' = st.lastN
    /\ scripts' = ToSet(st.scripts) /\ minF' = st.minF /\ mdb' = st.mdb
    /\ cells' = ToSet(st.cells) /\ hist' = ToSet(st.hist) /\ txs' = ToSet(st.txs)
    /\ hdrs' = ToSet(st.hdrs) /\ nums' = ToSet(st.nums)
    /\ cpFinal' = st.cpFinal
LoadVolatile(st) ==
    /\ now' = st.now /\ peer' = st.peer /\ mmem' = MmemOf(st)
    /\ cached' = st.cached /\ pf' = st.pf
    /\ fetchH' = ToSet(st.fetchH) /\ fetchT' = ToSet(st.fetchT)
VolatileUnchanged == UNCHANGED <<now, peer, mmem, cached, pf, fetchH, fetchT>>
HistoryUnchanged == UNCHANGED <<startOf, over, subst, out>>

FMsg(a) == [start |-> a.start, fs |-> a.fs, hs |-> a.hs]

\* context of the operation, evaluated in the state it starts from
CtxOf(r) ==
    CASE r.op = "Filters" -> [plans |-> FPlans(r.a.p, FMsg(r.a))]
      [] r.op = "Block"   -> [blocks |-> BBlocks, rec |-> IF mdb = <<>> THEN <<>> ELSE mdb[1]]
      [] r.op = "Proof"   -> [moves |-> r.post.tip # tip \/ r.post.tipTD # tipTD,
                              fd |-> ForkDecision(r.post.peer[r.a.p].pReorg, r.post.peer[r.a.p].pLastN),
                              tip |-> r.post.tip, tipTD |-> r.post.tipTD, lastN |-> r.post.lastN]
      [] r.op = "LastState" -> [moves |-> TRUE, fd |-> [long |-> FALSE, kind |-> "none", f |-> 0],
                                tip |-> r.post.tip, tipTD |-> r.post.tipTD, lastN |-> r.post.lastN]
      [] OTHER -> <<>>

\* the write chains the specification allows for the event
LabelsOk(r, c) ==
    CASE r.op = "SetScripts" -> r.labels = SSLabels(r.a.cmd, r.a.list)
      [] r.op = "Filters"    -> \E pl \in c.plans : r.labels \in FLabelsOf(pl)
      [] r.op = "Block"      -> r.labels = BLabels(r.a.b, r.a.body)
      [] r.op \in {"Proof", "LastState"} -> r.labels = TLabels(c)
      [] r.op = "Refresh"    -> r.labels = <<Lbl.ucp, Lbl.umax>>
      [] r.op \in {"BlocksProof", "TxsProof"} -> \A i \in 1..Len(r.labels) : r.labels[i] \in {Lbl.afh, Lbl.aft}
      [] OTHER -> FALSE       \* no other event writes to the store

WStep(r) ==
    CASE r.op = "SetScripts" -> W_SetScripts(r.a.cmd, r.a.list, r.label, r.k)
      [] r.op = "Filters"    -> \E pl \in wctx.plans : r.labels \in FLabelsOf(pl) /\ W_Filters(r.a.p, FMsg(r.a), pl, r.label, r.k)
      [] r.op = "Block"      -> W_Block(wctx, r.label, r.k)
      [] r.op \in {"Proof", "LastState"} -> W_Tip(wctx, r.label, r.k)
      [] r.op = "Refresh"    -> W_Refresh(r.label, r.k)
      [] r.op \in {"BlocksProof", "TxsProof"} -> W_Fetched(r.label)
      [] OTHER -> FALSE

TraceInit ==
    /\ l = 1
    /\ LET r == Rec[1] IN
       /\ world = r.world /\ cfg = CfgOf(r)
       /\ now = r.st.now /\ peer = r.st.peer /\ tip = r.st.tip /\ tipTD = r.st.tipTD /\ lastN = r.st.lastN
       /\ out = NoOut
       /\ scripts = ToSet(r.st.scripts) /\ minF = r.st.minF /\ mdb = r.st.mdb /\ mmem = MmemOf(r.st)
       /\ cells = ToSet(r.st.cells) /\ hist = ToSet(r.st.hist) /\ txs = ToSet(r.st.txs)
       /\ hdrs = ToSet(r.st.hdrs) /\ nums = ToSet(r.st.nums)
       /\ cpFinal = r.st.cpFinal /\ cached = r.st.cached /\ pf = r.st.pf
       /\ fetchH = ToSet(r.st.fetchH) /\ fetchT = ToSet(r.st.fetchT)
       /\ startOf = <<>> /\ over = {} /\ subst = {} /\ wctx = <<>>

TraceNext ==
    /\ l < Len(Rec)
    /\ l' = l + 1
    /\ HistoryUnchanged
    /\ \E r \in {Rec[l + 1]} :      \* (bound, not LET: the primed expressions below must not prime l inside r)
       IF r.ev = "Reset"
       THEN /\ world' = r.world /\ cfg' = CfgOf(r) /\ LoadPersistent(r.st) /\ LoadVolatile(r.st) /\ wctx' = <<>>
       ELSE IF r.ev = "WBegin"
       THEN \* the state the handler call starts from; its chain of writes is the specified one for that state
            /\ UNCHANGED <<world, cfg>> /\ LoadPersistent(r.st) /\ LoadVolatile(r.st)
            /\ wctx' = CtxOf(r)'
            /\ LabelsOk(r, CtxOf(r))'
       ELSE \* one write: the specified effect on the store, nothing else, inside the critical section
            /\ r.ev = "W"
            /\ UNCHANGED <<world, cfg, wctx>> /\ VolatileUnchanged /\ LoadPersistent(r.st)
            /\ WStep(r)
            /\ (WInLock(r.op, r.label) => r.locked)

TraceSpec == TraceInit /\ [][TraceNext]_<<l, allVars, wctx>>

Forkless == \A a \in BlockIds(world), b \in BlockIds(world) : (a # b /\ Par(world, a) # 0) => Par(world, a) # Par(world, b)

TraceInv ==
    /\ StoreUsable
    /\ NoForgedData
    /\ Forkless => NoLoss

TraceAccepted ==
    LET d == TLCGet("stats").diameter IN
    IF d = Len(Rec) THEN TRUE
    ELSE /\ PrintT(<<"TRACE-REJECTED line", d + 1, "scenario", Rec[d + 1].sc, "event", Rec[d + 1].ev>>)
         /\ FALSE
=============================================================================
