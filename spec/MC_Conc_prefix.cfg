\* the discipline before the fix: tip and prove state are updated after the lock is released.  TLC must refute it
\* (expected to fail): an old-branch batch whose verdict is computed in that window is recorded on the new tip.
SPECIFICATION CSpec
CONSTANTS
  LockTip = FALSE
  MaxCrashes = 1
INVARIANT CInv
CHECK_DEADLOCK FALSE
