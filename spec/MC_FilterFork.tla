--------------------------- MODULE MC_FilterFork ---------------------------
(***************************************************************************)
(* C04 as a bounded model: the filter pipeline of MC_FilterSync on a world *)
(* with a fork.  The peer serves the old branch (blocks 1..7), at any      *)
(* point of the pipeline -- between two batches, with matched blocks       *)
(* pending, partly proved or downloaded, right after a set_scripts or a    *)
(* restart -- it reorganises to the heavier branch 8..10 on top of block 5 *)
(* and its proof is committed (PeerSync!ForkDecision on the stored last-N  *)
(* headers, FilterSync!CommitEffects: records above the fork point         *)
(* removed, rollback, tip).  Afterwards it serves the new branch.          *)
(* In every state the index invariants hold for the stored tip, and at     *)
(* quiescence the index is complete for the new chain; the known findings  *)
(* about kept records that span the fork block and the number             *)
(* rollback_to_block stores are admitted by name (AllowKF) and reported.   *)
(*                                                                         *)
(* Script 1 (key 2): cells in block 3, spent in block 4, in block 6 (old   *)
(* branch only), in block 8 (new branch, height 5) and in block 9.         *)
(* Script 2 (key 4): cell in block 4, spent in block 9 (new branch).       *)
(***************************************************************************)
EXTENDS FilterSync

CONSTANTS MaxSetScripts, AllowKF

VARIABLES ssCount, forked
mcVars == <<allVars, ssCount, forked>>

P == "p1"
Blk(par, n) == [parent |-> par, num |-> n, diff |-> 2, td |-> 2 * (n + 1), ttd |-> 2 * (n + 1),
                ep |-> <<0, n, 100>>, pow |-> TRUE, root |-> TRUE]
FWorld ==
    [blocks |-> <<Blk(0, 0), Blk(1, 1), Blk(2, 2), Blk(3, 3), Blk(4, 4), Blk(5, 5), Blk(6, 6),
                  Blk(5, 5), Blk(8, 6), Blk(9, 7)>>,
     txs |-> << [b |-> 3, i |-> 0, ins |-> <<>>, outs |-> << <<1, 0, 100, 0>> >>],
                [b |-> 4, i |-> 0, ins |-> << <<1, 0>> >>, outs |-> << <<2, 0, 90, 0>> >>],
                [b |-> 6, i |-> 0, ins |-> <<>>, outs |-> << <<1, 0, 80, 0>> >>],
                [b |-> 8, i |-> 0, ins |-> <<>>, outs |-> << <<1, 0, 70, 0>> >>],
                [b |-> 9, i |-> 0, ins |-> << <<2, 0>> >>, outs |-> << <<1, 0, 60, 0>> >>] >>,
     btx |-> << <<>>, <<>>, <<1>>, <<2>>, <<>>, <<3>>, <<>>, <<4>>, <<5>>, <<>> >>]

OldTip == 7
NewTip == 10
OldLatest == <<0, <<2, 3, 4, 5, 6, 7>> >>
NewLatest == <<0, <<2, 3, 4, 5, 8, 9, 10>> >>
\* the prove state of the accepted proof of NewTip: no reorg section (the request started from a remembered header),
\* last headers at heights 4, 5, 6
NewLastN == <<5, 8, 9>>

ReadyPeer(b, ln) == [st |-> "Ready", last |-> b, lastTs |-> 0, proved |-> b,
                     pLastN |-> ln, pReorg |-> <<>>, req |-> NoReq, when |-> 0]
NoBpr == [on |-> FALSE, last |-> 0, hs |-> <<>>, when |-> 0, get |-> FALSE]
PfOf(latest) == [cps |-> <<0, <<1>> >>, latest |-> latest, bpr |-> NoBpr,
                 br |-> [on |-> FALSE, hs |-> <<>>, when |-> 0], tpr |-> [on |-> FALSE, last |-> 0, hs |-> <<>>, when |-> 0]]

MCInit ==
    /\ TLCSet(43, 0) /\ TLCSet(44, 0) /\ TLCSet(45, 0)
    /\ world = FWorld
    /\ cfg = [peers |-> {P}, lastN |-> 3, allow |-> AllowKF, interval |-> 100, maxOut |-> 1, liars |-> {}, msgTimeout |-> 2, refreshLag |-> 0]
    /\ now = 0 /\ peer = [p \in {P} |-> ReadyPeer(OldTip, <<4, 5, 6>>)]
    /\ tip = OldTip /\ tipTD = 14 /\ lastN = << <<3, 4>>, <<4, 5>>, <<5, 6>> >>
    /\ out = NoOut
    /\ scripts = {} /\ startOf = <<>> /\ minF = 0 /\ mdb = <<>> /\ mmem = {}
    /\ cells = {} /\ hist = {} /\ txs = {} /\ hdrs = {1} /\ nums = {<<0, 1>>}
    /\ cpFinal = <<1>> /\ cached = <<0, <<>> >> /\ pf = [p \in {P} |-> PfOf(OldLatest)]
    /\ fetchH = {} /\ fetchT = {} /\ over = {} /\ subst = {}
    /\ ssCount = 0 /\ forked = FALSE

Lists == { <<>>, << <<2, 0>> >>, << <<2, 4>> >>, << <<4, 0>> >>, << <<2, 0>>, <<4, 0>> >>, << <<4, 5>> >> }

MCSetScripts ==
    /\ ssCount < MaxSetScripts /\ ssCount' = ssCount + 1
    /\ out' = NoOut /\ UNCHANGED forked
    /\ \E cmd \in {"all", "partial", "delete"}, list \in Lists : SetScripts(cmd, list)

\* the honest batch of n filters from minF + 1 on the branch the peer serves now
Latest == IF forked THEN NewLatest ELSE OldLatest
TopNum == IF forked THEN 7 ELSE 6
Batch(n) == [start |-> minF + 1,
             fs |-> [i \in 1..n |-> Latest[2][minF + i]],
             hs |-> [i \in 1..n |-> Latest[2][minF + i]]]
MustOf(m) ==
    LET active == Unkey({k \in Keys : NumOf(k) < m.start + Len(m.fs)}) IN
    {i \in 1..Len(m.fs) : Unkey(TouchKeys(m.fs[i])) \cap active # {}}
RECURSIVE SeqOfSet(_)
SeqOfSet(S) == IF S = {} THEN <<>> ELSE LET x == CHOOSE y \in S : \A z \in S : y <= z IN <<x>> \o SeqOfSet(S \ {x})
MCRecvFilters ==
    /\ scripts # {}
    /\ \E n \in 1..3 :
        /\ minF + n <= TopNum
        /\ LET m == Batch(n)
               must == MustOf(m)
               blocks == SeqOfSet({m.hs[i] : i \in must})
               rec == <<m.start, n, [j \in 1..Len(blocks) |-> <<blocks[j], blocks[j] = peer[P].proved>>]>>
           IN /\ out' = NoOut
              /\ mdb' = IF must = {} THEN mdb
                        ELSE IF \E at \in 1..Len(mdb) : mdb[at][1] = m.start
                        THEN [i \in 1..Len(mdb) |-> IF mdb[i][1] = m.start THEN rec ELSE mdb[i]]
                        ELSE Append(mdb, rec)
              /\ RecvFilters(P, m)
    /\ UNCHANGED <<ssCount, forked, cached, pf, fetchH, fetchT>>

\* only blocks of the chain the peer serves can be proved by it
MCBlocksProof ==
    /\ mmem # {} /\ \E e \in mmem : ~e[2] /\ IsAnc(world, e[1], peer[P].proved)
    /\ out' = NoOut
    /\ RecvBlocksProofMatched(P, [ok |-> TRUE, get |-> TRUE,
                                  found |-> {e[1] : e \in {x \in mmem : IsAnc(world, x[1], peer[P].proved)}}])
    /\ UNCHANGED <<peer, pf, fetchH, fetchT, over, subst, ssCount, forked>> /\ IxUnchanged

MCRecvBlock ==
    /\ \E e \in mmem : e[2] /\ ~e[3] /\ (out' = NoOut /\ RecvBlock(P, e[1], "true"))
    /\ UNCHANGED <<pf, fetchH, fetchT, ssCount, forked>>

MCTick == out' = NoOut /\ FilterTick0 /\ UNCHANGED <<cached, pf, ssCount, forked>>

MCRestart ==
    /\ mmem # {} /\ mmem' = {} /\ out' = NoOut
    /\ UNCHANGED <<world, cfg, now, peer, tip, tipTD, lastN>>
    /\ UNCHANGED <<scripts, startOf, minF, mdb, cells, hist, txs, hdrs, nums, cpFinal, cached, pf, fetchH, fetchT, over, subst, ssCount, forked>>

\* the peer has reorganised; its proof of the new tip is committed (and its filter hashes of the new branch learnt)
MCFork ==
    /\ ~forked /\ forked' = TRUE
    /\ out' = NoOut
    /\ UNCHANGED <<world, cfg, now, startOf, cpFinal, cached, fetchH, fetchT, ssCount>>
    /\ tip' = NewTip /\ tipTD' = 16 /\ lastN' = [i \in 1..Len(NewLastN) |-> <<Num(world, NewLastN[i]), NewLastN[i]>>]
    /\ peer' = [peer EXCEPT ![P] = ReadyPeer(NewTip, NewLastN)]
    /\ pf' = [pf EXCEPT ![P].latest = NewLatest]
    /\ CommitEffects(<<>>, NewLastN, TRUE)
    /\ subst' = subst \cup SpanKept

\* rollback_to_fork_number before fix 10f415f of /repo (MC_FilterFork_prefix.cfg: TLC must refute it)
OldRollbackTarget(kept, f) == (IF kept = <<>> THEN f ELSE kept[Len(kept)][1]) + 1

MCNext == MCSetScripts \/ MCRecvFilters \/ MCBlocksProof \/ MCRecvBlock \/ MCTick \/ MCRestart \/ MCFork
MCSpec == MCInit /\ [][MCNext]_mcVars

\* pending records never make the client wait for a block of the abandoned branch -- unless the record spans the
\* fork block (KF-C04-spanning-record)
NoStuck ==
    \A i \in 1..Len(mdb) : \A j \in 1..Len(mdb[i][3]) :
        IsAnc(world, mdb[i][3][j][1], tip) \/ ("KF-C04-spanning-record" \in cfg.allow /\ (0 - mdb[i][3][j][1] - 1) \in subst)

MCInv ==
    /\ NoForgedData /\ (~Tainted => (CellsSound /\ HistOnCanon /\ ScriptsNumberHonest))
    /\ MatchedAtRightHeight /\ FiltersOfOwnChain /\ NoStuck
    /\ (Quiet /\ ~Tainted) => Complete
=============================================================================
