------------------------------- MODULE Query -------------------------------
(***************************************************************************)
(* C13: the index queries (get_cells, get_transactions,                    *)
(* get_cells_capacity) as views of the stored index.                       *)
(*                                                                         *)
(*   index entries (module Index): cells <<sk, num, txIndex, outIndex, tx>> *)
(*                                 hist  <<sk, num, txIndex, io, ioType, tx>>*)
(*   sk = 2 * script id + (0 lock | 1 type);  sbytes[id] = the script as   *)
(*   stored in a key: code hash, hash type, args (bytes)                   *)
(*                                                                         *)
(* KEY ORDER is the byte order of the stored keys: script bytes, then the  *)
(* big-endian numbers.  A query matches the entries whose SCRIPT starts    *)
(* with the search script (code hash, hash type, args prefix).             *)
(***************************************************************************)
EXTENDS Index, Sequences

BE4(n) == <<(n \div 16777216) % 256, (n \div 65536) % 256, (n \div 256) % 256, n % 256>>
BE8(n) == <<0, 0, 0, 0>> \o BE4(n)

IsPrefixOf(p, s) == Len(p) <= Len(s) /\ \A i \in 1..Len(p) : p[i] = s[i]

RECURSIVE LexLessFrom(_, _, _)
LexLessFrom(a, b, i) ==
    IF i > Len(a) THEN i <= Len(b)            \* a is a proper prefix of b
    ELSE IF i > Len(b) THEN FALSE
    ELSE IF a[i] < b[i] THEN TRUE
    ELSE IF a[i] > b[i] THEN FALSE
    ELSE LexLessFrom(a, b, i + 1)
LexLess(a, b) == LexLessFrom(a, b, 1)

CellKey(sb, e) == sb[e[1] \div 2] \o BE8(e[2]) \o BE4(e[3]) \o BE4(e[4])
HistKey(sb, h) == sb[h[1] \div 2] \o BE8(h[2]) \o BE4(h[3]) \o BE4(h[4]) \o <<h[5]>>

InRange(r, v) == r = <<>> \/ (r[1] <= v /\ v < r[2])              \* [r0, r1)
InRangeIncl(r, v) == r = <<>> \/ (r[1] <= v /\ v <= r[2])         \* [r0, r1]  (script_len_range, as implemented)

\* the cell's other script (the one the search does not go by): 0 if it has none
OtherScript(w, e, stype) ==
    LET out == TxOf(w, e[5]).outs[e[4] + 1] IN IF stype = 0 THEN out[2] ELSE out[1]

\* q = [script, stype, hasF, fscript, slen, dlen, cap, blocks, withData, group]
CellMatches(w, sb, q, e) ==
    LET out == TxOf(w, e[5]).outs[e[4] + 1]
        other == OtherScript(w, e, q.stype)
    IN /\ e[1] % 2 = q.stype /\ e[1] \div 2 >= 1
       /\ IsPrefixOf(q.script, sb[e[1] \div 2])
       /\ q.hasF => (other # 0 /\ IsPrefixOf(q.fscript, sb[other]))
       /\ InRangeIncl(q.slen, IF other = 0 THEN 0 ELSE Len(sb[other]))
       /\ InRange(q.dlen, out[4])
       /\ InRange(q.cap, out[3])
       /\ InRange(q.blocks, e[2])

\* get_transactions: the filter script is an exact script of the other kind at the same position
HistMatches(sb, hs, q, h) ==
    /\ h[1] % 2 = q.stype /\ h[1] \div 2 >= 1
    /\ IsPrefixOf(q.script, sb[h[1] \div 2])
    /\ q.hasF => \E g \in hs : /\ g[2] = h[2] /\ g[3] = h[3] /\ g[4] = h[4] /\ g[5] = h[5]
                               /\ g[1] % 2 = 1 - q.stype /\ g[1] \div 2 >= 1 /\ sb[g[1] \div 2] = q.fscript
    /\ InRange(q.blocks, h[2])

(***************************************************************************)
(* One page.  C: the matching entries after the cursor (as keys), R: the   *)
(* returned ones in the order returned, as keys.                           *)
(***************************************************************************)
Before(desc, a, b) == IF desc THEN LexLess(b, a) ELSE LexLess(a, b)

\* R is exactly the first Len(R) elements of C in the query's order, without repetition
IsFirstOf(desc, R, C) ==
    /\ \A i \in 1..Len(R) : R[i] \in C
    /\ \A i \in 1..(Len(R) - 1) : Before(desc, R[i], R[i + 1])
    /\ R # <<>> => \A c \in C : (Before(desc, c, R[Len(R)]) \/ c = R[Len(R)]) => \E i \in 1..Len(R) : R[i] = c

PageOk(desc, limit, R, C) ==
    /\ IsFirstOf(desc, R, C)
    /\ Len(R) <= limit
    /\ Len(R) < limit => \A c \in C : \E i \in 1..Len(R) : R[i] = c
=============================================================================
