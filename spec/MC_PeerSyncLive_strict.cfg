SPECIFICATION LSpec
CONSTANTS
  MCPeers = {"p1", "p2"}
  MCLastN = 3
  MaxNow = 0
  AnnounceSet = {}
  ServerTips = {}
  HonestOnly = TRUE
  BoundaryChoices = {0}
  StartTips <- StartTipsDef
  MaxRestarts = 1
  StrictConverge = TRUE
INVARIANT LInv
PROPERTY ConvergesToHeaviest
CHECK_DEADLOCK FALSE
