SPECIFICATION MCSpec
CONSTANTS
  MaxSetScripts = 2
  AllowKF = {"KF-C03-stale-before-start", "KF-C04-spanning-record", "KF-C09-rollback-number"}
INVARIANT MCInv
CHECK_DEADLOCK FALSE
