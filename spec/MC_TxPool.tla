------------------------------ MODULE MC_TxPool ------------------------------
(***************************************************************************)
(* Bounded model of the pending pool (C18): five transactions (a chain of  *)
(* dependent ones, one breaking a rule, one with an unknown input), pool   *)
(* limit 2, two relay peers; every order of submissions (incl. repeated    *)
(* ones), estimates, relay connects / disconnects and ticks.               *)
(***************************************************************************)
EXTENDS TxPool, TLC

Peers == {"p1", "p2"}
D == [t \in 1..5 |->
        CASE t = 1 -> [ins |-> << <<10, 0>> >>, deps |-> << <<11, 0>> >>, cls |-> "valid", nouts |-> 2]
          [] t = 2 -> [ins |-> << <<1, 1>> >>, deps |-> << <<11, 0>> >>, cls |-> "valid", nouts |-> 1]      \* spends pending 1
          [] t = 3 -> [ins |-> << <<10, 1>> >>, deps |-> << <<11, 0>> >>, cls |-> "capacity", nouts |-> 1]
          [] t = 4 -> [ins |-> << <<12, 0>> >>, deps |-> << <<11, 0>> >>, cls |-> "valid", nouts |-> 1]     \* unknown input
          [] OTHER -> [ins |-> << <<10, 1>>, <<2, 0>> >>, deps |-> << <<11, 0>> >>, cls |-> "valid", nouts |-> 1]]

Init ==
    /\ desc = D /\ stored = (10 :> 2 @@ 11 :> 1) /\ limit = 2
    /\ pool = <<>> /\ ann = <<>> /\ opened = {} /\ ever = {} /\ reply = {}

Next ==
    \/ \E t \in 1..5, kind \in {"send", "estimate"}, res \in {"ok", "err"} : Submit(t, kind, res)
    \/ \E p \in Peers : (p \notin opened /\ RelayConnect(p)) \/ (p \in opened /\ RelayDisconnect(p))
    \/ RelayTick

Spec == Init /\ [][Next]_tvars
Inv == PoolBounded /\ PoolNoDup /\ OnlyValidPending
\* a transaction that depends on an evicted / never admitted one is rejected: everything pending resolved when it came in
=============================================================================
