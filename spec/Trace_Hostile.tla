--------------------------- MODULE Trace_Hostile ---------------------------
(***************************************************************************)
(* Trace validation for C10: the hostile-message driver's log against      *)
(* Hostile.tla.  A Panic record is a step only as LongForkAbort.           *)
(***************************************************************************)
EXTENDS Hostile, Json, IOUtils, TLC, Sequences

Rec == ndJsonDeserialize(IOEnv.TRACE)
ToSet(s) == {s[i] : i \in 1..Len(s)}

VARIABLE l
allVars == <<hvars, l>>

Load(r) == /\ tip' = r.st.tip /\ tipTD' = r.st.tipTD /\ pst' = r.st.peer

OutcomeOf(r) ==
    IF r.out.ban # <<>> THEN "ban"
    ELSE IF r.out.drop # <<>> THEN "disconnect"
    ELSE IF r.out.sent # <<>> THEN "accept"
    ELSE "ignore"

TraceInit ==
    /\ l = 1
    /\ LET r == Rec[1] IN
       /\ r.ev = "Reset"
       /\ world = r.world /\ peers = ToSet(r.cfg.peers) /\ alive = TRUE /\ pow = r.x.pow
       /\ tip = r.st.tip /\ tipTD = r.st.tipTD /\ pst = r.st.peer

TraceNext ==
    /\ l < Len(Rec)
    /\ l' = l + 1
    /\ LET r == Rec[l + 1] IN
       CASE r.ev = "Reset" ->
              /\ world' = r.world /\ peers' = ToSet(r.cfg.peers) /\ alive' = TRUE /\ pow' = r.x.pow /\ Load(r)
         [] r.ev = "Hostile" -> Load(r) /\ Deliver(r.a.proto, r.a.p, OutcomeOf(r))
         [] r.ev = "HostileTick" -> Load(r) /\ Tick(r.a.proto, r.a.token)
         [] r.ev = "Panic" ->
              \* the process is gone; the driver ends the scenario here
              /\ r.a.msg = "long fork detected" /\ r.a.during \in {"Proof", "Hostile"}
              /\ LongForkAbort(r.a.args.p)
         [] OTHER -> Load(r) /\ Env

TraceSpec == TraceInit /\ [][TraceNext]_allVars

TraceInv == TypeOK

TraceAccepted ==
    LET d == TLCGet("stats").diameter IN
    IF d = Len(Rec) THEN TRUE
    ELSE /\ PrintT(<<"TRACE-REJECTED line", d + 1, "scenario", Rec[d + 1].sc, "event", Rec[d + 1].ev>>)
         /\ (Rec[d + 1].ev = "Panic" => PrintT(<<"PANIC", Rec[d + 1].a.msg>>))
         /\ FALSE
=============================================================================
