SPECIFICATION RSpec
CONSTANTS
  Peers = {"p1", "p2", "p3"}
  Liars = {"p3"}
  MaxOut = 3
  I = 2
  MaxIdx = 3
  MaxMsg = 2
  Depth = 28
INVARIANT Emit
CHECK_DEADLOCK FALSE
